package main

import (
	"fmt"
	"go/token"
	"strings"

	"golang.org/x/tools/go/ssa"
)

func factString(f Fact) string {
	k := map[FactKind]string{FNil: "nil", FNonNil: "nonnil", FTrue: "true", FFalse: "false", FCmp: "cmp"}[f.Kind]
	if f.Kind == FCmp {
		return fmt.Sprintf("cmp(%s %s %s)", valDesc(f.X), f.Op, valDesc(f.Y))
	}
	return fmt.Sprintf("%s(%s)", k, valDesc(f.V))
}

func valDesc(v ssa.Value) string {
	if v == nil {
		return "<nil>"
	}
	v = canon(v)
	switch x := v.(type) {
	case *ssa.Call:
		c, _ := CalleeOf(x.Common())
		return "call " + c.String()
	case *ssa.Extract:
		return fmt.Sprintf("%s#%d", valDesc(x.Tuple), x.Index)
	case *ssa.UnOp:
		if x.Op == token.MUL {
			if n, _ := loadedField(x); n != "" {
				return "field ." + n
			}
			return "load " + x.X.Name()
		}
	case *ssa.Const:
		return x.String()
	case *ssa.Parameter:
		return "param " + x.Name()
	case *ssa.BinOp:
		return fmt.Sprintf("(%s %s %s)", valDesc(x.X), x.Op, valDesc(x.Y))
	}
	return v.Name() + ":" + strings.TrimPrefix(fmt.Sprintf("%T", v), "*ssa.")
}

func probe(dir, spec string) {
	w, err := LoadWorld(dir, nil)
	if err != nil {
		fmt.Println(err)
		return
	}
	if spec == "inventory" {
		for _, f := range w.ProdFuncs {
			if f.Parent() == nil && f.Synthetic == "" {
				fmt.Println("INV " + w.FuncKey(f))
			}
		}
		return
	}
	parts := strings.Split(spec, ":")
	f := w.Func(parts[0], parts[1], parts[2])
	if f == nil {
		fmt.Println("not found")
		return
	}
	fl := NewFlow(w)
	for _, g := range WithAnon(f) {
		fmt.Printf("== %s\n", w.FuncKey(g))
		for _, s := range CallsIn(g) {
			fmt.Printf("  %s  call %s\n", w.Pos(s.Instr.Pos()), s.Callee)
			for _, fa := range FactsAt(s.Instr) {
				fmt.Printf("        under %s\n", factString(fa))
			}
			if len(parts) > 3 && strings.Contains(s.Callee.Name, parts[3]) {
				for i, a := range s.Args() {
					aps, _ := fl.Influence(a)
					fmt.Printf("        arg%d <- %v\n", i, aps.Strings())
				}
			}
		}
		for _, r := range Returns(g) {
			fmt.Printf("  return at %s kind=%d\n", w.Pos(r.Ret.Pos()), r.Kind)
			for i, rv := range r.Ret.Results {
				aps, _ := fl.Influence(rv)
				fmt.Printf("        result%d (%s) <- %v\n", i, valDesc(rv), aps.Strings())
			}
		}
		for _, m := range w.mutsIn(fl, g) {
			fmt.Printf("  MUT %s %s tags=%v\n", w.Pos(m.Site.Instr.Pos()), m.Op, m.Tags)
		}
	}
}
