package main

// selftest.go — overlay mutants: small edits of the real tree applied in memory
// (packages.Config.Overlay), each of which must make one named rule instance fail.
// This tests the checker; it does not run Paloma.

import (
	"encoding/json"
	"fmt"
	"os"
	"os/exec"
	"path/filepath"
	"sort"
	"strings"
	"sync"
)

type Mutant struct {
	Name     string
	Property string
	File     string // repo-relative
	Old, New string // exact text replacement, Old must occur exactly once
	Expect   string // substring of the obligation key that must newly fail
}

var mutants []Mutant

func addMutant(m Mutant) { mutants = append(mutants, m) }

// second edit of a two-edit mutant (a helper definition added next to the call site that uses it)
var mutantExtra = map[string][2]string{}

func addMutant2(m Mutant, old2, new2 string) {
	mutants = append(mutants, m)
	mutantExtra[m.Name] = [2]string{old2, new2}
}

type selfTestResult struct {
	Run, Detected, Missed, NotApplicable int
	MissedNames                          []string
	Report                               []map[string]any
}

func applyMutant(dir string, m Mutant) (map[string][]byte, error) {
	p := filepath.Join(dir, m.File)
	b, err := os.ReadFile(p)
	if err != nil {
		return nil, err
	}
	s := string(b)
	if strings.Count(s, m.Old) != 1 {
		return nil, fmt.Errorf("anchor text occurs %d times", strings.Count(s, m.Old))
	}
	s = strings.Replace(s, m.Old, m.New, 1)
	if ex, ok := mutantExtra[m.Name]; ok {
		if strings.Count(s, ex[0]) != 1 {
			return nil, fmt.Errorf("second anchor text occurs %d times", strings.Count(s, ex[0]))
		}
		s = strings.Replace(s, ex[0], ex[1], 1)
	}
	return map[string][]byte{p: []byte(s)}, nil
}

// runMutant (child process): prints the failing obligation keys of the property on the mutated tree.
func runMutant(dir, prop, name string) int {
	for _, m := range mutants {
		if m.Name != name {
			continue
		}
		ov, err := applyMutant(dir, m)
		if err != nil {
			fmt.Printf("{\"not_applicable\": %q}\n", err.Error())
			return 0
		}
		cf, err := computeAll(dir, m.Property, ov)
		if err != nil {
			fmt.Printf("{\"load_error\": %q}\n", err.Error())
			return 0
		}
		r := cf.Results[m.Property]
		if flt := os.Getenv("PCDUMP"); flt != "" {
			for _, ob := range r.Obligations {
				if strings.Contains(ob.Key, flt) {
					fmt.Fprintf(os.Stderr, "  ok=%v note=%v %s [%s] %s\n", ob.OK, ob.Note, ob.Key, ob.Pos, ob.Detail)
				}
			}
		}
		var keys []string
		for _, ob := range r.Obligations {
			if !ob.OK && !ob.Note {
				keys = append(keys, ob.Key)
			}
		}
		for _, u := range r.Unresolved {
			keys = append(keys, "unresolved|"+u)
		}
		if r.Panic != "" {
			keys = append(keys, "panic|"+r.Panic)
		}
		for n, f := range r.Floors {
			if r.Counts[n] < f {
				keys = append(keys, "floor|"+n)
			}
		}
		hit := false
		for _, k := range keys {
			if strings.Contains(k, m.Expect) {
				hit = true
			}
		}
		b, _ := json.Marshal(map[string]any{"failing": keys, "expect": m.Expect, "detected": hit})
		fmt.Println(string(b))
		return 0
	}
	fmt.Printf("{\"not_applicable\": \"unknown mutant\"}\n")
	return 0
}

func runSelfTest(dir, prop string) selfTestResult {
	var res selfTestResult
	var ms []Mutant
	for _, m := range mutants {
		if m.Property == prop {
			ms = append(ms, m)
		}
	}
	sort.Slice(ms, func(i, j int) bool { return ms[i].Name < ms[j].Name })
	exe, _ := os.Executable()
	type one struct {
		m   Mutant
		out map[string]any
	}
	results := make([]one, len(ms))
	sem := make(chan struct{}, 4)
	var wg sync.WaitGroup
	for i, m := range ms {
		wg.Add(1)
		go func(i int, m Mutant) {
			defer wg.Done()
			sem <- struct{}{}
			defer func() { <-sem }()
			cmd := exec.Command(exe, "-mutant", m.Name, "-property", prop, "-dir", dir)
			cmd.Env = os.Environ()
			b, err := cmd.Output()
			out := map[string]any{}
			if err != nil {
				out["load_error"] = err.Error()
			} else {
				lines := strings.Split(strings.TrimSpace(string(b)), "\n")
				json.Unmarshal([]byte(lines[len(lines)-1]), &out)
			}
			results[i] = one{m, out}
		}(i, m)
	}
	wg.Wait()
	for _, r := range results {
		rep := map[string]any{"mutant": r.m.Name, "file": r.m.File, "expect": r.m.Expect}
		if na, ok := r.out["not_applicable"]; ok {
			res.NotApplicable++
			rep["status"] = "not applicable on this tree: " + fmt.Sprint(na)
		} else if le, ok := r.out["load_error"]; ok {
			res.NotApplicable++
			rep["status"] = "mutant does not type-check on this tree: " + fmt.Sprint(le)
		} else {
			res.Run++
			found := false
			if arr, ok := r.out["failing"].([]any); ok {
				for _, k := range arr {
					if strings.Contains(fmt.Sprint(k), r.m.Expect) {
						found = true
						rep["fired"] = k
					}
				}
			}
			if found {
				res.Detected++
				rep["status"] = "detected"
			} else {
				res.Missed++
				res.MissedNames = append(res.MissedNames, r.m.Name)
				rep["status"] = "MISSED"
				rep["failing"] = r.out["failing"]
			}
		}
		res.Report = append(res.Report, rep)
	}
	return res
}
