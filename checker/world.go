package main

// world.go — loading /repo into a type-checked, SSA-built program and the
// resolution helpers every rule uses. Nothing in /repo is executed.

import (
	_ "embed"
	"fmt"
	"go/ast"
	"go/token"
	"go/types"
	"os"
	"path/filepath"
	"sort"
	"strings"

	"golang.org/x/tools/go/callgraph"
	"golang.org/x/tools/go/callgraph/cha"
	"golang.org/x/tools/go/callgraph/vta"
	"golang.org/x/tools/go/packages"
	"golang.org/x/tools/go/ssa"
	"golang.org/x/tools/go/ssa/ssautil"
)

const modPath = "github.com/palomachain/paloma/v2"

type World struct {
	Dir      string
	Fset     *token.FileSet
	Pkgs     []*packages.Package // module packages only
	ByPath   map[string]*packages.Package
	Prog     *ssa.Program
	cg       *callgraph.Graph
	allFuncs map[*ssa.Function]bool
	// production module functions (incl. anonymous ones), stable order
	ProdFuncs []*ssa.Function
	prodSet   map[*ssa.Function]bool
	anonOf    map[*ssa.Function][]*ssa.Function
	domCache  map[*ssa.Function]bool
	NumPkgs   int
}

// nonProdPkg: packages that are loaded and type-checked but never analysed as
// production code nor chosen as interface implementors.
func nonProdPkg(path string) bool {
	for _, s := range []string{"/mocks", "/testutil", "/tests/", "/client/cli", "/cmd/", "/simulation", "/testdata", "/internal/"} {
		if strings.Contains(path+"/", s+"/") || strings.Contains(path, s) {
			return true
		}
	}
	return strings.HasSuffix(path, "/testutil") || strings.HasSuffix(path, "/tests")
}

func nonProdFile(name string) bool {
	b := filepath.Base(name)
	return strings.HasSuffix(b, "_test.go") || strings.HasPrefix(b, "test_") ||
		strings.HasSuffix(b, ".pb.gw.go") || strings.Contains(b, "simulation") ||
		strings.HasPrefix(b, "mock_") || strings.Contains(name, "/mocks/")
}

func LoadWorld(dir string, overlay map[string][]byte) (*World, error) {
	os.Unsetenv("GOWORK")
	cfg := &packages.Config{
		Mode:    packages.LoadAllSyntax,
		Dir:     dir,
		Tests:   false,
		Overlay: overlay,
		Env: append(os.Environ(), "GOFLAGS=-mod=mod", "GOPROXY=off", "GOSUMDB=off",
			"GOTOOLCHAIN=local", "GOWORK=off"),
	}
	pkgs, err := packages.Load(cfg, "./...")
	if err != nil {
		return nil, err
	}
	if len(pkgs) == 0 {
		return nil, fmt.Errorf("no packages loaded from %s", dir)
	}
	var errs []string
	packages.Visit(pkgs, nil, func(p *packages.Package) {
		for _, e := range p.Errors {
			errs = append(errs, e.Error())
		}
	})
	if len(errs) > 0 {
		sort.Strings(errs)
		if len(errs) > 10 {
			errs = errs[:10]
		}
		return nil, fmt.Errorf("type/load errors (the tree must compile): %s", strings.Join(errs, "; "))
	}
	w := &World{Dir: dir, ByPath: map[string]*packages.Package{}, prodSet: map[*ssa.Function]bool{},
		anonOf: map[*ssa.Function][]*ssa.Function{}}
	for _, p := range pkgs {
		if strings.HasPrefix(p.PkgPath, modPath) {
			w.Pkgs = append(w.Pkgs, p)
			w.ByPath[p.PkgPath] = p
		}
	}
	w.NumPkgs = len(w.Pkgs)
	if w.NumPkgs < 60 {
		return nil, fmt.Errorf("only %d module packages loaded (expected >= 60)", w.NumPkgs)
	}
	w.Fset = pkgs[0].Fset
	prog, _ := ssautil.AllPackages(pkgs, ssa.InstantiateGenerics)
	prog.Build()
	w.Prog = prog
	w.allFuncs = ssautil.AllFunctions(prog)
	for f := range w.allFuncs {
		if w.isProd(f) {
			w.ProdFuncs = append(w.ProdFuncs, f)
			w.prodSet[f] = true
		}
	}
	sort.Slice(w.ProdFuncs, func(i, j int) bool { return w.FuncKey(w.ProdFuncs[i]) < w.FuncKey(w.ProdFuncs[j]) })
	buildCtxIndex(w)
	w.markNewFuncs()
	return w, nil
}

// ---- inventory of today's functions --------------------------------------------------
//
// inventory.txt lists every production function of the tree the rules were written against. A function
// that is not in it was introduced by a later edit; such a function is treated as transparent: its call
// sites, mutations and guards are attributed to the functions that call it (unitOf), the way the code
// would read if the helper had not been extracted. On the reference tree nothing is new, so this changes
// nothing there.

//go:embed inventory.txt
var inventoryTxt string

var newFuncs map[*ssa.Function]bool

func (w *World) markNewFuncs() {
	inv := map[string]bool{}
	for _, l := range strings.Split(inventoryTxt, "\n") {
		if l = strings.TrimSpace(l); l != "" {
			inv[l] = true
		}
	}
	newFuncs = map[*ssa.Function]bool{}
	if len(inv) == 0 {
		return
	}
	for _, f := range w.ProdFuncs {
		if f.Parent() == nil && f.Synthetic == "" && !inv[w.FuncKey(f)] && !ctxEscapes[f] {
			newFuncs[f] = true
		}
	}
}

// isNewHelper: a function introduced after the reference tree whose call sites are all visible.
func isNewHelper(f *ssa.Function) bool { return f != nil && newFuncs[f] }

// unitOf: f together with the new helpers it calls (transitively, bounded).
func unitOf(f *ssa.Function) []*ssa.Function {
	out := []*ssa.Function{f}
	seen := map[*ssa.Function]bool{f: true}
	for i := 0; i < len(out) && len(out) < 24; i++ {
		for _, g := range WithAnon(out[i]) {
			for _, b := range g.Blocks {
				for _, in := range b.Instrs {
					if ci, ok := in.(ssa.CallInstruction); ok {
						if h := ci.Common().StaticCallee(); isNewHelper(h) && !seen[h] {
							seen[h] = true
							out = append(out, h)
						}
					}
				}
			}
		}
	}
	return out
}

// unitFuncs: f, its function literals, and the same for the transparent helpers it calls.
func unitFuncs(f *ssa.Function) []*ssa.Function {
	var out []*ssa.Function
	u := unitOf(f)
	if len(u) > 1 {
		CallsIn(f) // registers the via-mapping
	}
	for _, g := range u {
		out = append(out, WithAnon(g)...)
	}
	return out
}

// unitBlocks: the blocks of unitFuncs(f) except function literals (same shape as f.Blocks for a function
// that calls no transparent helper).
func unitBlocks(f *ssa.Function) []*ssa.BasicBlock {
	var out []*ssa.BasicBlock
	u := unitOf(f)
	if len(u) > 1 {
		CallsIn(f)
	}
	for _, g := range u {
		out = append(out, g.Blocks...)
	}
	return out
}

// rootCallers: the reference-tree functions on whose behalf f runs: f itself, or, for a new helper, the
// callers of its call sites (transitively).
func rootCallers(f *ssa.Function) []*ssa.Function {
	f = lexTop(f)
	if !isNewHelper(f) {
		return []*ssa.Function{f}
	}
	var out []*ssa.Function
	seen := map[*ssa.Function]bool{}
	var up func(g *ssa.Function, d int)
	up = func(g *ssa.Function, d int) {
		g = lexTop(g)
		if seen[g] {
			return
		}
		seen[g] = true
		if !isNewHelper(g) || d > 4 {
			out = append(out, g)
			return
		}
		for _, c := range ctxSites[g] {
			up(c.Parent(), d+1)
		}
	}
	up(f, 0)
	sort.Slice(out, func(i, j int) bool { return out[i].String() < out[j].String() })
	return out
}

// funcPkgPath returns the package path a function belongs to (for generic
// instantiations and anonymous functions: the origin's / parent's package).
func funcPkgPath(f *ssa.Function) string {
	for f.Parent() != nil {
		f = f.Parent()
	}
	if o := f.Origin(); o != nil {
		f = o
	}
	if f.Pkg != nil {
		return f.Pkg.Pkg.Path()
	}
	if obj := f.Object(); obj != nil && obj.Pkg() != nil {
		return obj.Pkg().Path()
	}
	return ""
}

func (w *World) inModule(f *ssa.Function) bool {
	return strings.HasPrefix(funcPkgPath(f), modPath)
}

func (w *World) isProd(f *ssa.Function) bool {
	p := funcPkgPath(f)
	if !strings.HasPrefix(p, modPath) || nonProdPkg(p) {
		return false
	}
	if f.Synthetic != "" && f.Parent() == nil && f.Origin() == nil {
		// wrappers / thunks / init: keep package init out; bound-method wrappers are handled through their targets
		return false
	}
	pos := f.Pos()
	if !pos.IsValid() {
		if f.Parent() != nil {
			return w.isProd(f.Parent())
		}
		return false
	}
	return !nonProdFile(w.Fset.Position(pos).Filename)
}

func (w *World) IsProd(f *ssa.Function) bool { return w.prodSet[f] }

// FuncKey: stable, line-free identifier of a function: pkg-relative path, receiver, name.
func (w *World) FuncKey(f *ssa.Function) string {
	if f == nil {
		return "<nil>"
	}
	if f.Parent() != nil {
		return w.FuncKey(f.Parent()) + "$" + strings.TrimPrefix(f.Name(), f.Parent().Name()+"$")
	}
	s := f.String()
	s = strings.ReplaceAll(s, modPath+"/", "")
	return s
}

func (w *World) Pos(p token.Pos) string {
	if !p.IsValid() {
		return "-"
	}
	pp := w.Fset.Position(p)
	rel, err := filepath.Rel(w.Dir, pp.Filename)
	if err != nil {
		rel = pp.Filename
	}
	return fmt.Sprintf("%s:%d", rel, pp.Line)
}

// Func resolves a package-level function or method of the module. recv=="" for functions.
// pkg is module-relative ("x/skyway/keeper").
func (w *World) Func(pkg, recv, name string) *ssa.Function {
	p := w.ByPath[modPath+"/"+pkg]
	if p == nil {
		return nil
	}
	sp := w.Prog.Package(p.Types)
	if sp == nil {
		return nil
	}
	if recv == "" {
		return sp.Func(name)
	}
	obj := p.Types.Scope().Lookup(recv)
	if obj == nil {
		return nil
	}
	tn, ok := obj.(*types.TypeName)
	if !ok {
		return nil
	}
	for _, t := range []types.Type{tn.Type(), types.NewPointer(tn.Type())} {
		ms := w.Prog.MethodSets.MethodSet(t)
		for i := 0; i < ms.Len(); i++ {
			sel := ms.At(i)
			if sel.Obj().Name() == name {
				if fn := w.Prog.MethodValue(sel); fn != nil {
					// skip promoted-through-embedding wrappers: want the declared one
					if fn.Synthetic == "" || strings.HasPrefix(fn.Synthetic, "instance") {
						return fn
					}
					// wrapper: find its target
					if tgt := w.Prog.FuncValue(sel.Obj().(*types.Func)); tgt != nil {
						return tgt
					}
				}
			}
		}
	}
	return nil
}

// genericMethod finds an instantiation of a method of a generic type (e.g. PriorityNonceMempool[int64].Insert).
func (w *World) genericMethod(pkg, recv, name string) *ssa.Function {
	var best *ssa.Function
	for f := range w.allFuncs {
		fname := f.Name()
		if o := f.Origin(); o != nil {
			fname = o.Name()
		}
		if fname != name || len(f.Blocks) == 0 || f.Signature.Recv() == nil {
			continue
		}
		if funcPkgPath(f) != modPath+"/"+pkg {
			continue
		}
		n := namedOf(f.Signature.Recv().Type())
		if n == nil || n.Obj().Name() != recv {
			continue
		}
		if f.Synthetic != "" && !strings.HasPrefix(f.Synthetic, "instance") {
			continue
		}
		if len(f.TypeArgs()) > 0 {
			if best == nil || len(best.TypeArgs()) == 0 || f.String() < best.String() {
				best = f
			}
		} else if best == nil {
			best = f
		}
	}
	return best
}

func (w *World) MustFunc(o *Out, pkg, recv, name string) *ssa.Function {
	f := w.Func(pkg, recv, name)
	if (f == nil || len(f.Blocks) == 0) && recv != "" {
		f = w.genericMethod(pkg, recv, name)
	}
	if f == nil || len(f.Blocks) == 0 {
		o.Unresolved(fmt.Sprintf("%s.%s.%s", pkg, recv, name))
		return nil
	}
	return f
}

// TypeOf returns a named type of the module.
func (w *World) Type(pkg, name string) types.Type {
	p := w.ByPath[modPath+"/"+pkg]
	if p == nil {
		return nil
	}
	obj := p.Types.Scope().Lookup(name)
	if obj == nil {
		return nil
	}
	return obj.Type()
}

// WithAnon returns f followed by all anonymous functions nested in it (transitively).
func WithAnon(f *ssa.Function) []*ssa.Function {
	out := []*ssa.Function{f}
	for i := 0; i < len(out); i++ {
		out = append(out, out[i].AnonFuncs...)
	}
	return out
}

// ---- call graph --------------------------------------------------------------

func (w *World) CG() *callgraph.Graph {
	if w.cg == nil {
		w.cg = vta.CallGraph(w.allFuncs, cha.CallGraph(w.Prog))
	}
	return w.cg
}

// ---- callee description ------------------------------------------------------

// Callee describes the target of a call in resolved terms.
type Callee struct {
	Pkg    string // package path (full)
	Recv   string // receiver named type ("" for functions), without pointer
	Name   string
	Iface  bool          // interface method invocation
	Static *ssa.Function // non-nil for static calls
	Func   *types.Func
}

func (c Callee) String() string {
	p := strings.TrimPrefix(c.Pkg, modPath+"/")
	if c.Recv != "" {
		return p + "." + c.Recv + "." + c.Name
	}
	return p + "." + c.Name
}

func namedOf(t types.Type) *types.Named {
	for {
		switch tt := t.(type) {
		case *types.Pointer:
			t = tt.Elem()
		case *types.Named:
			return tt
		case *types.Alias:
			t = types.Unalias(tt)
		default:
			return nil
		}
	}
}

func calleeOfFunc(fn *types.Func) Callee {
	c := Callee{Name: fn.Name(), Func: fn}
	if fn.Pkg() != nil {
		c.Pkg = fn.Pkg().Path()
	}
	sig := fn.Type().(*types.Signature)
	if r := sig.Recv(); r != nil {
		if n := namedOf(r.Type()); n != nil {
			c.Recv = n.Obj().Name()
			if n.Obj().Pkg() != nil {
				c.Pkg = n.Obj().Pkg().Path()
			}
			if types.IsInterface(n) {
				c.Iface = true
			}
		} else if types.IsInterface(r.Type()) {
			c.Iface = true
			c.Recv = "interface"
		}
	}
	return c
}

// CalleeOf resolves a call's target. ok=false for calls through plain function values.
func CalleeOf(cc *ssa.CallCommon) (Callee, bool) {
	if cc.IsInvoke() {
		c := calleeOfFunc(cc.Method)
		c.Iface = true
		return c, true
	}
	v := cc.Value
	// unwrap closures / method values
	switch x := v.(type) {
	case *ssa.MakeClosure:
		v = x.Fn
	}
	if fn, ok := v.(*ssa.Function); ok {
		if fn.Origin() != nil {
			o := fn.Origin()
			if obj, ok := o.Object().(*types.Func); ok {
				c := calleeOfFunc(obj)
				c.Static = fn
				return c, true
			}
		}
		if obj, ok := fn.Object().(*types.Func); ok {
			c := calleeOfFunc(obj)
			c.Static = fn
			return c, true
		}
		// anonymous function / synthetic: bound method wrapper "$bound"
		if strings.HasSuffix(fn.Name(), "$bound") && fn.Synthetic != "" {
			if obj, ok := fn.Object().(*types.Func); ok {
				c := calleeOfFunc(obj)
				return c, true
			}
		}
		return Callee{Static: fn, Name: fn.Name(), Pkg: funcPkgPath(fn)}, true
	}
	if b, ok := v.(*ssa.Builtin); ok {
		return Callee{Name: b.Name(), Pkg: "builtin"}, true
	}
	return Callee{}, false
}

// Is matches pkg-suffix / receiver / name; empty fields are wildcards. pkg may be
// module-relative ("x/skyway/keeper") or a full import path.
func (c Callee) Is(pkg, recv, name string) bool {
	if name != "" && c.Name != name {
		return false
	}
	if recv != "" && c.Recv != recv {
		return false
	}
	if pkg != "" && c.Pkg != pkg && c.Pkg != modPath+"/"+pkg {
		return false
	}
	return true
}

// ---- call sites --------------------------------------------------------------

type Site struct {
	Fn     *ssa.Function
	Instr  ssa.CallInstruction
	Callee Callee
}

func (s Site) Common() *ssa.CallCommon { return s.Instr.Common() }
func (s Site) Block() *ssa.BasicBlock  { return s.Instr.Block() }
func (s Site) Value() ssa.Value {
	if v, ok := s.Instr.(*ssa.Call); ok {
		return v
	}
	return nil
}

// Args returns the arguments including the receiver (index 0) for method calls,
// uniformly for invoke and static-method calls.
func (s Site) Args() []ssa.Value {
	cc := s.Common()
	if cc.IsInvoke() {
		return append([]ssa.Value{cc.Value}, cc.Args...)
	}
	return cc.Args
}

// CallsIn lists every call instruction (call, defer, go) of f (not nested anon funcs)
// with a resolvable callee.
func CallsIn(f *ssa.Function) []Site {
	return callsInD(f, 0)
}

func callsInD(f *ssa.Function, depth int) []Site {
	var out []Site
	for _, b := range f.Blocks {
		for _, in := range b.Instrs {
			ci, ok := in.(ssa.CallInstruction)
			if !ok {
				continue
			}
			c, ok := CalleeOf(ci.Common())
			if !ok {
				c = Callee{Name: "<dynamic>"}
			}
			out = append(out, Site{Fn: f, Instr: ci, Callee: c})
			// a helper introduced after the reference tree is read as if it were still inline: its own
			// call sites are listed with the caller's, and remembered as reached "via" this call
			if h := ci.Common().StaticCallee(); isNewHelper(h) && depth < 3 && h != f {
				for _, g := range WithAnon(h) {
					registerVia(f, g, ci)
				}
				out = append(out, callsInD(h, depth+1)...)
			}
		}
	}
	return out
}

// ---- instructions of transparent helpers ------------------------------------------------

type viaKey struct {
	f  *ssa.Function
	in ssa.Instruction
}

var viaOf = map[viaKey]ssa.Instruction{}

// registerVia records that every instruction of g (a transparent helper, or a helper of it) is reached
// from f through the call instruction `via` of f.
func registerVia(f, g *ssa.Function, via ssa.Instruction) {
	if len(g.Blocks) == 0 {
		return
	}
	if _, done := viaOf[viaKey{f, g.Blocks[0].Instrs[0]}]; done {
		return
	}
	for _, b := range g.Blocks {
		for _, in := range b.Instrs {
			viaOf[viaKey{f, in}] = via
			if ci, ok := in.(ssa.CallInstruction); ok {
				if h := ci.Common().StaticCallee(); isNewHelper(h) && h != g && h != f {
					for _, gg := range WithAnon(h) {
						registerVia(f, gg, via)
					}
				}
			}
		}
	}
}

// helperAlwaysReaches: every (success) return of the transparent helper called at `via` is preceded by
// `inner`, so passing the call implies having executed inner.
func helperAlwaysReaches(via ssa.Instruction, inner ssa.Instruction) bool {
	ci, ok := via.(ssa.CallInstruction)
	if !ok {
		return false
	}
	h := ci.Common().StaticCallee()
	if h == nil {
		return false
	}
	rets := SuccessReturns(h)
	if len(rets) == 0 {
		return false
	}
	return reachAvoidingRaw(h, nil, rets, normAvoid(h, map[ssa.Instruction]bool{inner: true})) == nil
}

// normTo / normAvoid map instructions that live in transparent helpers onto the call instruction of f
// through which they are reached: as targets always (reaching the call may reach them), as obstacles only
// when the helper cannot return successfully without executing them.
func normTo(f *ssa.Function, set map[ssa.Instruction]bool) map[ssa.Instruction]bool {
	if len(viaOf) == 0 {
		return set
	}
	var out map[ssa.Instruction]bool
	for in := range set {
		if in == nil || in.Parent() == f {
			continue
		}
		if via, ok := viaOf[viaKey{f, in}]; ok {
			if out == nil {
				out = map[ssa.Instruction]bool{}
				for k, v := range set {
					out[k] = v
				}
			}
			out[via] = true
		}
	}
	if out == nil {
		return set
	}
	return out
}

func normAvoid(f *ssa.Function, set map[ssa.Instruction]bool) map[ssa.Instruction]bool {
	if len(viaOf) == 0 {
		return set
	}
	var out map[ssa.Instruction]bool
	for in := range set {
		if in == nil || in.Parent() == f {
			continue
		}
		if via, ok := viaOf[viaKey{f, in}]; ok && helperAlwaysReaches(via, in) {
			if out == nil {
				out = map[ssa.Instruction]bool{}
				for k, v := range set {
					out[k] = v
				}
			}
			out[via] = true
		}
	}
	if out == nil {
		return set
	}
	return out
}

func normFrom(f *ssa.Function, in ssa.Instruction) ssa.Instruction {
	if in == nil || in.Parent() == f {
		return in
	}
	if via, ok := viaOf[viaKey{f, in}]; ok {
		return via
	}
	return in
}

// CallsDeep lists calls of f and its nested anonymous functions.
func CallsDeep(f *ssa.Function) []Site {
	var out []Site
	for _, g := range WithAnon(f) {
		out = append(out, CallsIn(g)...)
	}
	return out
}

func FindCalls(f *ssa.Function, deep bool, pred func(Callee) bool) []Site {
	var src []Site
	if deep {
		src = CallsDeep(f)
	} else {
		src = CallsIn(f)
	}
	var out []Site
	for _, s := range src {
		if pred(s.Callee) {
			out = append(out, s)
		}
	}
	return out
}

func isCallee(pkg, recv, name string) func(Callee) bool {
	return func(c Callee) bool { return c.Is(pkg, recv, name) }
}

// CallersOf: all production call sites (in the whole module) whose callee matches pred.
func (w *World) CallersOf(pred func(Callee) bool) []Site {
	var out []Site
	for _, f := range w.ProdFuncs {
		for _, s := range CallsIn(f) {
			if pred(s.Callee) {
				out = append(out, s)
			}
		}
	}
	return out
}

// TopFunc returns the outermost enclosing named function.
func TopFunc(f *ssa.Function) *ssa.Function {
	f = lexTop(f)
	// a helper introduced after the reference tree with a single root caller acts on that caller's behalf
	if isNewHelper(f) {
		if roots := rootCallers(f); len(roots) == 1 {
			return roots[0]
		}
	}
	return f
}

// lexTop: the top-level function lexically enclosing f.
func lexTop(f *ssa.Function) *ssa.Function {
	for f.Parent() != nil {
		f = f.Parent()
	}
	return f
}

// ---- AST access --------------------------------------------------------------

// FileOf returns the syntax file containing pos.
func (w *World) FileOf(pos token.Pos) (*packages.Package, *ast.File) {
	for _, p := range w.Pkgs {
		for _, f := range p.Syntax {
			if f.FileStart <= pos && pos <= f.FileEnd {
				return p, f
			}
		}
	}
	return nil, nil
}

// FuncDecl returns the package and declaration of a source function.
func (w *World) FuncDecl(f *ssa.Function) (*packages.Package, *ast.FuncDecl) {
	syn := f.Syntax()
	if syn == nil {
		return nil, nil
	}
	fd, ok := syn.(*ast.FuncDecl)
	if !ok {
		return nil, nil
	}
	p, _ := w.FileOf(fd.Pos())
	return p, fd
}

// TypesPkg: the type-checked package with the given import path (nil if not loaded).
func (w *World) TypesPkg(path string) *types.Package {
	for _, p := range w.Prog.AllPackages() {
		if p.Pkg != nil && p.Pkg.Path() == path {
			return p.Pkg
		}
	}
	return nil
}
