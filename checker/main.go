package main

import (
	"crypto/sha256"
	"encoding/hex"
	"encoding/json"
	"flag"
	"fmt"
	"io"
	"io/fs"
	"os"
	"path/filepath"
	"runtime/debug"
	"sort"
	"strconv"
	"strings"
	"syscall"
	"time"
)

type ruleFn func(w *World, o *Out)

var registry = map[string]ruleFn{}

func register(id string, f ruleFn) { registry[id] = f }

func verifDir() string {
	if d := os.Getenv("VERIF_DIR"); d != "" {
		return d
	}
	exe, err := os.Executable()
	if err == nil {
		d := filepath.Dir(filepath.Dir(exe))
		if _, err := os.Stat(filepath.Join(d, "properties.jsonl")); err == nil {
			return d
		}
	}
	return "/verif"
}

// treeHash covers every Go source, go.mod and go.sum under dir (minus .git) and the
// checker binary itself.
func treeHash(dir string) (string, int, error) {
	h := sha256.New()
	var files []string
	err := filepath.WalkDir(dir, func(p string, d fs.DirEntry, err error) error {
		if err != nil {
			return err
		}
		if d.IsDir() {
			if d.Name() == ".git" || d.Name() == "node_modules" {
				return filepath.SkipDir
			}
			return nil
		}
		if strings.HasSuffix(p, ".go") || d.Name() == "go.mod" || d.Name() == "go.sum" {
			files = append(files, p)
		}
		return nil
	})
	if err != nil {
		return "", 0, err
	}
	sort.Strings(files)
	for _, f := range files {
		b, err := os.ReadFile(f)
		if err != nil {
			return "", 0, err
		}
		fmt.Fprintf(h, "%s %d\n", strings.TrimPrefix(f, dir), len(b))
		h.Write(b)
	}
	if exe, err := os.Executable(); err == nil {
		if f, err := os.Open(exe); err == nil {
			io.Copy(h, f)
			f.Close()
		}
	}
	return hex.EncodeToString(h.Sum(nil))[:32], len(files), nil
}

type cacheFile struct {
	TreeHash  string             `json:"tree_hash"`
	Packages  int                `json:"packages"`
	ProdFuncs int                `json:"prod_funcs"`
	Results   map[string]*Result `json:"results"`
	ComputeS  float64            `json:"compute_s"`
}

type borrow struct {
	From, Prefix, As, Text string
	Floor                  int
}

var borrows = map[string][]borrow{
	"C01": {{"C03", "C03.R8|SetERC20ToTokenDenom", "C01.R9", "token identity of pending transfers: pool entries and batches name their token by ERC20 contract only, so the contract -> denom binding is written only when the contract has no binding yet (otherwise refunds, burns and mints of pending transfers move another denom); decided by the rule C03.R8", 1},
		{"C02", "C02.R2|Attest|append vote|voter de-duplicated", "C01.R10", "supply changes only by attested deposits: a deposit is minted when the votes reach the quorum, so a validator's vote on it is counted once (decided by the rule C02.R2)", 1}},
	"C07": {{"C04", "C04.R2|VerifyEvidence|", "C07.R6", "success effects follow the evidence a quorum agrees on: the power behind the winning proof is counted per evidence group (decided by the rule C04.R2)", 2}},
	"C02": {
		{"C11", "C11.R1|", "C02.R5", "votes are pooled by claim hash: the validators that reach the quorum voted for the identical claim only if every effect-bearing field of the claim is hashed (decided by the rule C11.R1)", 20},
		{"C03", "C03.R3|skyway.SendToPalomaClaim", "C02.R6", "each validator votes for itself: a claim's orchestrator is the message creator (decided by the rule C03.R3)", 1},
		{"C03", "C03.R3|skyway.BatchSendToRemoteClaim", "C02.R6", "each validator votes for itself: a claim's orchestrator is the message creator (decided by the rule C03.R3)", 1},
		{"C03", "C03.R3|skyway.LightNodeSaleClaim", "C02.R6", "each validator votes for itself: a claim's orchestrator is the message creator (decided by the rule C03.R3)", 1},
	},
	"C03": {
		{"C17", "C17.R1|saveJob|the job id", "C03.R9", "a create request cannot touch another account's job: the id asked about is the id written (decided by the rule C17.R1)", 1},
		{"C17", "C17.R1|AddNewJob|the job id", "C03.R9", "a create request cannot touch another account's job: the id asked about is the id written (decided by the rule C17.R1)", 1},
		{"C18", "C18.R3|sale|the fee allowance is granted", "C03.R11", "a sale the client never signed must not make somebody an authorised signer for the client: the fee grant goes from the fee granter to the client (decided by the rule C18.R3)", 1},
		{"C16", "C16.R1|", "C03.R12", "a user's token denominations change only through their admin: each privileged token operation compares the creator with the admin of the very denomination it acts on (decided by the rule C16.R1)", 4},
		{"C16", "C16.R5|validateCreateDenom|", "C03.R10", "a create request cannot re-create (and thereby take back) a denomination that exists: existence is asked for the very name being created (decided by the rule C16.R5)", 2},
	},
	"C04": {{"C07", "C07.R5|attestMessageWrapper|the message is removed on the cached context", "C04.R7", "a message leaves the queue together with its effects: it is removed on the cached context that carries them (decided by the rule C07.R5)", 1}},
	"C09": {{"C14", "C14.R5|CheckAndProcessEstimatedMessages|a failing message", "C09.R5", "a value that cannot be processed is skipped with the rest of the block unaffected: a failing message does not end the estimate pass of its queue (decided by the rule C14.R5)", 1}},
	"C13": {{"C04", "C04.R3|AddEvidence|", "C13.R4", "the 10 % floor counts each attesting validator once: a validator's evidence entry is replaced, never duplicated (VerifyEvidence adds a validator's shares once per entry); decided by the rule C04.R3", 1}},
	"C16": {{"C03", "C03.R2|AnteHandle|", "C16.R9", "the admin check compares the admin with Metadata.Creator, which is only as good as the ante decorator that ties the creator of each message to that message's signers or grantees (decided by the rule C03.R2)", 2}},
	"C18": {{"C03", "C03.R2|AnteHandle|", "C18.R6", "activated only by the licensed address itself: the registration acts for Metadata.Creator, which is only as good as the ante decorator that ties the creator of every message of a transaction to that message's signers (decided by the rule C03.R2)", 2}},
	"C15": {
		{"C01", "C01.R3|(x/skyway/keeper.Keeper).OutgoingTxBatchExecuted", "C15.R7", "the tax recorded with the transfers of a batch is burned with them on execution (decided by the rule C01.R3)", 1},
		{"C01", "C01.R3|(x/skyway/keeper.Keeper).RemoveFromOutgoingPoolAndRefund", "C15.R6", "the tax recorded with the transfer is what a cancellation returns: the refund is the stored amount plus the stored tax, not a recomputation under the current settings; decided by the rule C01.R3", 1},
	},
}

var lenderMemo = map[string]*Result{}

func lenderResult(w *World, id string) *Result {
	if r, ok := lenderMemo[id]; ok {
		return r
	}
	lo := newOut(w, id)
	func() {
		defer func() {
			if r := recover(); r != nil {
				lo.R.Panic = fmt.Sprintf("%v", r)
			}
		}()
		registry[id](w, lo)
	}()
	lenderMemo[id] = lo.R
	return lo.R
}

func runProperty(w *World, id string) (res *Result) {
	o := newOut(w, id)
	defer func() {
		if r := recover(); r != nil {
			o.R.Panic = fmt.Sprintf("%v\n%s", r, debug.Stack())
			res = o.R
		}
	}()
	f := registry[id]
	if f == nil {
		o.R.Panic = "no rules registered for " + id
		return o.R
	}
	f(w, o)
	// obligations that decide a clause shared with another property are evaluated by that property's rule and
	// listed here under this property's own rule id
	for _, b := range borrows[id] {
		lend := lenderResult(w, b.From)
		n := 0
		for _, ob := range lend.Obligations {
			if strings.HasPrefix(ob.Key, b.Prefix) && !ob.Note {
				ob.Key = b.As + "|" + strings.TrimPrefix(ob.Key, ob.Rule+"|")
				ob.Rule = b.As
				o.add(ob)
				n++
			}
		}
		o.Rule(b.As, b.Text)
		o.Count(b.As+" obligations shared with "+b.From+" ("+b.Prefix+")", n, b.Floor)
		if lend.Panic != "" {
			o.R.Panic = "shared rule of " + b.From + ": " + lend.Panic
		}
	}
	sort.SliceStable(o.R.Obligations, func(i, j int) bool { return o.R.Obligations[i].Key < o.R.Obligations[j].Key })
	sort.Strings(o.R.Analysed)
	return o.R
}

func computeAll(dir string, only string, overlay map[string][]byte) (*cacheFile, error) {
	t0 := time.Now()
	w, err := LoadWorld(dir, overlay)
	if err != nil {
		return nil, err
	}
	cf := &cacheFile{Packages: w.NumPkgs, ProdFuncs: len(w.ProdFuncs), Results: map[string]*Result{}}
	var ids []string
	for id := range registry {
		if only == "" || only == id {
			ids = append(ids, id)
		}
	}
	sort.Strings(ids)
	for _, id := range ids {
		cf.Results[id] = runProperty(w, id)
	}
	cf.ComputeS = time.Since(t0).Seconds()
	return cf, nil
}

func main() {
	prop := flag.String("property", "", "property id (C01..C19) or 'all'")
	tier := flag.String("tier", "quick", "quick|thorough")
	dir := flag.String("dir", "/repo", "repository to analyse")
	explain := flag.String("explain", "", "print a replay file (violated obligations) in readable form")
	nocache := flag.Bool("nocache", false, "ignore the result cache")
	dump := flag.Bool("dump", false, "print every obligation")
	mutant := flag.String("mutant", "", "internal: apply the named overlay mutant and print the obligations that fail")
	selftest := flag.Bool("selftest", false, "run the overlay-mutant self test for the property")
	probeSpec := flag.String("probe", "", "debug: pkg:recv:name[:calleeSubstr] prints calls, facts, returns, mutations")
	flag.Parse()
	if *probeSpec == "entries" {
		w, err := LoadWorld(*dir, nil)
		if err != nil {
			fmt.Println(err)
			return
		}
		cnt := map[string]int{}
		for _, e := range w.Entries() {
			cnt[e.Class]++
			fmt.Printf("%-9s %-50s %s\n", e.Class, e.Name, w.FuncKey(e.Fn))
		}
		fmt.Println(cnt)
		t := time.Now()
		cr := w.ClassReach()
		for _, c := range []string{"msg", "abci", "genesis", "ante", "gov", "wasm", "hook", "query", "invariant"} {
			fmt.Println(c, len(cr.Of(c)), time.Since(t))
		}
		return
	}
	if strings.HasPrefix(*probeSpec, "find:") {
		w, _ := LoadWorld(*dir, nil)
		for f := range w.allFuncs {
			if strings.Contains(f.String(), strings.TrimPrefix(*probeSpec, "find:")) {
				fmt.Println(f.String(), "|pkg:", funcPkgPath(f), "|blocks:", len(f.Blocks), "|syn:", f.Synthetic, "|targs:", len(f.TypeArgs()), "|recv:", f.Signature.Recv() != nil)
			}
		}
		return
	}
	if *probeSpec == "mapranges" {
		w, _ := LoadWorld(*dir, nil)
		for _, r := range w.mapRanges() {
			fmt.Println(w.Pos(r.Pos()), w.FuncKey(r.Parent()))
		}
		return
	}
	if *probeSpec != "" {
		probe(*dir, *probeSpec)
		return
	}

	if *explain != "" {
		b, err := os.ReadFile(*explain)
		if err != nil {
			fmt.Println(err)
			os.Exit(2)
		}
		var obs []Obligation
		json.Unmarshal(b, &obs)
		for _, ob := range obs {
			fmt.Printf("%s\n  at %s\n  %s\n", ob.Key, ob.Pos, ob.Detail)
			for _, wl := range ob.Witness {
				fmt.Printf("    %s\n", wl)
			}
		}
		return
	}
	if *mutant != "" {
		os.Exit(runMutant(*dir, *prop, *mutant))
	}
	if *prop == "" {
		fmt.Println("usage: palomacheck -property Cxx [-tier quick|thorough]")
		os.Exit(2)
	}
	if t := os.Getenv("VERIF_TIER"); t != "" && (t == "quick" || t == "thorough") {
		// explicit flag wins; env only when flag left at default
		set := false
		flag.Visit(func(f *flag.Flag) {
			if f.Name == "tier" {
				set = true
			}
		})
		if !set {
			*tier = t
		}
	}
	seed, _ := strconv.Atoi(os.Getenv("VERIF_SEED"))
	vdir := verifDir()
	t0 := time.Now()

	th, nfiles, err := treeHash(*dir)
	if err != nil || nfiles < 300 {
		fmt.Printf("palomacheck: cannot hash tree %s (%d files): %v\n", *dir, nfiles, err)
		os.Exit(2)
	}
	useCache := *tier == "quick" && !*nocache
	cacheDir := filepath.Join(vdir, ".cache")
	os.MkdirAll(cacheDir, 0o755)
	var cf *cacheFile
	hit := false
	cpath := filepath.Join(cacheDir, th+".json")
	if useCache {
		// exclusive lock so that parallel quick commands share one computation
		lf, lerr := os.OpenFile(filepath.Join(cacheDir, "lock"), os.O_CREATE|os.O_RDWR, 0o644)
		if lerr == nil {
			syscall.Flock(int(lf.Fd()), syscall.LOCK_EX)
			defer lf.Close()
		}
		if b, err := os.ReadFile(cpath); err == nil {
			var c cacheFile
			if json.Unmarshal(b, &c) == nil && c.TreeHash == th && c.Results != nil {
				cf = &c
				hit = true
			}
		}
		if cf == nil {
			cf, err = computeAll(*dir, "", nil)
			if err == nil {
				cf.TreeHash = th
				b, _ := json.Marshal(cf)
				// keep the cache small: drop older entries
				if ents, e := os.ReadDir(cacheDir); e == nil {
					for _, en := range ents {
						if strings.HasSuffix(en.Name(), ".json") {
							os.Remove(filepath.Join(cacheDir, en.Name()))
						}
					}
				}
				os.WriteFile(cpath, b, 0o644)
			}
		}
		if lf != nil {
			syscall.Flock(int(lf.Fd()), syscall.LOCK_UN)
		}
	} else {
		only := *prop
		if only == "all" {
			only = ""
		}
		cf, err = computeAll(*dir, only, nil)
		if err == nil {
			cf.TreeHash = th
		}
	}
	if err != nil {
		fmt.Printf("palomacheck: analysis could not run: %v\n", err)
		os.Exit(2)
	}

	known, kerr := loadKnown(filepath.Join(vdir, "known_findings.json"))
	if kerr != nil {
		fmt.Printf("palomacheck: known_findings.json unreadable: %v\n", kerr)
		os.Exit(2)
	}

	var ids []string
	if *prop == "all" {
		for id := range cf.Results {
			ids = append(ids, id)
		}
		sort.Strings(ids)
	} else {
		ids = []string{*prop}
	}
	exit := 0
	for _, id := range ids {
		r := cf.Results[id]
		if r == nil {
			fmt.Printf("palomacheck: no result for %s\n", id)
			os.Exit(2)
		}
		extra := map[string]any{}
		if *tier == "thorough" || *selftest {
			st := runSelfTest(*dir, id)
			extra["selftest_mutants"] = st.Report
			extra["selftest_mutants_run"] = st.Run
			extra["selftest_mutants_detected"] = st.Detected
			extra["selftest_not_applicable"] = st.NotApplicable
			extra["selftest_mutants_missed"] = st.MissedNames
			// A missed mutant is a statement about the checker, not about /repo: it is reported and
			// recorded in the evidence, but it is not a property violation and does not change the verdict
			// (tools/mutants.py is the developer-side gate that fails on a miss).
			for _, n := range st.MissedNames {
				fmt.Printf("SELFTEST-MISSED property=%s mutant=%s\n", id, n)
			}
			fmt.Printf("%s selftest: %d overlay mutants run, %d detected, %d not applicable on this tree\n", id, st.Run, st.Detected, st.NotApplicable)
		}
		v := judge(r, known)
		m := evidenceMeta{Tier: *tier, Seed: seed, WallS: time.Since(t0).Seconds(), TreeHash: th, Packages: cf.Packages,
			ProdFuncs: cf.ProdFuncs, CacheHit: hit, CGMode: "vta(cha) whole program, module-restricted traversal", Extra: extra}
		if _, err := writeEvidence(vdir, r, v, m); err != nil {
			fmt.Printf("palomacheck: cannot write evidence: %v\n", err)
			os.Exit(2)
		}
		total, ok := 0, 0
		for _, ob := range r.Obligations {
			if ob.Note {
				continue
			}
			total++
			if ob.OK {
				ok++
			}
			if *dump {
				st := "ok  "
				if !ob.OK {
					st = "FAIL"
				}
				if ob.Note {
					st = "note"
				}
				fmt.Printf("  %s %s  [%s] %s\n", st, ob.Key, ob.Pos, ob.Detail)
			}
		}
		fmt.Printf("%s tier=%s packages=%d prod_functions=%d obligations=%d discharged=%d cache_hit=%v wall=%.1fs\n",
			id, *tier, cf.Packages, cf.ProdFuncs, total, ok, hit, time.Since(t0).Seconds())
		for _, ob := range v.Known {
			fmt.Printf("KNOWN-FINDING: property=%s %s at %s: %s\n", id, ob.Key, ob.Pos, v.KnownWhat[ob.Key])
		}
		for _, b := range v.Broken {
			fmt.Printf("CHECK-BROKEN property=%s %s\n", id, b)
			exit = 1
		}
		if len(v.Broken) > 0 && len(v.Violations) == 0 {
			// a broken check is reported as a violation of the machinery, with a replay describing it
			rp := writeReplay(vdir, id, []Obligation{{Rule: "machinery", Key: "machinery|" + id, Detail: strings.Join(v.Broken, "; ")}})
			fmt.Printf("VIOLATION property=%s replay=%s\n", id, rp)
		}
		if len(v.Violations) > 0 {
			for _, ob := range v.Violations {
				fmt.Printf("  violated %s at %s: %s\n", ob.Key, ob.Pos, ob.Detail)
				for _, wl := range ob.Witness {
					fmt.Printf("      %s\n", wl)
				}
			}
			rp := writeReplay(vdir, id, v.Violations)
			fmt.Printf("VIOLATION property=%s replay=%s\n", id, rp)
			exit = 1
		}
	}
	os.Exit(exit)
}

func writeReplay(vdir, id string, obs []Obligation) string {
	d := filepath.Join(vdir, "evidence", "replay")
	os.MkdirAll(d, 0o755)
	p := filepath.Join(d, id+".json")
	b, _ := json.MarshalIndent(obs, "", " ")
	os.WriteFile(p, b, 0o644)
	return p
}
