package main

import (
	"fmt"
	"golang.org/x/tools/go/packages"
	_ "golang.org/x/tools/go/ssa"
	_ "golang.org/x/tools/go/ssa/ssautil"
	_ "golang.org/x/tools/go/callgraph/vta"
	_ "golang.org/x/tools/go/callgraph/cha"
)

func main() { fmt.Println(packages.LoadAllSyntax) }
