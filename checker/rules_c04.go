package main

// C04 — message consensus needs 2/3 of snapshot power on identical evidence;
// gas-estimate election (quorum, median of fully populated input, never re-elected).

import (
	"go/token"
	"go/types"
	"math/big"
	"strings"

	"golang.org/x/tools/go/ssa"
)

func init() { register("C04", rulesC04) }

// roleFields finds, on the accumulator type used by fn `consensus`, the field that is
// assigned a parameter verbatim (total) and the one accumulated with Add (running sum).
func roleFields(w *World, typ *types.Named) (total, sum string) {
	for _, t := range []types.Type{typ, types.NewPointer(typ)} {
		ms := w.Prog.MethodSets.MethodSet(t)
		for i := 0; i < ms.Len(); i++ {
			fn := w.Prog.MethodValue(ms.At(i))
			if fn == nil || len(fn.Blocks) == 0 || len(fn.Params) != 2 {
				continue
			}
			for _, b := range fn.Blocks {
				for _, in := range b.Instrs {
					st, ok := in.(*ssa.Store)
					if !ok {
						continue
					}
					fa, ok := st.Addr.(*ssa.FieldAddr)
					if !ok || fa.X != fn.Params[0] {
						continue
					}
					name := fieldName(fa.X.Type(), fa.Field)
					if st.Val == fn.Params[1] {
						total = name
					}
					if c, ok := st.Val.(*ssa.Call); ok {
						if cal, ok := CalleeOf(c.Common()); ok && cal.Name == "Add" && cal.Pkg == "cosmossdk.io/math" {
							for _, a := range c.Common().Args {
								if a == fn.Params[1] {
									sum = name
								}
							}
						}
					}
				}
			}
		}
	}
	return
}

func rulesC04(w *World, o *Out) {
	fl := NewFlow(w)
	o.Rule("C04.R1", "the quorum predicate normalises to 3·runningSum >= 2·totalPower (non-strict, ratio exactly 2/3); totals come from snapshot.TotalShares, summands from ShareCount of snapshot.GetValidator under its found flag")
	o.Rule("C04.R2", "VerifyEvidence: a winner is stored only under the quorum of a per-group accumulator that is re-created inside the group loop; groups are keyed by a hash of the proof's BytesToHash; failing the all-evidence quorum returns an error")
	o.Rule("C04.R3", "QueuedSignedMessage.AddEvidence replaces the proof of a validator already present and appends only otherwise; no other production writer of the Evidence list")
	o.Rule("C04.R4", "attestMessageWrapper: attester and queue removal run only after VerifyEvidence returned nil")
	o.Rule("C04.R5", "VerifyGasEstimates: the median is computed only under the quorum, over a slice every element of which is assigned a submitted value; elected estimates are written only when none is set")
	o.Rule("C04.R6", "no unchecked fixed-width + or * over two submitted estimates on the election path (overflow-free midpoint accepted)")

	cons := w.MustFunc(o, "util/libcons", "consensusPower", "consensus")
	ve := w.MustFunc(o, "util/libcons", "ConsensusChecker", "VerifyEvidence")
	vg := w.MustFunc(o, "util/libcons", "ConsensusChecker", "VerifyGasEstimates")
	if cons == nil || ve == nil || vg == nil {
		return
	}
	for _, f := range []*ssa.Function{cons, ve, vg} {
		o.Analysed(w.FuncKey(f))
	}
	accT := namedOf(cons.Params[0].Type())
	totalF, sumF := roleFields(w, accT)
	if totalF == "" || sumF == "" {
		o.Unresolved("accumulator role fields (total/sum) of " + accT.Obj().Name())
		return
	}

	// ---- R1: normal form ---------------------------------------------------------
	nm := &Normer{w: w, Leaf: func(v ssa.Value) string {
		if n, _ := loadedField(v); n == sumF {
			return "sum"
		} else if n == totalF {
			return "total"
		}
		return ""
	}}
	nRet := 0
	for _, b := range cons.Blocks {
		r, ok := b.Instrs[len(b.Instrs)-1].(*ssa.Return)
		if !ok {
			continue
		}
		v := r.Results[0]
		if bv, ok := boolConst(v); ok {
			o.Check("C04.R1", "consensus|constant return", !bv, w.Pos(r.Pos()), "a constant result of the quorum predicate must be false")
			continue
		}
		nRet++
		rel := nm.RelOf(v)
		op, ratio, ok2 := rel.Canon("sum", "total")
		good := ok2 && op == token.GEQ && ratio.Cmp(big.NewRat(2, 3)) == 0 && rel.FloorExact()
		d := "normal form: "
		if ok2 {
			d += "sum " + op.String() + " " + ratio.RatString() + "·total"
			if !rel.FloorExact() {
				d += " but computed with a truncating division on the compared side, which accepts sums below the exact ratio"
			}
		} else {
			d += "not a comparison of the running sum with the total (" + rel.L.String() + " ? " + rel.R.String() + ")"
		}
		o.Check("C04.R1", "consensus|sum >= 2/3 total", good, w.Pos(r.Pos()), d+"; want sum >= 2/3·total")
	}
	o.Count("C04.R1 non-constant returns of the quorum predicate", nRet, 1)

	// provenance of totals and summands in the two verifiers
	for _, f := range []*ssa.Function{ve, vg} {
		name := f.Name()
		sts := FindCalls(f, false, func(c Callee) bool { return c.Recv == accT.Obj().Name() && c.Name != "consensus" })
		nTot, nAdd := 0, 0
		for _, s := range sts {
			if len(s.Args()) != 2 {
				continue
			}
			arg := s.Args()[1]
			aps, _ := fl.Influence(arg)
			has := func(suffix string) bool {
				for a := range aps {
					if strings.HasSuffix(a.Path, suffix) {
						return true
					}
				}
				return false
			}
			callee := s.Callee.Static
			isTotal := false
			if callee != nil {
				for _, st := range storesToField(callee, accT.Obj().Name(), totalF) {
					if st.Val == callee.Params[1] {
						isTotal = true
					}
				}
			}
			if isTotal {
				nTot++
				o.Check("C04.R1", name+"|total from snapshot.TotalShares|"+ordinal(nTot), has(".TotalShares"), w.Pos(s.Instr.Pos()), "total power must be the snapshot's TotalShares; influence="+strings.Join(aps.Strings(), ","))
			} else {
				nAdd++
				okV := has(".ShareCount") && fl.DependsOnCall(arg, isCallee("x/valset/types", "Snapshot", "GetValidator")) != nil
				g := GuardBool(s.Instr, isCallee("x/valset/types", "Snapshot", "GetValidator"), true)
				o.Check("C04.R1", name+"|summand is ShareCount of a snapshot validator under found|"+ordinal(nAdd), okV && g != nil, w.Pos(s.Instr.Pos()),
					"summand must be ShareCount of snapshot.GetValidator(...) and be added only when the validator was found")
			}
		}
		if f == ve {
			o.Count("C04.R1 VerifyEvidence totals", nTot, 2)
			o.Count("C04.R1 VerifyEvidence summands", nAdd, 2)
		} else {
			o.Count("C04.R1 VerifyGasEstimates totals", nTot, 1)
			o.Count("C04.R1 VerifyGasEstimates summands", nAdd, 1)
		}
	}

	// ---- R2 ----------------------------------------------------------------------
	isCons := func(c Callee) bool { return c.Static == cons }
	wst := storesToField(ve, "Result", "Winner")
	o.Count("C04.R2 winner stores", len(wst), 1)
	for _, st := range wst {
		g := GuardBool(st, isCons, true)
		ok := g != nil
		d := "Winner must be assigned only under a true quorum predicate"
		if ok {
			acc := g.Common().Args[0]
			// the accumulator must be re-created (allocated or wholly reset) within the loop that contains the predicate call
			fresh := false
			if al, isAl := acc.(*ssa.Alloc); isAl {
				if inSameCycle(al.Block(), g.Block()) {
					fresh = true
				}
				for _, r := range *al.Referrers() {
					if s2, isSt := r.(*ssa.Store); isSt && s2.Addr == al && inSameCycle(s2.Block(), g.Block()) && s2.Block().Dominates(g.Block()) {
						fresh = true
					}
				}
			}
			ok = fresh
			d = "the accumulator whose quorum selects the winner must be re-created inside the per-group loop (otherwise power accumulates across evidence groups)"
			// winner value belongs to the same group whose validators were summed
		}
		o.Check("C04.R2", "VerifyEvidence|winner under per-group quorum", ok, w.Pos(st.Pos()), d)
		// success return after winner store only
	}
	// error on failing the global quorum
	for _, s := range FindCalls(ve, false, isCons) {
		al, _ := s.Args()[0].(*ssa.Alloc)
		if al == nil || inSameCycle(al.Block(), s.Block()) {
			continue
		}
		// global accumulator: the false edge must lead to an error return
		okE := false
		for _, b := range unitBlocks(ve) {
			for _, f := range DomFacts(b) {
				if f.Kind == FFalse && canon(f.V) == ssa.Value(s.Value()) {
					if r, ok := b.Instrs[len(b.Instrs)-1].(*ssa.Return); ok {
						if classifyErrVal(r.Results[len(r.Results)-1], b, 0) == RetError {
							okE = true
						}
					}
				}
			}
		}
		o.Check("C04.R2", "VerifyEvidence|no quorum over all evidence returns an error", okE, w.Pos(s.Instr.Pos()), "failing the all-evidence quorum must return an error")
	}
	// group key from BytesToHash
	nKey := 0
	for _, b := range unitBlocks(ve) {
		for _, in := range b.Instrs {
			if mu, ok := in.(*ssa.MapUpdate); ok {
				nKey++
				okK := fl.DependsOnCall(mu.Key, isCallee("", "", "BytesToHash")) != nil
				o.Check("C04.R2", "VerifyEvidence|group key derives from BytesToHash", okK, w.Pos(mu.Pos()), "evidence groups must be keyed by a hash of the unpacked proof's BytesToHash")
			}
		}
	}
	o.Count("C04.R2 group map updates", nKey, 1)

	// ---- R3 ----------------------------------------------------------------------
	ae := w.MustFunc(o, "x/consensus/types", "QueuedSignedMessage", "AddEvidence")
	if ae != nil {
		o.Analysed(w.FuncKey(ae))
		var appends []*ssa.Store
		for _, st := range storesToField(ae, "QueuedSignedMessage", "Evidence") {
			if c, ok := canon(st.Val).(*ssa.Call); ok {
				if b, ok := c.Call.Value.(*ssa.Builtin); ok && b.Name() == "append" {
					appends = append(appends, st)
				}
			}
		}
		o.Count("C04.R3 evidence append sites", len(appends), 1)
		eqs := FindCalls(ae, false, func(c Callee) bool { return c.Name == "Equals" || c.Name == "Equal" })
		okEq := false
		for _, e := range eqs {
			// one side an element of q.Evidence, other the new evidence
			var sides [2]bool
			for _, a := range e.Args() {
				aps, _ := fl.Influence(a)
				for ap := range aps {
					if p, ok := ap.Root.(*ssa.Parameter); ok {
						if p == ae.Params[0] && strings.Contains(ap.Path, ".Evidence[]") && strings.HasSuffix(ap.Path, ".ValAddress") {
							sides[0] = true
						}
						if p == ae.Params[1] && strings.HasSuffix(ap.Path, ".ValAddress") {
							sides[1] = true
						}
					}
				}
			}
			if !sides[0] || !sides[1] {
				continue
			}
			// from the true edge the append is unreachable and Proof is replaced
			blk := e.Block()
			iff, ok := blk.Instrs[len(blk.Instrs)-1].(*ssa.If)
			if !ok || canon(iff.Cond) != ssa.Value(e.Value()) {
				continue
			}
			tb := blk.Succs[0]
			reach := false
			for _, ap := range appends {
				if tb.Instrs[0] == ssa.Instruction(ap) || ReachAvoiding(ae, tb.Instrs[0], map[ssa.Instruction]bool{ap: true}, nil) != nil {
					reach = true
				}
			}
			replaced := false
			for _, in := range tb.Instrs {
				if st, ok := in.(*ssa.Store); ok {
					if fa, ok := st.Addr.(*ssa.FieldAddr); ok && fieldName(fa.X.Type(), fa.Field) == "Proof" {
						aps, _ := fl.Influence(st.Val)
						for ap := range aps {
							if p, ok := ap.Root.(*ssa.Parameter); ok && p == ae.Params[1] && strings.HasSuffix(ap.Path, ".Proof") {
								replaced = true
							}
						}
					}
				}
			}
			// every path to the append passes this comparison loop: the append must be preceded by the loop header; approximate with:
			// the comparison executes before the append whenever the list is non-empty — check that the append is not reachable avoiding the loop's header block
			okEq = !reach && replaced
		}
		// the same search written with slices.IndexFunc: idx = IndexFunc(q.Evidence, e.ValAddress == data.ValAddress);
		// the append happens only under "not found" (idx < 0 / idx == -1) and q.Evidence[idx].Proof is replaced otherwise
		if !okEq {
			for _, ix := range FindCalls(ae, false, func(c Callee) bool { return c.Pkg == "slices" && strings.HasPrefix(c.Name, "IndexFunc") }) {
				args := ix.Args()
				if len(args) != 2 {
					continue
				}
				var cb *ssa.Function
				switch v := args[1].(type) {
				case *ssa.MakeClosure:
					cb, _ = v.Fn.(*ssa.Function)
				case *ssa.Function:
					cb = v
				}
				if cb == nil || len(cb.Params) != 1 {
					continue
				}
				if nm, _ := loadedField(args[0]); nm != "Evidence" {
					continue
				}
				match := false
				for _, e := range FindCalls(cb, false, func(c Callee) bool { return c.Name == "Equals" || c.Name == "Equal" }) {
					var elem, other bool
					for _, a := range e.Args() {
						aps, _ := fl.Influence(a)
						for ap := range aps {
							if !strings.HasSuffix(ap.Path, ".ValAddress") {
								continue
							}
							if ap.Root == ssa.Value(cb.Params[0]) {
								elem = true
							} else {
								other = true
							}
						}
					}
					// the closure's verdict is that comparison
					for _, r := range Returns(cb) {
						if canon(r.Ret.Results[0]) == ssa.Value(e.Value()) && elem && other {
							match = true
						}
					}
				}
				if !match {
					continue
				}
				idx := ssa.Value(ix.Value())
				notFound := func(in ssa.Instruction) bool {
					for _, f := range FactsAt(in) {
						if f.Kind != FCmp || canon(f.X) != idx {
							continue
						}
						k, isK := canon(f.Y).(*ssa.Const)
						if !isK || k.Value == nil {
							continue
						}
						if (f.Op == token.LSS && k.Int64() == 0) || (f.Op == token.EQL && k.Int64() == -1) || (f.Op == token.LEQ && k.Int64() == -1) {
							return true
						}
					}
					return false
				}
				okApp := len(appends) > 0
				for _, ap := range appends {
					if !notFound(ap) {
						okApp = false
					}
				}
				replaced := false
				for _, b := range ae.Blocks {
					for _, in := range b.Instrs {
						st, isSt := in.(*ssa.Store)
						if !isSt {
							continue
						}
						fa, isFA := st.Addr.(*ssa.FieldAddr)
						if !isFA || fieldName(fa.X.Type(), fa.Field) != "Proof" {
							continue
						}
						if ia, isIA := elemRoot(fa.X).(*ssa.IndexAddr); !isIA || canon(ia.Index) != idx {
							continue
						}
						aps, _ := fl.Influence(st.Val)
						for ap := range aps {
							if p, isP := ap.Root.(*ssa.Parameter); isP && p == ae.Params[1] && strings.HasSuffix(ap.Path, ".Proof") {
								replaced = true
							}
						}
					}
				}
				if okApp && replaced {
					okEq = true
				}
			}
		}
		o.Check("C04.R3", "AddEvidence|existing validator's proof replaced, append only otherwise", okEq, w.Pos(ae.Pos()),
			"an equality test between q.Evidence[i].ValAddress and data.ValAddress must replace Proof on its true edge, from which the append is unreachable")
		// other writers
		n := 0
		for _, f := range w.ProdFuncs {
			if f.Parent() != nil || strings.HasSuffix(w.Fset.Position(f.Pos()).Filename, ".pb.go") {
				continue
			}
			for _, st := range storesToField(f, "QueuedSignedMessage", "Evidence") {
				if TopFunc(st.Parent()) != ae {
					n++
					o.Fail("C04.R3", "writer of QueuedSignedMessage.Evidence|"+w.FuncKey(f), w.Pos(st.Pos()), "only AddEvidence may write the evidence list")
				}
			}
		}
		_ = n
	}

	// ---- R4 ----------------------------------------------------------------------
	amw := w.MustFunc(o, "x/evm/keeper", "Keeper", "attestMessageWrapper")
	if amw != nil {
		o.Analysed(w.FuncKey(amw))
		isVE := func(c Callee) bool { return c.Name == "VerifyEvidence" }
		n := 0
		for _, g := range WithAnon(amw) {
			for _, s := range CallsIn(g) {
				isRemove := s.Callee.Name == "Remove" && s.Callee.Iface
				isFn := false
				if s.Callee.Name == "<dynamic>" {
					if p, ok := s.Common().Value.(*ssa.Parameter); ok && p.Parent() == amw {
						isFn = true
					}
				}
				if !isRemove && !isFn {
					continue
				}
				n++
				// locate the instruction in amw that makes this run: the call itself, or the Defer of the enclosing closure
				var at ssa.Instruction = s.Instr
				if g != amw {
					at = nil
					for _, b := range amw.Blocks {
						for _, in := range b.Instrs {
							if d, ok := in.(*ssa.Defer); ok {
								if mc, ok := d.Call.Value.(*ssa.MakeClosure); ok && mc.Fn == g {
									at = d
								}
							}
						}
					}
				}
				ok := at != nil && GuardErrNil(at, isVE) != nil
				what := "attester call"
				if isRemove {
					what = "queue removal"
				}
				o.Check("C04.R4", "attestMessageWrapper|"+what+" only after VerifyEvidence == nil", ok, w.Pos(s.Instr.Pos()), what+" must be dominated by the nil-error edge of VerifyEvidence")
			}
		}
		o.Count("C04.R4 effect sites in attestMessageWrapper", n, 2)
	}
	// every attestation entry of the evm module goes through the wrapper or has no effects
	// (checked by role: functions stored into / passed as the processAttestation slot)

	// one gas estimate per validator: the refusing scan runs over the estimates already stored; and evidence may be
	// re-submitted (the latest replaces the earlier one): the queue does not refuse a validator that already has an entry
	qpk := "x/consensus/keeper/consensus"
	refusals := func(f *ssa.Function) []*ssa.Call {
		var out []*ssa.Call
		for _, c := range CallsIn(f) {
			if c.Fn != f || (c.Callee.Name != "Equals" && c.Callee.Name != "Equal") {
				continue
			}
			call, isCall := c.Instr.(*ssa.Call)
			if !isCall {
				continue
			}
			blk := call.Block()
			iff, isIf := blk.Instrs[len(blk.Instrs)-1].(*ssa.If)
			if !isIf || canon(iff.Cond) != ssa.Value(call) {
				continue
			}
			if ReachFromTop(f, blk.Succs[0], SuccessReturns(f), nil) == nil {
				out = append(out, call)
			}
		}
		return out
	}
	if age := w.MustFunc(o, qpk, "Queue", "AddGasEstimate"); age != nil {
		o.Analysed(w.FuncKey(age))
		rs := refusals(age)
		okScan := false
		for _, r := range rs {
			for _, a := range r.Call.Args {
				if fl.DependsOnCall(a, func(c Callee) bool { return c.Name == "GetGasEstimates" }) != nil {
					okScan = true
				}
				x, _ := fl.Influence(a)
				for ap := range x {
					if strings.Contains(ap.Path, ".GasEstimates[]") {
						okScan = true
					}
				}
			}
		}
		o.Check("C04.R2", "AddGasEstimate|a validator's second estimate for a message is refused", okScan, w.Pos(age.Pos()), "the refusing comparison must run over msg.GetGasEstimates(); VerifyGasEstimates adds a validator's shares once per stored estimate, so duplicates let a minority reach the two-thirds gate and elect its own value")
	}
	if aev := w.MustFunc(o, qpk, "Queue", "AddEvidence"); aev != nil {
		o.Analysed(w.FuncKey(aev))
		rs := refusals(aev)
		o.Check("C04.R3", "Queue.AddEvidence|re-submitted evidence is not refused", len(rs) == 0, w.Pos(aev.Pos()), "a validator is counted by its latest evidence (QueuedSignedMessage.AddEvidence replaces the proof); refusing a validator that already has an entry keeps it counted behind a proof it has withdrawn")
	}
	// ---- R5 ----------------------------------------------------------------------
	med := FindCalls(vg, false, isCallee("util/palomath", "", "Median"))
	o.Count("C04.R5 Median sites", len(med), 1)
	for _, s := range med {
		ok := GuardBool(s.Instr, isCons, true) != nil
		o.Check("C04.R5", "VerifyGasEstimates|median under quorum", ok, w.Pos(s.Instr.Pos()), "Median must be dominated by the true edge of the quorum predicate")
		// input slice fully populated
		in := s.Args()[0]
		full, why := fullyPopulated(vg, in)
		o.Check("C04.R5", "VerifyGasEstimates|median input fully populated with submitted values", full, w.Pos(s.Instr.Pos()), why)
		aps, _ := fl.Influence(in)
		okV := false
		for a := range aps {
			if strings.HasSuffix(a.Path, "[].Value") {
				okV = true
			}
		}
		// (built with slice.Map over the estimates: the element function is the GetValue getter)
		if mc, isMC := canon(in).(*ssa.Call); !okV && isMC && len(mc.Call.Args) == 2 {
			if cal, okc := CalleeOf(mc.Common()); okc && strings.HasSuffix(cal.Pkg, "util/slice") && strings.HasPrefix(cal.Name, "Map") {
				var fn *ssa.Function
				switch x := mc.Call.Args[1].(type) {
				case *ssa.MakeClosure:
					fn, _ = x.Fn.(*ssa.Function)
				case *ssa.Function:
					fn = x
				}
				if fn != nil && len(fn.Params) == 1 {
					all := true
					for _, b := range fn.Blocks {
						if r, isR := b.Instrs[len(b.Instrs)-1].(*ssa.Return); isR && len(r.Results) == 1 {
							gv, isC := canon(r.Results[0]).(*ssa.Call)
							if !isC || !gv.Call.IsInvoke() || gv.Call.Method.Name() != "GetValue" || canon(gv.Call.Value) != ssa.Value(fn.Params[0]) {
								all = false
							}
						}
					}
					for a := range aps {
						if all && strings.HasSuffix(a.Path, "[]") {
							okV = true
						}
					}
				}
			}
		}
		o.Check("C04.R5", "VerifyGasEstimates|median input are the estimates' values", okV, w.Pos(s.Instr.Pos()), "elements must come from estimates[i].GetValue(); influence="+strings.Join(aps.Strings(), ","))
	}
	// elected estimate written once
	type setter struct{ pkg, recv, name, typ, field, getter string }
	for _, st := range []setter{
		{"x/consensus/keeper/consensus", "Queue", "SetElectedGasEstimate", "", "", "GetGasEstimate"},
		{"x/skyway/keeper", "Keeper", "UpdateBatchGasEstimate", "InternalOutgoingTxBatch", "GasEstimate", ""},
	} {
		f := w.MustFunc(o, st.pkg, st.recv, st.name)
		if f == nil {
			continue
		}
		o.Analysed(w.FuncKey(f))
		if st.getter != "" {
			// effect: the message's SetElectedGasEstimate; guard: GetGasEstimate() == 0
			effs := FindCalls(f, false, func(c Callee) bool { return c.Name == "SetElectedGasEstimate" && c.Iface })
			o.Count("C04.R5 "+st.name+" effect sites", len(effs), 1)
			for _, e := range effs {
				ok := false
				for _, fa := range FactsAt(e.Instr) {
					if fa.Kind == FCmp && fa.Op == token.EQL {
						for _, pair := range [][2]ssa.Value{{fa.X, fa.Y}, {fa.Y, fa.X}} {
							if c, isC := pair[1].(*ssa.Const); isC && c.Uint64() == 0 && fl.DependsOnCall(pair[0], isCallee("", "", st.getter)) != nil {
								ok = true
							}
						}
					}
				}
				o.Check("C04.R5", st.name+"|elect only when no estimate is set", ok, w.Pos(e.Instr.Pos()), "the elected estimate may be assigned only under GetGasEstimate() == 0")
			}
		} else {
			sts := storesToField(f, st.typ, st.field)
			o.Count("C04.R5 "+st.name+" stores of "+st.field, len(sts), 1)
			for _, s2 := range sts {
				ok := false
				for _, fa := range FactsAt(s2) {
					if fa.Kind == FCmp && (fa.Op == token.LEQ || fa.Op == token.EQL) {
						if n, _ := loadedField(fa.X); n == st.field {
							if c, isC := fa.Y.(*ssa.Const); isC && c.Uint64() == 0 {
								ok = true
							}
						}
					}
				}
				o.Check("C04.R5", st.name+"|elect only when no estimate is set", ok, w.Pos(s2.Pos()), "GasEstimate may be assigned only when the stored batch has none (> 0 refuses)")
			}
		}
	}

	// ---- R6 ----------------------------------------------------------------------
	nArith := 0
	for _, s := range med {
		mf := s.Callee.Static
		if mf == nil {
			continue
		}
		o.Analysed(w.FuncKey(mf))
		for _, b := range mf.Blocks {
			for _, in := range b.Instrs {
				bo, ok := in.(*ssa.BinOp)
				if !ok || (bo.Op != token.ADD && bo.Op != token.MUL) {
					continue
				}
				bt, ok := bo.Type().Underlying().(*types.Basic)
				if !ok || bt.Info()&types.IsInteger == 0 {
					continue
				}
				if !fromElements(bo.X) || !fromElements(bo.Y) {
					continue
				}
				nArith++
				safe := isMidpoint(bo)
				o.Check("C04.R6", "Median|"+bo.Op.String()+" over two submitted values", safe, w.Pos(bo.Pos()),
					"fixed-width "+bo.Op.String()+" of two submitted estimates can wrap around (e.g. two values near 2^64 elect a tiny estimate); use an overflow-free midpoint a+(b-a)/2 on the sorted slice")
			}
		}
	}
	o.Count("C04.R6 arithmetic sites over estimates in Median", nArith, 1)
}

func ordinal(n int) string { return []string{"0", "1st", "2nd", "3rd", "4th", "5th", "6th"}[min(n, 6)] }

// fromElements: the value is (arithmetic over) loads of slice elements.
func fromElements(v ssa.Value) bool {
	switch x := v.(type) {
	case *ssa.UnOp:
		if x.Op == token.MUL {
			_, ok := x.X.(*ssa.IndexAddr)
			return ok
		}
	case *ssa.BinOp:
		return fromElements(x.X) || fromElements(x.Y)
	case *ssa.Convert:
		return fromElements(x.X)
	}
	return false
}

func sameElem(a, b ssa.Value) bool {
	ua, ok1 := a.(*ssa.UnOp)
	ub, ok2 := b.(*ssa.UnOp)
	if !ok1 || !ok2 {
		return false
	}
	ia, ok1 := ua.X.(*ssa.IndexAddr)
	ib, ok2 := ub.X.(*ssa.IndexAddr)
	if !ok1 || !ok2 {
		return false
	}
	return ia.X == ib.X && (ia.Index == ib.Index || sameIndexExpr(ia.Index, ib.Index))
}

func sameIndexExpr(a, b ssa.Value) bool {
	ba, ok1 := a.(*ssa.BinOp)
	bb, ok2 := b.(*ssa.BinOp)
	if ok1 && ok2 && ba.Op == bb.Op && ba.X == bb.X {
		ca, ok1 := ba.Y.(*ssa.Const)
		cb, ok2 := bb.Y.(*ssa.Const)
		return ok1 && ok2 && ca.Int64() == cb.Int64()
	}
	return false
}

// isMidpoint: x + (y - x)/k, k >= 2.
func isMidpoint(bo *ssa.BinOp) bool {
	if bo.Op != token.ADD {
		return false
	}
	for _, pair := range [][2]ssa.Value{{bo.X, bo.Y}, {bo.Y, bo.X}} {
		q, ok := pair[1].(*ssa.BinOp)
		if !ok || q.Op != token.QUO {
			continue
		}
		if c, ok := q.Y.(*ssa.Const); !ok || c.Int64() < 2 {
			continue
		}
		sub, ok := q.X.(*ssa.BinOp)
		if !ok || sub.Op != token.SUB {
			continue
		}
		if sameElem(sub.Y, pair[0]) {
			return true
		}
	}
	return false
}

// fullyPopulated: v is a slice built by append only, or a make([]T, n) every element of
// which is assigned on each iteration of an index loop (no iteration skips the store).
func fullyPopulated(f *ssa.Function, v ssa.Value) (bool, string) {
	v = stripConv(v)
	if sl, ok := v.(*ssa.Slice); ok {
		v = sl.X
	}
	ms, ok := v.(*ssa.MakeSlice)
	if !ok {
		if _, ok := v.(*ssa.Phi); ok {
			return true, "slice built by append"
		}
		if c, ok := v.(*ssa.Call); ok {
			if cal, ok := CalleeOf(c.Common()); ok && (cal.Pkg == modPath+"/util/slice" || cal.Name == "append") {
				return true, "slice built element-wise by " + cal.String()
			}
		}
		return false, "median input is not a locally built slice: " + valDesc(v)
	}
	var stores []*ssa.Store
	for _, r := range *ms.Referrers() {
		if ia, ok := r.(*ssa.IndexAddr); ok {
			for _, r2 := range *ia.Referrers() {
				if st, ok := r2.(*ssa.Store); ok && st.Addr == ia {
					stores = append(stores, st)
				}
			}
		}
	}
	if len(stores) == 0 {
		if c, ok := ms.Len.(*ssa.Const); ok && c.Int64() == 0 {
			return true, "empty slice grown by append"
		}
		return false, "make([]T, n) with no element assignments leaves zero values in the median input"
	}
	for _, st := range stores {
		// find the loop header: nearest dominator of the store's block that is in a cycle with it and has >= 2 preds
		var hdr *ssa.BasicBlock
		for b := st.Block(); b != nil; b = b.Idom() {
			if len(b.Preds) >= 2 && inSameCycle(b, st.Block()) {
				hdr = b
				break
			}
		}
		if hdr == nil {
			return false, "element store outside a loop"
		}
		last := hdr.Instrs[len(hdr.Instrs)-1]
		if ReachAvoiding(f, last, map[ssa.Instruction]bool{hdr.Instrs[0]: true}, map[ssa.Instruction]bool{st: true}) != nil {
			return false, "an iteration of the fill loop can skip the element assignment, leaving a zero in the median input"
		}
	}
	return true, "every iteration assigns its element"
}
