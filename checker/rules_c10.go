package main

// C10 — validator snapshots are faithful, immutable, correctly projected to chains.
// C12 — unresponsive validators get jailed in bounded time; responsive ones never.
// C13 — validators are never punished for doing what the chain asked.

import (
	"go/constant"
	"go/token"
	"go/types"
	"math/big"
	"sort"
	"strings"

	"golang.org/x/tools/go/ssa"
)

func init() {
	register("C10", rulesC10)
	register("C12", rulesC12)
	register("C13", rulesC13)
}

const vsk = "x/valset/keeper"

// guardedByMethod: instruction dominated by "<method>() on some value == want" where method is an interface / concrete method name.
func guardedByMethod(in ssa.Instruction, name string, want bool) bool {
	return GuardBool(in, func(c Callee) bool { return c.Name == name }, want) != nil
}

func rulesC10(w *World, o *Out) {
	fl := NewFlow(w)
	o.Rule("C10.R1", "createNewSnapshot admits a validator only under IsBonded() && !IsJailed() && ValidatorSupportsAllChains(); the latter is 'no active chain missing'")
	o.Rule("C10.R2", "each entry's ShareCount and the running TotalShares both come from the validator's GetBondedTokens(), TotalShares starts at zero and is accumulated with Add for exactly the admitted validators")
	o.Rule("C10.R3", "the snapshot store is written only by: the function that allocates the next id from the id counter (setting Id from it), the function that appends to Chains of a loaded snapshot, and test-support code without production callers; the current snapshot is the one at the counter's last id")
	o.Rule("C10.R4", "the valset sent to a chain contains a validator only under the chain type / reference-id match, with a power produced by truncation (never a rounding call); every sender of an UpdateValset message is dominated by the quorum gate of the very valset it sends; the gate is sum(powers) >= threshold with threshold == floor(2·2^32/3)")

	// ---- R1 ----
	cns := w.MustFunc(o, vsk, "Keeper", "createNewSnapshot")
	if cns != nil {
		o.Analysed(w.FuncKey(cns))
		nAdm := 0
		for _, g := range unitFuncs(cns) {
			for _, b := range g.Blocks {
				for _, in := range b.Instrs {
					c, ok := in.(*ssa.Call)
					if !ok {
						continue
					}
					bi, ok := c.Call.Value.(*ssa.Builtin)
					if !ok || bi.Name() != "append" {
						continue
					}
					// the admission list: a slice of staking ValidatorI
					if !strings.Contains(c.Type().String(), "ValidatorI") {
						continue
					}
					nAdm++
					pos := w.Pos(c.Pos())
					o.Check("C10.R1", "createNewSnapshot|admitted only if bonded", guardedByMethod(c, "IsBonded", true), pos, "admission must be dominated by val.IsBonded() == true")
					o.Check("C10.R1", "createNewSnapshot|admitted only if not jailed", guardedByMethod(c, "IsJailed", false), pos, "admission must be dominated by val.IsJailed() == false")
					o.Check("C10.R1", "createNewSnapshot|admitted only if it supports all chains", guardedByMethod(c, "ValidatorSupportsAllChains", true), pos, "admission must be dominated by ValidatorSupportsAllChains(...) == true")
				}
			}
		}
		o.Count("C10.R1 admission sites", nAdm, 1)
		// R2
		shareStores := storesToField(cns, "Validator", "ShareCount")
		o.Count("C10.R2 ShareCount assignments", len(shareStores), 1)
		for _, st := range shareStores {
			ok := fl.DependsOnCall(st.Val, isCallee("", "", "GetBondedTokens")) != nil
			if c, isC := canon(st.Val).(*ssa.Call); !isC || c.Call.Method == nil || c.Call.Method.Name() != "GetBondedTokens" {
				ok = false
			}
			o.Check("C10.R2", "createNewSnapshot|share is the bonded stake", ok, w.Pos(st.Pos()), "ShareCount must be val.GetBondedTokens() itself")
		}
		tot := storesToField(cns, "Snapshot", "TotalShares")
		nAcc := 0
		for _, st := range tot {
			c, isC := canon(st.Val).(*ssa.Call)
			if !isC {
				continue
			}
			cal, _ := CalleeOf(c.Common())
			switch cal.Name {
			case "ZeroInt":
				o.Pass("C10.R2", "createNewSnapshot|total starts at zero", w.Pos(st.Pos()), "TotalShares initialised with ZeroInt()")
			case "Add":
				nAcc++
				ok := false
				if len(c.Call.Args) == 2 {
					if n, _ := loadedField(c.Call.Args[0]); n == "TotalShares" {
						if a, isA := canon(c.Call.Args[1]).(*ssa.Call); isA && a.Call.Method != nil && a.Call.Method.Name() == "GetBondedTokens" {
							ok = true
						} else if nm, _ := loadedField(c.Call.Args[1]); nm == "ShareCount" && fl.DependsOnCall(c.Call.Args[1], isCallee("", "", "GetBondedTokens")) != nil {
							// the share recorded on the entry just built (itself GetBondedTokens, checked above)
							ok = true
						}
					}
				}
				// same loop as the entry append
				sameLoop := false
				for _, ss := range shareStores {
					// the entry may be built in a helper called from the loop: compare the loop of the call
					sb, tb := normFrom(cns, ss).Block(), normFrom(cns, st).Block()
					if loopHeaderOf(sb) != nil && loopHeaderOf(sb) == loopHeaderOf(tb) {
						sameLoop = true
					}
				}
				o.Check("C10.R2", "createNewSnapshot|total accumulates the bonded stake of each listed validator", ok && sameLoop, w.Pos(st.Pos()), "TotalShares = TotalShares.Add(val.GetBondedTokens()) in the loop that appends the entry")
			default:
				o.Fail("C10.R2", "createNewSnapshot|unexpected TotalShares assignment", w.Pos(st.Pos()), "TotalShares may only be ZeroInt() or TotalShares.Add(bonded tokens)")
			}
		}
		o.Count("C10.R2 TotalShares accumulation sites", nAcc, 1)
	}
	vsac := w.MustFunc(o, vsk, "Keeper", "ValidatorSupportsAllChains")
	if vsac != nil {
		okR := true
		nT := 0
		for _, r := range Returns(vsac) {
			v := r.Ret.Results[0]
			if bv, isC := boolConst(v); isC {
				if bv {
					okR = false
				}
				continue
			}
			nT++
			bo, isB := canon(v).(*ssa.BinOp)
			if !isB || bo.Op != token.EQL || fl.DependsOnCall(bo.X, isCallee("", "", "MissingChains")) == nil {
				okR = false
			} else if c, isC := bo.Y.(*ssa.Const); !isC || c.Int64() != 0 {
				okR = false
			}
		}
		o.Check("C10.R1", "ValidatorSupportsAllChains|true only when no chain is missing", okR && nT >= 1, w.Pos(vsac.Pos()), "must return len(MissingChains(...)) == 0 (or false)")
	}
	if mc := w.MustFunc(o, "x/evm/keeper", "Keeper", "MissingChains"); mc != nil {
		// the append of a missing chain is guarded by IsActive() and !found
		n := 0
		for _, b := range mc.Blocks {
			for _, in := range b.Instrs {
				if c, ok := in.(*ssa.Call); ok {
					if bi, ok := c.Call.Value.(*ssa.Builtin); ok && bi.Name() == "append" {
						n++
						okA := guardedByMethod(c, "IsActive", true)
						okF := false
						for _, f := range FactsAt(c) {
							if f.Kind == FFalse {
								if ex, ok := canon(f.V).(*ssa.Extract); ok {
									if _, ok := ex.Tuple.(*ssa.Lookup); ok {
										okF = true
									}
								}
							}
						}
						o.Check("C10.R1", "MissingChains|a chain is missing iff it is active and not supported", okA && okF, w.Pos(c.Pos()), "the missing list grows only for active chains absent from the validator's set")
					}
				}
			}
		}
		o.Count("C10.R1 MissingChains append sites", n, 1)
	}

	// ---- R3 ----
	muts := w.StoreMuts(fl)
	nSnap := 0
	for _, m := range muts {
		if !m.Has("const:snapshot") || !m.Has("call:x/valset/keeper.Keeper.snapshotStore") {
			continue
		}
		nSnap++
		f := TopFunc(m.Site.Fn)
		pos := w.Pos(m.Site.Instr.Pos())
		args := m.Site.Args()
		val := args[len(args)-1]
		key := args[len(args)-2]
		inc := fl.DependsOnCall(key, isCallee("util/keeper", "IDGenerator", "IncrementNextID"))
		switch {
		case m.Op == "Delete":
			o.Fail("C10.R3", w.FuncKey(f)+"|deletes a stored snapshot", pos, "stored snapshots are immutable")
		case inc != nil:
			// new snapshot: Id field set from the same counter value
			okId := false
			for _, st := range storesToField(f, "Snapshot", "Id") {
				if fl.DependsOnCall(st.Val, isCallee("util/keeper", "IDGenerator", "IncrementNextID")) != nil {
					okId = true
				}
			}
			o.Check("C10.R3", w.FuncKey(f)+"|new snapshot stored under a fresh id from the counter", okId, pos, "the stored snapshot's Id and its key must both be the value returned by IncrementNextID")
		default:
			// rewrite of an existing snapshot
			callers := w.CallersOf(func(c Callee) bool { return c.Static == f })
			prodCallers := 0
			for _, c := range callers {
				if w.IsProd(c.Fn) {
					prodCallers++
				}
			}
			loaded := fl.DependsOnCall(val, isCallee(vsk, "Keeper", "FindSnapshotByID")) != nil
			if !loaded {
				o.Check("C10.R3", w.FuncKey(f)+"|overwrites a snapshot with caller-supplied content (test support): no production caller", prodCallers == 0, pos, "a function saving an arbitrary snapshot under an existing id must not be called by production code; callers: "+itoa(prodCallers))
				continue
			}
			// only Chains may be assigned, by append
			okOnly := true
			var other []string
			st, _ := w.Type("x/valset/types", "Snapshot").Underlying().(*types.Struct)
			for i := 0; st != nil && i < st.NumFields(); i++ {
				fn := st.Field(i).Name()
				for _, s := range storesToField(f, "Snapshot", fn) {
					if fn != "Chains" {
						okOnly = false
						other = append(other, fn)
						continue
					}
					c, isC := canon(s.Val).(*ssa.Call)
					if !isC {
						okOnly = false
						continue
					}
					if bi, ok := c.Call.Value.(*ssa.Builtin); !ok || bi.Name() != "append" {
						okOnly = false
					} else if n, _ := loadedField(c.Call.Args[0]); n != "Chains" {
						okOnly = false
					}
				}
			}
			o.Check("C10.R3", w.FuncKey(f)+"|a stored snapshot changes only by appending to Chains", okOnly, pos, "fields assigned besides an append to Chains: "+strings.Join(other, ","))
		}
	}
	o.Count("C10.R3 snapshot store write sites", nSnap, 3)
	if gcs := w.MustFunc(o, vsk, "Keeper", "GetCurrentSnapshot"); gcs != nil {
		ok := false
		for _, s := range CallsIn(gcs) {
			if s.Callee.Name == "Load" || s.Callee.Name == "FindSnapshotByID" {
				args := s.Args()
				if fl.DependsOnCall(args[len(args)-1], isCallee("util/keeper", "IDGenerator", "GetLastID")) != nil {
					ok = true
				}
			}
		}
		o.Check("C10.R3", "GetCurrentSnapshot|loads the snapshot at the counter's last id", ok, w.Pos(gcs.Pos()), "the current snapshot must be keyed by GetLastID(snapshot counter)")
	}

	// ---- R4 ----
	tsc := w.MustFunc(o, "x/evm/keeper", "", "transformSnapshotToCompass")
	if tsc != nil {
		o.Analysed(w.FuncKey(tsc))
		n := 0
		for _, st := range storesToField(tsc, "Valset", "Powers") {
			c, isC := canon(st.Val).(*ssa.Call)
			if !isC {
				continue
			}
			if bi, ok := c.Call.Value.(*ssa.Builtin); !ok || bi.Name() != "append" {
				continue
			}
			n++
			pos := w.Pos(st.Pos())
			// match guards
			okT, okR := false, false
			for _, f := range FactsAt(st) {
				if f.Kind == FCmp && f.Op == token.EQL {
					sx, _ := fl.Influence(f.X)
					sy, _ := fl.Influence(f.Y)
					all := APSet{}
					all.add(sx, "")
					all.add(sy, "")
					for a := range all {
						if strings.HasSuffix(a.Path, ".ChainType") {
							okT = true
						}
						if strings.HasSuffix(a.Path, ".ChainReferenceID") {
							okR = true
						}
					}
					if fl.DependsOnCall(f.X, isCallee("", "", "GetChainType")) != nil || fl.DependsOnCall(f.Y, isCallee("", "", "GetChainType")) != nil {
						okT = true
					}
					if fl.DependsOnCall(f.X, isCallee("", "", "GetChainReferenceID")) != nil || fl.DependsOnCall(f.Y, isCallee("", "", "GetChainReferenceID")) != nil {
						okR = true
					}
				}
			}
			// registration does not normalise the chain type ("EVM", "evm"): the match folds case
			okFold := false
			for _, f := range FactsAt(st) {
				if f.Kind == FCmp && f.Op == token.EQL {
					for _, v := range []ssa.Value{f.X, f.Y} {
						if fl.DependsOnCall(v, func(c Callee) bool { return c.Pkg == "strings" && (c.Name == "ToLower" || c.Name == "ToUpper") }) != nil {
							okFold = true
						}
					}
				}
				if f.Kind == FTrue && fl.DependsOnCall(f.V, func(c Callee) bool { return c.Pkg == "strings" && c.Name == "EqualFold" }) != nil {
					okFold = true
				}
			}
			o.Check("C10.R4", "transformSnapshotToCompass|the chain type is matched without regard to case", okFold, pos, "accounts are registered with a free-form chain type; an exact comparison with \"evm\" drops validators registered as \"EVM\" from every valset while they stay in the snapshot total")
			o.Check("C10.R4", "transformSnapshotToCompass|validator listed only with an account on this chain", okT && okR, pos, "the append must be dominated by chain type and chain reference id equality")
			// ... and with nothing else deciding: every snapshot validator with such an account is listed, whatever
			// its share or computed power (loop bounds and nil checks aside)
			var extra []string
			for _, f := range FactsAt(st) {
				switch f.Kind {
				case FNil, FNonNil:
					continue
				}
				isLoopOrChain := false
				sides := []ssa.Value{f.V, f.X, f.Y}
				for _, sd := range sides {
					if sd == nil {
						continue
					}
					if lc, isLC := canon(sd).(*ssa.Call); isLC {
						if lb, isLB := lc.Call.Value.(*ssa.Builtin); isLB && lb.Name() == "len" {
							isLoopOrChain = true
						}
					}
					if fl.DependsOnCall(sd, func(c Callee) bool { return c.Name == "GetChainType" || c.Name == "GetChainReferenceID" }) != nil {
						isLoopOrChain = true
					}
					x, _ := fl.Influence(sd)
					for a := range x {
						if strings.HasSuffix(a.Path, ".ChainType") || strings.HasSuffix(a.Path, ".ChainReferenceID") {
							isLoopOrChain = true
						}
					}
					if _, isNext := canon(sd).(*ssa.Extract); isNext {
						if ex := canon(sd).(*ssa.Extract); ex.Index == 0 {
							if _, isN := ex.Tuple.(*ssa.Next); isN {
								isLoopOrChain = true // map / string range "ok"
							}
						}
					}
				}
				if !isLoopOrChain {
					d := valDesc(f.V)
					if f.Kind == FCmp {
						d = valDesc(f.X) + " " + f.Op.String() + " " + valDesc(f.Y)
					}
					extra = append(extra, d)
				}
			}
			sort.Strings(extra)
			o.Check("C10.R4", "transformSnapshotToCompass|every validator with an account on this chain is listed", len(extra) == 0, pos, "the listing is the snapshot restricted to validators with an account on the chain; further conditions on the way to the append (e.g. skipping a zero power) drop validators that belong to it: "+strings.Join(extra, "; "))
			// truncation, no rounding
			_, calls := fl.Influence(st.Val)
			var rounding []string
			for cc := range calls {
				if cal, ok := CalleeOf(cc.Common()); ok {
					switch cal.Name {
					case "RoundInt", "RoundInt64", "Round", "Ceil", "RoundBankers", "Trunc":
						rounding = append(rounding, cal.String())
					}
				}
			}
			trunc := false
			// the appended element: Convert float->uint64 or TruncateInt
			var walk func(v ssa.Value, d int)
			seen := map[ssa.Value]bool{}
			walk = func(v ssa.Value, d int) {
				if v == nil || d > 8 || seen[v] {
					return
				}
				seen[v] = true
				switch x := v.(type) {
				case *ssa.Convert:
					if fb, ok := x.X.Type().Underlying().(*types.Basic); ok && fb.Info()&types.IsFloat != 0 {
						if tb, ok := x.Type().Underlying().(*types.Basic); ok && tb.Info()&types.IsInteger != 0 {
							trunc = true
						}
					}
					walk(x.X, d+1)
				case *ssa.Call:
					if cal, ok := CalleeOf(x.Common()); ok && (cal.Name == "TruncateInt" || cal.Name == "TruncateInt64" || cal.Name == "Quo" && cal.Recv == "Int") {
						trunc = true
					}
					for _, a := range x.Call.Args {
						walk(a, d+1)
					}
					// the conversion may live in a small helper of the module: look at what it returns
					if h := x.Call.StaticCallee(); h != nil && h.Blocks != nil && strings.HasPrefix(funcPkgPath(h), modPath) {
						for _, r := range Returns(h) {
							for _, rv := range r.Ret.Results {
								walk(rv, d+1)
							}
						}
					}
				case *ssa.Slice:
					walk(x.X, d+1)
				case *ssa.Alloc:
					for _, r := range *x.Referrers() {
						if ia, ok := r.(*ssa.IndexAddr); ok {
							for _, r2 := range *ia.Referrers() {
								if s2, ok := r2.(*ssa.Store); ok {
									walk(s2.Val, d+1)
								}
							}
						}
					}
				case *ssa.UnOp:
					walk(x.X, d+1)
				}
			}
			for _, a := range c.Call.Args[1:] {
				walk(a, 0)
			}
			o.Check("C10.R4", "transformSnapshotToCompass|power is rounded down", trunc && len(rounding) == 0, pos, "the power must be produced by a truncating conversion and no rounding call; rounding calls on the path: "+strings.Join(rounding, ","))
			// depends on the validator's share and the total
			aps, _ := fl.Influence(st.Val)
			okS, okTot := false, false
			for a := range aps {
				if strings.HasSuffix(a.Path, ".ShareCount") {
					okS = true
				}
			}
			if len(aps) > 0 {
				okTot = true
			}
			o.Check("C10.R4", "transformSnapshotToCompass|power derives from the validator's share", okS && okTot, pos, "power must depend on val.ShareCount and the total")
		}
		o.Count("C10.R4 power append sites", n, 1)
	}
	// quorum gate at every sender
	senders := w.CallersOf(func(c Callee) bool { return c.Name == "SendValsetMsgForChain" })
	o.Count("C10.R4 UpdateValset send sites", len(senders), 2)
	gate := w.MustFunc(o, "x/evm/keeper", "", "isEnoughToReachConsensus")
	for _, s := range senders {
		g, gf := GuardBoolFact(s.Instr, func(c Callee) bool { return c.Static == gate }, true)
		ok := g != nil
		if ok {
			// same valset value (through a guard helper: the helper's parameter is the argument it was given)
			sent := s.Args()[3]
			checked := gf.Resolve(g.Call.Args[0])
			ok = checked == canon(sent) || sameLoad(checked, sent) || sameLoad(g.Call.Args[0], sent)
		}
		o.Check("C10.R4", w.FuncKey(TopFunc(s.Fn))+"|valset sent only past the quorum gate of that valset", ok, w.Pos(s.Instr.Pos()), "SendValsetMsgForChain must be dominated by isEnoughToReachConsensus(valset) == true for the valset it sends")
	}
	// the only producer of Message_UpdateValset literals is the sender
	for _, f := range w.ProdFuncs {
		if isGeneratedFile(w, f) {
			continue
		}
		for _, b := range f.Blocks {
			for _, in := range b.Instrs {
				if al, ok := in.(*ssa.Alloc); ok {
					if n := namedOf(al.Type().Underlying().(*types.Pointer).Elem()); n != nil && n.Obj().Name() == "Message_UpdateValset" {
						okP := TopFunc(f) == w.Func("x/evm/keeper", "msgSender", "SendValsetMsgForChain")
						o.Check("C10.R4", w.FuncKey(TopFunc(f))+"|UpdateValset message built only by the gated sender", okP, w.Pos(al.Pos()), "an UpdateValset action constructed elsewhere would bypass the quorum gate")
					}
				}
			}
		}
	}
	if gate != nil {
		o.Analysed(w.FuncKey(gate))
		okG := false
		for _, r := range Returns(gate) {
			bo, isB := canon(r.Ret.Results[0]).(*ssa.BinOp)
			if !isB || bo.Op != token.GEQ {
				continue
			}
			// lhs: phi-sum of Powers elements; rhs: the threshold constant
			aps, _ := NewFlow(w).Influence(bo.X)
			sumOK := false
			for a := range aps {
				if strings.Contains(a.Path, ".Powers") {
					sumOK = true
				}
			}
			c, isC := bo.Y.(*ssa.Const)
			if !isC || !sumOK {
				continue
			}
			thr, _ := constant.Uint64Val(c.Value)
			want := new(big.Int).Div(new(big.Int).Mul(big.NewInt(2), new(big.Int).Lsh(big.NewInt(1), 32)), big.NewInt(3))
			if want.IsUint64() && want.Uint64() == thr {
				okG = true
			}
		}
		o.Check("C10.R4", "isEnoughToReachConsensus|sum(powers) >= floor(2·2^32/3)", okG, w.Pos(gate.Pos()), "the gate must compare the plain sum of Powers with 2863311530 by >=")
		// only additions in the sum
		for _, b := range gate.Blocks {
			for _, in := range b.Instrs {
				if bo, ok := in.(*ssa.BinOp); ok && bo.Op != token.ADD && bo.Op != token.GEQ && bo.Op != token.LSS {
					o.Fail("C10.R4", "isEnoughToReachConsensus|unexpected arithmetic "+bo.Op.String(), w.Pos(bo.Pos()), "the gate must be a plain sum")
				}
			}
		}
	}
	// maxPower constant
	if p := w.ByPath[modPath+"/x/evm/keeper"]; p != nil {
		if c, ok := p.Types.Scope().Lookup("maxPower").(*types.Const); ok {
			v, _ := constant.Uint64Val(constant.ToInt(c.Val()))
			o.Check("C10.R4", "maxPower == 2^32", v == 1<<32, "-", "powers are scaled to 2^32")
		} else {
			o.Unresolved("x/evm/keeper.maxPower")
		}
	}
}

func rulesC12(w *World, o *Out) {
	fl := NewFlow(w)
	o.Rule("C12.R1", "store bookkeeping over validator addresses is injective: no Join/Split with a non-empty separator over raw address bytes")
	o.Rule("C12.R2", "the inactivity sweep jails a validator only when it is not alive, not in its grace period and not already jailed; 'alive' is height < alive-until; a jailing failure never ends the sweep")
	o.Rule("C12.R3", "an accepted keep-alive always (re)writes the record with alive-until = height + TTL; acceptance requires the version gate, which refuses versions below the stored minimum; both writers of the minimum refuse to lower it")
	o.Rule("C12.R5", "which minimum version, keep-alive record and grace period decide is read from the committed store only (no in-memory state beside the store in x/valset)")
	memStateRule(w, o, "C12.R5", "the version gate, keep-alive records and grace periods", "x/valset")
	o.Rule("C12.R4", "EndBlock runs the grace-period update every block and the sweep on its period; the sentence table is strictly increasing; Jail calls the slashing keeper only past the last-validator and 25 % guards")

	// ---- R1 ----
	nJ := 0
	for _, f := range w.ProdFuncs {
		if !strings.Contains(funcPkgPath(f), "/x/valset") {
			continue
		}
		if isNewHelper(f) && len(rootCallers(f)) > 0 {
			continue // its sites are listed with (and keyed by) the functions that call it
		}
		for _, s := range CallsIn(f) {
			c := s.Callee
			if !((c.Pkg == "bytes" || c.Pkg == "strings") && (c.Name == "Join" || c.Name == "Split" || c.Name == "SplitN")) {
				continue
			}
			nJ++
			args := s.Args()
			sep := args[len(args)-1]
			if c.Name == "SplitN" {
				sep = args[1]
			}
			empty := false
			if k, ok := sep.(*ssa.Const); ok && k.Value != nil && k.Value.Kind() == constant.String && constant.StringVal(k.Value) == "" {
				empty = true
			}
			// elements derive from raw address bytes?
			raw := c.Pkg == "bytes" // byte-slice elements in the validator-set module are raw addresses / stored blobs
			data := args[0]
			_, calls := fl.Influence(data)
			for cc := range calls {
				if cal, ok := CalleeOf(cc.Common()); ok && (isAddrParser(cal) || cal.Name == "Bytes" || cal.Name == "GetOperator") {
					raw = true
				}
			}
			if c.Name != "Join" {
				// Split of stored bytes that were written by a Join over addresses in the same package: tie to the store key
				if fl.DependsOnCall(data, func(cc Callee) bool { return cc.Name == "Get" }) != nil && c.Pkg == "bytes" {
					raw = true
				}
			}
			o.Check("C12.R1", w.FuncKey(f)+"|"+c.Pkg+"."+c.Name+" over address bytes", empty || !raw, w.Pos(s.Instr.Pos()),
				"raw validator address bytes are joined / split on a one-byte separator that can occur inside an address: the previous-block unjailed set is then mis-parsed, validators look newly unjailed every block and their grace period never ends (never jailed for inactivity)")
		}
	}
	o.Count("C12.R1 join/split sites in x/valset", nJ, 0)

	// ---- R2 ----
	jiv := w.MustFunc(o, vsk, "Keeper", "JailInactiveValidators")
	if jiv != nil {
		o.Analysed(w.FuncKey(jiv))
		js := FindCalls(jiv, false, isCallee(vsk, "Keeper", "Jail"))
		o.Count("C12.R2 Jail sites in the sweep", len(js), 1)
		for _, s := range js {
			pos := w.Pos(s.Instr.Pos())
			okAlive := false
			for _, f := range FactsAt(s.Instr) {
				if f.Kind == FFalse {
					if fl.DependsOnCall(f.V, isCallee(vsk, "Keeper", "IsValidatorAlive")) != nil {
						okAlive = true
					}
				}
			}
			o.Check("C12.R2", "JailInactiveValidators|jails only validators that are not alive", okAlive, pos, "Jail must be dominated by alive == false")
			o.Check("C12.R2", "JailInactiveValidators|respects the grace period", guardedByMethod(s.Instr, "isValidatorInGracePeriod", false), pos, "Jail must be dominated by isValidatorInGracePeriod == false")
			o.Check("C12.R2", "JailInactiveValidators|skips already jailed validators", guardedByMethod(s.Instr, "IsJailed", false), pos, "Jail must be dominated by IsJailed == false")
			// a failure does not end the sweep
			hdr := loopHeaderOf(s.Block())
			okCont := hdr != nil
			if hdr != nil {
				rets := map[ssa.Instruction]bool{}
				for _, b := range jiv.Blocks {
					if r, ok := b.Instrs[len(b.Instrs)-1].(*ssa.Return); ok && inSameCycle(hdr, b) {
						rets[r] = true
					}
				}
				// returns inside the loop body reachable from the Jail call without passing the header
				if ReachAvoiding(jiv, s.Instr, rets, map[ssa.Instruction]bool{hdr.Instrs[0]: true}) != nil {
					okCont = false
				}
				// also blocks that are not in the cycle but reachable before the header (return right after the call)
				for _, b := range jiv.Blocks {
					if r, ok := b.Instrs[len(b.Instrs)-1].(*ssa.Return); ok && !inSameCycle(hdr, b) && hdr.Dominates(b) {
						// exit through a return that is not the loop's normal exit: reachable from the call avoiding the header?
						if ReachAvoiding(jiv, s.Instr, map[ssa.Instruction]bool{r: true}, map[ssa.Instruction]bool{hdr.Instrs[0]: true}) != nil {
							okCont = false
						}
					}
				}
			}
			o.Check("C12.R2", "JailInactiveValidators|a failed jailing does not end the sweep", okCont, pos, "after the Jail call control must return to the loop header; returning its error skips every later unresponsive validator")
		}
	}
	iva := w.MustFunc(o, vsk, "Keeper", "IsValidatorAlive")
	if iva != nil {
		ok := false
		for _, r := range Returns(iva) {
			if bo, isB := canon(r.Ret.Results[0]).(*ssa.BinOp); isB && bo.Op == token.LSS {
				l, _ := fl.Influence(bo.X)
				rr, _ := fl.Influence(bo.Y)
				lh, rh := false, false
				for a := range l {
					if strings.Contains(a.String(), "BlockHeight") {
						lh = true
					}
				}
				if fl.DependsOnCall(bo.X, isCallee("", "", "BlockHeight")) != nil {
					lh = true
				}
				for a := range rr {
					if strings.HasSuffix(a.Path, ".AliveUntilBlockHeight") {
						rh = true
					}
				}
				if lh && rh {
					ok = true
				}
			}
		}
		o.Check("C12.R2", "IsValidatorAlive|alive iff height < alive-until", ok, w.Pos(iva.Pos()), "must return BlockHeight() < data.AliveUntilBlockHeight")
	}

	// ---- R3 ----
	kva := w.MustFunc(o, vsk, "Keeper", "KeepValidatorAlive")
	if kva != nil {
		o.Analysed(w.FuncKey(kva))
		var sets []Site
		for _, m := range w.mutsIn(fl, kva) {
			if m.Op == "Set" {
				sets = append(sets, m.Site)
			}
		}
		o.Count("C12.R3 keep-alive writes", len(sets), 1)
		for _, s := range sets {
			o.Check("C12.R3", "KeepValidatorAlive|write only past the version gate", GuardErrNil(s.Instr, isCallee(vsk, "Keeper", "CanAcceptKeepAlive")) != nil, w.Pos(s.Instr.Pos()), "the record must be written only when CanAcceptKeepAlive returned nil")
		}
		okAll := len(sets) > 0 && ReachAvoiding(kva, nil, SuccessReturns(kva), siteSet(sets)) == nil
		o.Check("C12.R3", "KeepValidatorAlive|every accepted keep-alive rewrites the record", okAll, w.Pos(kva.Pos()), "a success return that skips the store write acknowledges a keep-alive without extending the validator's lifetime")
		okTTL := false
		for _, st := range storesToField(kva, "KeepAliveData", "AliveUntilBlockHeight") {
			if bo, isB := canon(st.Val).(*ssa.BinOp); isB && bo.Op == token.ADD {
				if c, isC := bo.Y.(*ssa.Const); isC && c.Int64() > 0 {
					if n, _ := loadedField(bo.X); n == "Height" || fl.DependsOnCall(bo.X, func(c Callee) bool { return c.Name == "BlockHeader" || c.Name == "BlockHeight" }) != nil {
						okTTL = true
					}
				}
			}
		}
		o.Check("C12.R3", "KeepValidatorAlive|alive-until = current height + TTL", okTTL, w.Pos(kva.Pos()), "AliveUntilBlockHeight must be the current block height plus a positive constant")
	}
	cak := w.MustFunc(o, vsk, "Keeper", "CanAcceptKeepAlive")
	if cak != nil {
		ok := semverRefuses(fl, cak)
		o.Check("C12.R3", "CanAcceptKeepAlive|refuses versions below the minimum", ok, w.Pos(cak.Pos()), "semver.Compare(version, MinVersion) < 0 must lead to an error")
		// ... on every accepting path: no success return (fast path, renewal shortcut) bypasses the comparison
		// against the minimum in force now
		for r := range SuccessReturns(cak) {
			held := false
			for _, fa := range FactsAt(r) {
				if fa.Kind == FCmp && fa.Op == token.GEQ {
					if k, isC := canon(fa.Y).(*ssa.Const); isC && k.Value != nil && k.Int64() == 0 {
						if c := fl.DependsOnCall(fa.X, isCallee("golang.org/x/mod/semver", "", "Compare")); c != nil &&
							fl.DependsOnCall(fa.Resolve(c.Call.Args[1]), isCallee(vsk, "Keeper", "PigeonRequirements")) != nil {
							held = true
						}
					}
				}
			}
			o.Check("C12.R3", "CanAcceptKeepAlive|every acceptance is compared with the current minimum version", held, w.Pos(r.Pos()), "a nil return must be dominated by semver.Compare(version, PigeonRequirements().MinVersion) >= 0; a shortcut for renewals keeps an outdated relayer alive after the minimum was raised")
		}
	}
	nMin := 0
	for _, name := range []string{"SetPigeonRequirements", "SetScheduledPigeonRequirements"} {
		f := w.MustFunc(o, vsk, "Keeper", name)
		if f == nil {
			continue
		}
		for _, m := range w.mutsIn(fl, f) {
			if m.Op != "Save" && m.Op != "Set" {
				continue
			}
			nMin++
			// dominated by the passing edge of semver.Compare(new, cur) < 0
			ok := false
			for _, fa := range FactsAt(m.Site.Instr) {
				if fa.Kind == FCmp && fa.Op == token.GEQ {
					if c := fl.DependsOnCall(fa.X, isCallee("golang.org/x/mod/semver", "", "Compare")); c != nil {
						if k, isC := fa.Y.(*ssa.Const); isC && k.Int64() == 0 {
							// first argument is the new version, second the stored one
							a0, _ := fl.Influence(fa.Resolve(c.Call.Args[0]))
							newOK := false
							for a := range a0 {
								if p, isP := a.Root.(*ssa.Parameter); isP && p.Name() == "req" {
									newOK = true
								}
							}
							curOK := fl.DependsOnCall(fa.Resolve(c.Call.Args[1]), isCallee(vsk, "Keeper", "PigeonRequirements")) != nil
							ok = newOK && curOK
						}
					}
				}
			}
			o.Check("C12.R3", name+"|refuses to lower the minimum version", ok, w.Pos(m.Site.Instr.Pos()), "the write must be dominated by semver.Compare(new.MinVersion, current.MinVersion) >= 0")
		}
	}
	o.Count("C12.R3 minimum-version write sites", nMin, 2)
	// other writers of the pigeon requirement keys
	for _, m := range w.StoreMuts(fl) {
		if (m.Has("global:PigeonRequirementsKey") || m.Has("global:PigeonScheduledRequirementsKey")) && m.Op != "Delete" {
			n := TopFunc(m.Site.Fn).Name()
			if n != "SetPigeonRequirements" && n != "SetScheduledPigeonRequirements" {
				gen := w.Reach(entryFns(w.EntriesOf("genesis")), nil)
				if gen[TopFunc(m.Site.Fn)] != nil {
					continue
				}
				o.Fail("C12.R3", w.FuncKey(TopFunc(m.Site.Fn))+"|writes the pigeon requirements without the monotonicity check", w.Pos(m.Site.Instr.Pos()), "only the two guarded setters may write the minimum version")
			}
		}
	}

	// ---- R4 ----
	var eb *ssa.Function
	for _, e := range w.EntriesOf("abci") {
		if e.Name == "valset.EndBlock" {
			eb = e.Fn
		}
	}
	if eb == nil {
		o.Unresolved("valset.EndBlock")
	} else {
		ug := FindCalls(eb, false, isCallee(vsk, "Keeper", "UpdateGracePeriod"))
		okU := len(ug) == 1 && ReachAvoiding(eb, nil, SuccessReturns(eb), siteSet(ug)) == nil
		if ugp := w.MustFunc(o, vsk, "Keeper", "UpdateGracePeriod"); ugp != nil {
			o.Analysed(w.FuncKey(ugp))
			sets := map[ssa.Instruction]bool{}
			for _, m := range w.mutsIn(fl, ugp) {
				if m.Op == "Set" && m.Has("const:unjailed-validators-snapshot") {
					sets[m.Site.Instr] = true
				}
			}
			bad := ReachAvoiding(ugp, nil, SuccessReturns(ugp), sets)
			o.Check("C12.R4", "UpdateGracePeriod|the unjailed set of this block is recorded on every successful run", len(sets) > 0 && bad == nil, w.Pos(ugp.Pos()),
				"the comparison base for 'newly unjailed' must be rewritten every block; a stale base makes a validator look newly unjailed block after block, so its grace period never ends and it is never jailed for inactivity")
		}
		o.Check("C12.R4", "valset.EndBlock|grace-period update on every block", okU, w.Pos(eb.Pos()), "every successful EndBlock must pass UpdateGracePeriod")
		sw := FindCalls(eb, false, isCallee(vsk, "Keeper", "JailInactiveValidators"))
		okS := len(sw) == 1
		if okS {
			okS = false
			for _, f := range FactsAt(sw[0].Instr) {
				if f.Kind == FCmp && f.Op == token.EQL {
					if bo, ok := canon(f.X).(*ssa.BinOp); ok && bo.Op == token.REM {
						if c, ok := bo.Y.(*ssa.Const); ok && c.Int64() > 0 && c.Int64() <= 10 {
							okS = true
						}
					}
				}
			}
		}
		o.Check("C12.R4", "valset.EndBlock|liveness sweep at least every 10 blocks", okS, w.Pos(eb.Pos()), "JailInactiveValidators must run under height % n == 0 with n <= 10")
		// the sweep reads the grace periods: those of this block must have been recorded before it runs
		ugs := FindCalls(eb, false, isCallee(vsk, "Keeper", "UpdateGracePeriod"))
		for _, s := range sw {
			o.Check("C12.R4", "valset.EndBlock|grace periods are updated before the liveness sweep", len(ugs) > 0 && PrecededBy(eb, s.Instr, siteSet(ugs)), w.Pos(s.Instr.Pos()), "a validator first seen unjailed in a sweep block has no grace entry yet if the sweep runs first, and is jailed again in the very block it was released")
		}
	}
	// sentence table strictly increasing
	if p := w.ByPath[modPath+"/"+vsk]; p != nil {
		sp := w.Prog.Package(p.Types)
		g, _ := sp.Members["jailSentences"].(*ssa.Global)
		if g == nil {
			o.Unresolved("jailSentences")
		} else {
			var vals []int64
			if init := sp.Func("init"); init != nil {
				for _, b := range init.Blocks {
					for _, in := range b.Instrs {
						if st, ok := in.(*ssa.Store); ok {
							if ia, ok := st.Addr.(*ssa.IndexAddr); ok {
								if al, ok := ia.X.(*ssa.Alloc); ok && strings.Contains(al.Type().String(), "time.Duration") {
									if c, ok := st.Val.(*ssa.Const); ok {
										vals = append(vals, c.Int64())
									}
								}
							}
						}
					}
				}
			}
			inc := len(vals) >= 2
			for i := 1; i < len(vals); i++ {
				if vals[i] <= vals[i-1] {
					inc = false
				}
			}
			_, writers := w.globalInit(g)
			o.Check("C12.R4", "jailSentences|strictly increasing, never reassigned", inc && writers == 0, "-", "the escalation table must be strictly increasing: "+intsToString(vals))
		}
	}
	jail := w.MustFunc(o, vsk, "Keeper", "Jail")
	if jail != nil {
		o.Analysed(w.FuncKey(jail))
		n := 0
		for _, g := range unitFuncs(jail) {
			for _, s := range CallsIn(g) {
				if s.Fn != g {
					continue // listed again with the helper it lives in
				}
				if s.Callee.Name == "Jail" && s.Callee.Iface {
					n++
					// located in an inner closure: the guards dominate the closure's invocation in its parent
					var at ssa.Instruction = s.Instr
					if g.Parent() != nil {
						at = nil
						for _, s2 := range CallsIn(g.Parent()) {
							if mc, ok := s2.Common().Value.(*ssa.MakeClosure); ok && mc.Fn == g {
								at = s2.Instr
							}
						}
					}
					ok1, ok2 := false, false
					var inputs []ssa.Value
					if at != nil {
						for _, f := range FactsAt(at) {
							if f.Kind == FCmp && f.Op == token.NEQ {
								if c, ok := f.Y.(*ssa.Const); ok && c.Int64() == 1 {
									ok1 = true
									inputs = append(inputs, f.X)
								}
							}
							if f.Kind == FCmp && f.Op == token.LEQ {
								if bo, ok := canon(f.X).(*ssa.BinOp); ok && bo.Op == token.QUO {
									if c, ok := f.Y.(*ssa.Const); ok {
										if fv, _ := constant.Float64Val(c.Value); fv == 0.25 {
											ok2 = true
											inputs = append(inputs, f.X)
										}
									}
								}
							}
						}
					}
					o.Check("C12.R4", "Jail|never jails the last active validator", ok1, w.Pos(s.Instr.Pos()), "slashing.Jail must be dominated by activeCount != 1")
					o.Check("C12.R4", "Jail|never jails more than 25 % of bonded power", ok2, w.Pos(s.Instr.Pos()), "slashing.Jail must be dominated by power/total <= 0.25")
					// the totals are those of the moment of this jailing: counted inside the call, not handed in
					// (each jailing shrinks the active set the next one is judged against)
					var handed []string
					for _, in := range inputs {
						x, _ := fl.Influence(in)
						for ap := range x {
							q, isP := ap.Root.(*ssa.Parameter)
							if !isP || q.Parent().Parent() != nil || isReceiver(q.Parent(), q) || isCtxParam(q) || strings.HasSuffix(q.Type().String(), "ValAddress") {
								continue
							}
							handed = append(handed, ap.String())
						}
					}
					sort.Strings(handed)
					o.Check("C12.R4", "Jail|protection totals are counted at the time of the jailing", ok1 && ok2 && len(handed) == 0, w.Pos(s.Instr.Pos()),
						"active count and total power must be computed from the staking state inside the jailing call; values handed in by the caller ("+strings.Join(handed, ",")+") are stale after the first jailing of a sweep, so later validators are judged against a set that no longer exists")
				}
			}
		}
		o.Count("C12.R4 slashing Jail sites", n, 1)
		// the jail record that determines the escalation is read and written under one key
		var getK, setK []ssa.Value
		for _, s := range CallsDeep(jail) {
			if len(s.Args()) < 2 {
				continue
			}
			recvT := ""
			if s.Common().IsInvoke() {
				recvT = s.Common().Value.Type().String()
			}
			if !strings.Contains(recvT, "JailRecord") && !strings.Contains(s.Callee.Recv, "JailRecord") {
				continue
			}
			switch s.Callee.Name {
			case "Get":
				getK = append(getK, canon(s.Args()[len(s.Args())-1]))
			case "Set":
				setK = append(setK, canon(s.Args()[len(s.Args())-2]))
			}
		}
		same := len(getK) == 1 && len(setK) == 1 && getK[0] == setK[0]
		o.Check("C12.R4", "Jail|the jail record is read and written under the same key", same, w.Pos(jail.Pos()),
			"the sentence escalates from the record found for the validator; if the lookup key is not the very value the record is stored under, the record is never found and every sentence restarts at the base duration; lookup keys "+valNames(getK)+" store keys "+valNames(setK))
	}
}

func intsToString(v []int64) string {
	var s []string
	for _, x := range v {
		s = append(s, itoa(int(x/1e9))+"s")
	}
	return strings.Join(s, ",")
}

// semverRefuses: some If on semver.Compare(...) < 0 whose true edge reaches no success return.
func semverRefuses(fl *Flow, f *ssa.Function) bool {
	// fact form (also sees a version predicate extracted into a helper): every success return is dominated
	// by semver.Compare(..) >= 0
	if rets := SuccessReturns(f); len(rets) > 0 {
		all := true
		for r := range rets {
			held := false
			for _, fa := range FactsAt(r) {
				if fa.Kind == FCmp && fa.Op == token.GEQ {
					if k, isC := canon(fa.Y).(*ssa.Const); isC && k.Value != nil && k.Int64() == 0 &&
						fl.DependsOnCall(fa.X, isCallee("golang.org/x/mod/semver", "", "Compare")) != nil {
						held = true
					}
				}
			}
			if !held {
				all = false
			}
		}
		if all {
			return true
		}
	}
	for _, b := range f.Blocks {
		iff, ok := b.Instrs[len(b.Instrs)-1].(*ssa.If)
		if !ok {
			continue
		}
		bo, ok := canon(iff.Cond).(*ssa.BinOp)
		if !ok || bo.Op != token.LSS {
			continue
		}
		if fl.DependsOnCall(bo.X, isCallee("golang.org/x/mod/semver", "", "Compare")) == nil {
			continue
		}
		if c, ok := bo.Y.(*ssa.Const); !ok || c.Int64() != 0 {
			continue
		}
		if ReachFromTop(f, b.Succs[0], SuccessReturns(f), nil) == nil {
			return true
		}
	}
	return false
}

func rulesC13(w *World, o *Out) {
	fl := NewFlow(w)
	o.Rule("C13.R1", "every function that writes a batch (new or rewritten) archives the checkpoint of the batch as written on every success path; the archive is append-only")
	o.Rule("C13.R2", "bad-signature evidence jails only when the checkpoint is not archived, and the jailed validator is the one recovered from the signature over that checkpoint")
	o.Rule("C13.R3", "prune-time jailing happens only past the 10 % floor (10·votes >= total, exactly), only for snapshot validators without evidence; the set of functions that can jail is frozen by shape")

	muts := w.StoreMuts(fl)
	genesis := w.Reach(entryFns(w.EntriesOf("genesis")), nil)
	runtime := w.Reach(entryFns(w.EntriesOf("msg", "abci", "ante", "gov", "wasm", "hook")), nil)
	storeB := w.Func(skw, "Keeper", "StoreBatch")
	// batch writers: direct Set on the batch key, and callers of StoreBatch
	type wsite struct {
		f  *ssa.Function
		in ssa.Instruction
	}
	var writers []wsite
	for _, m := range muts {
		if m.Has("call:x/skyway/types.GetOutgoingTxBatchKey") && m.Op == "Set" {
			f := TopFunc(m.Site.Fn)
			if f == storeB {
				continue
			}
			writers = append(writers, wsite{f, m.Site.Instr})
		}
	}
	if storeB != nil {
		for _, s := range w.CallersOf(func(c Callee) bool { return c.Static == storeB }) {
			writers = append(writers, wsite{TopFunc(s.Fn), s.Instr})
		}
	}
	n := 0
	for _, ws := range writers {
		if genesis[ws.f] != nil && runtime[ws.f] == nil {
			o.Note("C13.R1", w.FuncKey(ws.f)+"|genesis import", w.Pos(ws.in.Pos()), "outside the property's quantifier (state imported at genesis)")
			continue
		}
		n++
		o.Analysed(w.FuncKey(ws.f))
		arch := FindCalls(ws.f, false, isCallee(skw, "Keeper", "SetPastEthSignatureCheckpoint"))
		// order-insensitive: no path entry -> write -> success return that avoids the archive call altogether
		ok := len(arch) > 0 && (ReachAvoiding(ws.f, ws.in, SuccessReturns(ws.f), siteSet(arch)) == nil ||
			ReachAvoiding(ws.f, nil, map[ssa.Instruction]bool{ws.in: true}, siteSet(arch)) == nil)
		d := "every success path after writing the batch must pass SetPastEthSignatureCheckpoint"
		if ok {
			for _, a := range arch {
				args := a.Args()
				if fl.DependsOnCall(args[len(args)-1], isCallee("", "", "GetCheckpoint")) == nil {
					ok = false
					d = "the archived value must be the GetCheckpoint of the batch written"
				}
			}
		}
		o.Check("C13.R1", w.FuncKey(ws.f)+"|issued checkpoint is archived", ok, w.Pos(ws.in.Pos()),
			d+"; otherwise a validator's genuine signature over the published checkpoint can later be submitted as bad-signature evidence against it")
		// ... of the batch as written: whatever parameter content the archived checkpoint's batch is read from must
		// also be what the written batch is read from (a stale copy handed in by the caller is not the batch written)
		if ok {
			var written ssa.Value
			if c, isC := ws.in.(ssa.CallInstruction); isC {
				if a := c.Common().Args; len(a) > 0 {
					written = a[len(a)-1]
				}
			}
			wAps, _ := fl.Influence(written)
			okSame := written != nil
			detail := ""
			for _, a := range arch {
				gc := fl.DependsOnCall(a.Args()[len(a.Args())-1], isCallee("", "", "GetCheckpoint"))
				if gc == nil || len(gc.Call.Args) == 0 {
					continue
				}
				rAps, _ := fl.Influence(gc.Call.Args[0])
				// a receiver named by a parameter of a helper introduced later: the argument at the call in ws.f
				mapped := map[AP]bool{}
				for ap := range rAps {
					q, isP := ap.Root.(*ssa.Parameter)
					if isP && q.Parent() != ws.f && isNewHelper(q.Parent()) {
						if via, okV := viaOf[viaKey{ws.f, a.Instr}]; okV {
							if vc, isVC := via.(ssa.CallInstruction); isVC && vc.Common().StaticCallee() == q.Parent() {
								for i, hp := range q.Parent().Params {
									if hp == q && i < len(vc.Common().Args) {
										x, _ := fl.Influence(vc.Common().Args[i])
										for xa := range x {
											mapped[AP{xa.Root, xa.Path + ap.Path}] = true
										}
									}
								}
								continue
							}
						}
					}
					mapped[ap] = true
				}
				for ap := range mapped {
					q, isP := ap.Root.(*ssa.Parameter)
					if !isP || q.Parent() != ws.f || isReceiver(ws.f, q) || isCtxParam(q) {
						continue
					}
					covered := false
					for wp := range wAps {
						// compared by the field of the parameter that is read ("" = the parameter as a whole)
						if wp.Root == ap.Root && (firstSeg(wp.Path) == firstSeg(ap.Path) || wp.Path == "") {
							covered = true
						}
					}
					if !covered {
						okSame = false
						detail = "the archived checkpoint reads " + ap.String() + ", which the written batch does not derive from"
					}
				}
			}
			o.Check("C13.R1", w.FuncKey(ws.f)+"|the archived checkpoint is that of the batch written", okSame, w.Pos(ws.in.Pos()),
				"the checkpoint put into the archive must be computed from the batch that is written (after a gas estimate is elected: the re-read, updated batch), not from another copy. "+detail)
		}
	}
	o.Count("C13.R1 batch write sites outside genesis", n, 2)
	// ... and nothing else issues a checkpoint: a function of the bridge keeper that puts a (re)computed checkpoint
	// into a batch's BytesToSign -- what validators are served for signing -- archives it
	nBts := 0
	for _, f := range w.ProdFuncs {
		if f.Parent() != nil || !strings.HasSuffix(funcPkgPath(f), "/"+skw) {
			continue
		}
		for _, g := range unitFuncs(f) {
			for _, b := range g.Blocks {
				for _, in := range b.Instrs {
					st, isSt := in.(*ssa.Store)
					if !isSt {
						continue
					}
					fa, isFA := st.Addr.(*ssa.FieldAddr)
					if !isFA || fieldName(fa.X.Type(), fa.Field) != "BytesToSign" {
						continue
					}
					if fl.DependsOnCall(st.Val, isCallee("", "", "GetCheckpoint")) == nil {
						continue
					}
					nBts++
					// (a helper introduced later is judged by the functions that call it)
					tops := []*ssa.Function{f}
					if isNewHelper(f) {
						if rc := rootCallers(f); len(rc) > 0 {
							tops = rc
						}
					}
					okArch := true
					for _, tf := range tops {
						if len(FindCalls(tf, true, isCallee(skw, "Keeper", "SetPastEthSignatureCheckpoint"))) == 0 {
							okArch = false
						}
					}
					o.Check("C13.R1", w.FuncKey(tops[0])+"|a checkpoint put into BytesToSign is archived", okArch, w.Pos(st.Pos()), "the bytes a validator is given to sign must be in the archive of legitimate checkpoints, otherwise its confirmation can be replayed as bad-signature evidence")
				}
			}
		}
	}
	o.Count("C13.R1 BytesToSign assignments in the bridge keeper", nBts, 1)
	// every stored evidence entry counts as "supplied": the lookup of suppliers is not filled under a condition on
	// the entry's content
	if jm := w.MustFunc(o, "x/consensus/keeper", "Keeper", "jailValidatorsWhichMissedAttestation"); jm != nil {
		nLk := 0
		for _, g := range unitFuncs(jm) {
			for _, b := range g.Blocks {
				for _, in := range b.Instrs {
					mu, isMU := in.(*ssa.MapUpdate)
					if !isMU {
						continue
					}
					if fl.DependsOnCall(mu.Key, func(c Callee) bool { return c.Name == "GetValAddress" || c.Name == "String" }) == nil {
						if nm, _ := loadedField(mu.Key); nm != "ValAddress" {
							continue
						}
					}
					nLk++
					var cond []string
					for _, f := range FactsAt(mu) {
						for _, v := range []ssa.Value{f.V, f.X, f.Y} {
							if v == nil {
								continue
							}
							if nm, _ := loadedField(v); nm == "Proof" {
								cond = append(cond, "Proof")
							}
							for _, cb := range callsBehind(v) {
								if cal, okc := CalleeOf(cb.Common()); okc && cal.Name == "GetProof" {
									cond = append(cond, "GetProof()")
								}
							}
						}
					}
					o.Check("C13.R3", "jailValidatorsWhichMissedAttestation|every stored evidence entry counts as supplied", len(cond) == 0, w.Pos(mu.Pos()), "the supplier lookup is filled under a condition on "+strings.Join(cond, ",")+": a validator whose evidence was accepted and stored is then jailed for not having supplied any")
				}
			}
		}
		// (the lookup built in one go by util/slice.MakeMapKeys over the evidence has no per-entry condition at all)
		for _, c := range CallsIn(jm) {
			if strings.HasSuffix(c.Callee.Pkg, "util/slice") && strings.HasPrefix(c.Callee.Name, "MakeMapKeys") {
				nLk++
			}
		}
		o.Count("C13.R3 supplier lookup writes", nLk, 1)
	}
	// evidence that was acknowledged is evidence that is stored: prune-time jailing looks at the stored entries
	if ae := w.MustFunc(o, "x/consensus/keeper", "msgServer", "AddEvidence"); ae != nil {
		o.Analysed(w.FuncKey(ae))
		sites := FindCalls(ae, false, isCallee("x/consensus/keeper", "Keeper", "AddMessageEvidence"))
		bad := ReachAvoiding(ae, nil, SuccessReturns(ae), siteSet(sites))
		o.Check("C13.R3", "AddEvidence|a successful MsgAddEvidence stored the evidence", len(sites) > 0 && bad == nil, w.Pos(ae.Pos()), "a success return that does not pass AddMessageEvidence tells the validator its evidence was taken while nothing was stored; at prune time it is jailed for not having supplied any")
	}
	for _, m := range muts {
		if m.Has("call:x/skyway/types.GetPastEthSignatureCheckpointKey") || m.Has("global:PastEthSignatureCheckpointKey") {
			if m.Op == "Delete" {
				o.Fail("C13.R1", w.FuncKey(TopFunc(m.Site.Fn))+"|archive entry deleted", w.Pos(m.Site.Instr.Pos()), "the checkpoint archive is append-only: a removed checkpoint turns genuine confirmations into punishable evidence")
			}
		}
	}

	// ---- R2 ----
	cbe := w.MustFunc(o, skw, "Keeper", "checkBadSignatureEvidenceInternal")
	if cbe != nil {
		o.Analysed(w.FuncKey(cbe))
		js := FindCalls(cbe, false, func(c Callee) bool { return (c.Name == "Jail" || c.Name == "Slash") && c.Iface })
		o.Count("C13.R2 punishment sites", len(js), 2)
		for _, s := range js {
			pos := w.Pos(s.Instr.Pos())
			g := GuardBool(s.Instr, isCallee(skw, "Keeper", "GetPastEthSignatureCheckpoint"), false)
			ok := g != nil
			if ok {
				// archived lookup and signature recovery use the same checkpoint value
				rec := FindCalls(cbe, false, isCallee("x/skyway/types", "", "EthAddressFromSignature"))
				ok = len(rec) > 0
				for _, r := range rec {
					if canon(r.Args()[0]) != canon(g.Call.Args[len(g.Call.Args)-1]) {
						ok = false
					}
				}
			}
			o.Check("C13.R2", "checkBadSignatureEvidenceInternal|"+s.Callee.Name+" only for a checkpoint that was never issued", ok, pos, "must be dominated by GetPastEthSignatureCheckpoint(checkpoint) == false for the checkpoint the signer is recovered from")
			// the punished validator derives from the recovered address
			args := s.Args()
			okV := fl.DependsOnCall(args[2], isCallee(skw, "Keeper", "GetValidatorByEthAddress")) != nil &&
				fl.DependsOnCall(args[2], isCallee("x/skyway/types", "", "EthAddressFromSignature")) != nil
			o.Check("C13.R2", "checkBadSignatureEvidenceInternal|"+s.Callee.Name+" hits the signer recovered from the signature", okV, pos, "the consensus address must come from GetValidatorByEthAddress(EthAddressFromSignature(checkpoint, sig))")
		}
		gp := w.MustFunc(o, skw, "Keeper", "GetPastEthSignatureCheckpoint")
		sp := w.MustFunc(o, skw, "Keeper", "SetPastEthSignatureCheckpoint")
		if gp != nil && sp != nil {
			k1 := FindCalls(gp, false, isCallee("x/skyway/types", "", "GetPastEthSignatureCheckpointKey"))
			k2 := FindCalls(sp, false, isCallee("x/skyway/types", "", "GetPastEthSignatureCheckpointKey"))
			o.Check("C13.R2", "checkpoint archive|reader and writer use the same key", len(k1) > 0 && len(k2) > 0, w.Pos(gp.Pos()), "both must address GetPastEthSignatureCheckpointKey(checkpoint)")
		}
	}

	checkpointProvenance(w, o, fl, "C13.R2")

	// ---- R3 ----
	jv := w.MustFunc(o, "x/consensus/keeper", "Keeper", "jailValidatorsWhichMissedAttestation")
	if jv != nil {
		o.Analysed(w.FuncKey(jv))
		js := FindCalls(jv, false, func(c Callee) bool { return c.Name == "Jail" })
		o.Count("C13.R3 prune-time Jail sites", len(js), 1)
		// the 10 % floor closure
		var floor *ssa.Function
		cands := append([]*ssa.Function{}, jv.AnonFuncs...)
		if u := unitOf(jv); len(u) > 1 {
			cands = append(cands, u[1:]...) // the predicate may have been given a name
		}
		for _, an := range cands {
			for _, s := range CallsIn(an) {
				if _, ok := cmpMethods[s.Callee.Name]; ok && s.Callee.Pkg == "cosmossdk.io/math" {
					floor = an
				}
			}
		}
		okFloor := false
		why := "no comparison of total votes with total shares found"
		if floor != nil {
			nm := &Normer{w: w, Leaf: func(v ssa.Value) string {
				if n, _ := loadedField(v); n == "TotalVotes" {
					return "votes"
				} else if n == "TotalShares" {
					return "total"
				}
				return ""
			}}
			for _, r := range Returns(floor) {
				v := r.Ret.Results[0]
				if _, isC := boolConst(v); isC {
					continue
				}
				rel := nm.RelOf(v)
				op, ratio, ok := rel.Canon("votes", "total")
				if ok && op == token.LSS && ratio.Cmp(big.NewRat(1, 10)) == 0 && rel.FloorExact() {
					okFloor = true
				} else if ok {
					why = "normal form: votes " + op.String() + " " + ratio.RatString() + "·total, exact=" + map[bool]string{true: "yes", false: "no (truncating division)"}[rel.FloorExact()] + "; want votes < 1/10·total exactly"
				} else {
					why = "not a comparison of votes with total: " + rel.L.String() + " ? " + rel.R.String()
				}
			}
		}
		o.Check("C13.R3", "jailValidatorsWhichMissedAttestation|'likely faulty' is exactly votes < total/10", okFloor, w.Pos(jv.Pos()), why)
		for _, s := range js {
			pos := w.Pos(s.Instr.Pos())
			okF := false
			for _, f := range FactsAt(s.Instr) {
				if f.Kind == FFalse {
					if c, ok := canon(f.V).(*ssa.Call); ok {
						if mc, ok := c.Call.Value.(*ssa.MakeClosure); ok && mc.Fn == floor {
							okF = true
						}
						if floor != nil && c.Call.StaticCallee() == floor {
							okF = true
						}
					}
				}
			}
			o.Check("C13.R3", "jailValidatorsWhichMissedAttestation|nobody jailed below the 10 % floor", okF, pos, "Jail must be dominated by likelyFaultyMsg == false")
			// the totals the floor is computed from: every Result VerifyEvidence hands back carries the
			// totals taken from the snapshot tally (an early return with a fresh Result has non-nil zero
			// totals, which the zero-value test of the floor does not recognise as "no votes")
			if ve := w.MustFunc(o, "util/libcons", "ConsensusChecker", "VerifyEvidence"); ve != nil {
				tf := siteSet(FindCalls(ve, false, func(c Callee) bool { return c.Name == "totalFromConsensus" }))
				okT := len(tf) > 0
				for _, r := range Returns(ve) {
					if len(r.Ret.Results) < 1 || isNilConst(canon(r.Ret.Results[0])) {
						continue
					}
					if ReachAvoiding(ve, nil, map[ssa.Instruction]bool{r.Ret: true}, tf) != nil {
						okT = false
					}
				}
				o.Check("C13.R3", "VerifyEvidence|every returned result carries the tallied totals", okT, w.Pos(ve.Pos()),
					"a non-nil Result must have passed totalFromConsensus; the jailing floor reads TotalVotes / TotalShares from it")
			}
			okE := false
			for _, f := range FactsAt(s.Instr) {
				if f.Kind == FFalse {
					if ex, ok := canon(f.V).(*ssa.Extract); ok {
						if lk, ok := ex.Tuple.(*ssa.Lookup); ok {
							// the lookup map is filled from msg.GetEvidence()
							if fl.DependsOnCall(lk.X, isCallee("", "", "GetEvidence")) != nil || mapFilledFrom(fl, lk.X, "GetEvidence") {
								okE = true
							}
						}
					}
				}
			}
			o.Check("C13.R3", "jailValidatorsWhichMissedAttestation|validators that supplied evidence are not jailed", okE, pos, "Jail must be dominated by 'not found' in the set built from the message's evidence")
			aps, _ := fl.Influence(s.Args()[2])
			okS := false
			for a := range aps {
				if strings.Contains(a.Path, ".Validators[]") {
					okS = true
				}
			}
			if fl.DependsOnCall(s.Args()[2], isCallee("", "", "GetCurrentSnapshot")) == nil {
				okS = false
			}
			o.Check("C13.R3", "jailValidatorsWhichMissedAttestation|only validators of the current snapshot", okS, pos, "the jailed address must be an element of GetCurrentSnapshot().Validators")
		}
	}
	if pv := w.Func("x/consensus/keeper", "Keeper", "punishValidatorForMissingRelay"); pv != nil {
		o.Check("C13.R3", "punishValidatorForMissingRelay|jails nobody", len(FindCalls(pv, true, func(c Callee) bool { return c.Name == "Jail" })) == 0, w.Pos(pv.Pos()), "missing a relay must not jail")
	}
	// who can jail: frozen by count per package (role: reason constants differ)
	nj := 0
	var where []string
	for _, s := range w.CallersOf(func(c Callee) bool {
		return c.Name == "Jail" && (c.Is(vsk, "Keeper", "Jail") || (c.Iface && strings.HasPrefix(c.Pkg, modPath)))
	}) {
		nj++
		where = append(where, w.FuncKey(TopFunc(s.Fn)))
	}
	o.Note("C13.R3", "jail call sites", "-", itoa(nj)+" module call sites can jail: "+strings.Join(where, ", "))
}

// mapFilledFrom: map value m (MakeMap) receives keys derived from a call named callee.
func mapFilledFrom(fl *Flow, m ssa.Value, callee string) bool {
	mm, ok := canon(m).(*ssa.MakeMap)
	if !ok {
		return false
	}
	for _, r := range *mm.Referrers() {
		if mu, ok := r.(*ssa.MapUpdate); ok {
			if fl.DependsOnCall(mu.Key, isCallee("", "", callee)) != nil {
				return true
			}
		}
	}
	return false
}

func valNames(vs []ssa.Value) string {
	var out []string
	for _, v := range vs {
		out = append(out, v.Name()+"="+v.String())
	}
	return "[" + strings.Join(out, "; ") + "]"
}

// firstSeg: the first field of an access path (".A.B[]" -> ".A"; "" stays "").
func firstSeg(p string) string {
	if p == "" {
		return ""
	}
	for i := 1; i < len(p); i++ {
		if p[i] == '.' || p[i] == '[' {
			return p[:i]
		}
	}
	return p
}
