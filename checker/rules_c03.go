package main

// C03 — only the principal (or governance) can change state held in its name.

import (
	"go/token"
	"go/types"
	"sort"
	"strings"

	"golang.org/x/tools/go/ssa"
)

func init() { register("C03", rulesC03) }

// T1: address parsers.
func isAddrParser(c Callee) bool {
	switch {
	case c.Pkg == "github.com/cosmos/cosmos-sdk/types" && (c.Name == "AccAddressFromBech32" || c.Name == "ValAddressFromBech32" ||
		c.Name == "MustAccAddressFromBech32" || c.Name == "ConsAddressFromBech32" || c.Name == "AccAddressFromHexUnsafe"):
		return true
	case c.Name == "StringToBytes" && (c.Recv == "Codec" || c.Iface):
		return true
	case c.Pkg == modPath+"/util/keeper" && c.Name == "ValAddressFromBech32":
		return true
	}
	return false
}

type idUse struct {
	path string // request-relative path, e.g. ".Orchestrator"
	pos  string
	fn   string
}

// identityFields: request-relative access paths that reach an address parser in the handler's
// module call tree (forward, context-sensitive propagation of request paths into callee parameters).
func identityFields(w *World, fl *Flow, h *ssa.Function, depthLimit int) []idUse {
	var out []idUse
	seenUse := map[string]bool{}
	type ctxKey struct {
		fn  *ssa.Function
		sig string
	}
	visited := map[ctxKey]bool{}
	cg := w.CG()
	var visit func(fn *ssa.Function, bind map[*ssa.Parameter][]string, depth int)
	translate := func(fn *ssa.Function, bind map[*ssa.Parameter][]string, v ssa.Value) []string {
		aps := fl.InfluenceRaw(v)
		m := map[string]bool{}
		for a := range aps {
			p, ok := a.Root.(*ssa.Parameter)
			if !ok {
				continue
			}
			for _, base := range bind[p] {
				tmp := APSet{}
				tmp.add(APSet{AP{p, base}: true}, a.Path)
				for t := range tmp {
					m[t.Path] = true
				}
			}
		}
		var res []string
		for k := range m {
			res = append(res, k)
		}
		sort.Strings(res)
		return res
	}
	visit = func(fn *ssa.Function, bind map[*ssa.Parameter][]string, depth int) {
		var sigParts []string
		for p, v := range bind {
			sigParts = append(sigParts, p.Name()+"="+strings.Join(v, "|"))
		}
		sort.Strings(sigParts)
		k := ctxKey{fn, strings.Join(sigParts, ";")}
		if visited[k] || depth > depthLimit {
			return
		}
		visited[k] = true
		for _, g := range WithAnon(fn) {
			// closures see the parent's parameters through free variables; Influence resolves those to the parent's parameters
			for _, s := range CallsIn(g) {
				args := s.Args()
				if isAddrParser(s.Callee) {
					for _, a := range args {
						if bt, ok := a.Type().Underlying().(*types.Basic); !ok || bt.Kind() != types.String {
							continue
						}
						for _, p := range translate(fn, bind, a) {
							key := p + "@" + w.Pos(s.Instr.Pos())
							if !seenUse[key] {
								seenUse[key] = true
								out = append(out, idUse{path: p, pos: w.Pos(s.Instr.Pos()), fn: w.FuncKey(g)})
							}
						}
					}
					continue
				}
				// callees
				var targets []*ssa.Function
				if s.Callee.Static != nil {
					targets = append(targets, s.Callee.Static)
				} else if n := cg.Nodes[g]; n != nil {
					for _, e := range n.Out {
						if e.Site == s.Instr && e.Callee.Func != nil {
							targets = append(targets, e.Callee.Func)
						}
					}
				}
				for _, t := range targets {
					if !w.followable(t) || len(t.Blocks) == 0 || t.Parent() != nil {
						continue
					}
					nb := map[*ssa.Parameter][]string{}
					any := false
					for i, a := range args {
						if i >= len(t.Params) {
							break
						}
						tr := translate(fn, bind, a)
						if len(tr) > 0 {
							// keep the set small
							if len(tr) > 12 {
								tr = tr[:12]
							}
							nb[t.Params[i]] = tr
							any = true
						}
					}
					if any {
						visit(t, nb, depth+1)
					}
				}
			}
		}
	}
	if len(h.Params) < 3 {
		return nil
	}
	req := h.Params[len(h.Params)-1]
	visit(h, map[*ssa.Parameter][]string{req: {""}}, 0)
	sort.Slice(out, func(i, j int) bool { return out[i].path+out[i].pos < out[j].path+out[j].pos })
	return out
}

// T4: identity-bearing request fields that name a beneficiary / object, not the actor.
var c03Beneficiary = map[string]string{
	"MsgChangeAdmin.NewAdmin":                                "the new admin is the object of the hand-over; the actor is the current admin (creator-checked, C16)",
	"MsgAddLightNodeClientLicense.ClientAddress":             "the licensee is the beneficiary; the payer is the creator",
	"MsgSendToPalomaClaim.PalomaReceiver":                    "claim payload: the deposit's receiver as observed on the remote chain",
	"MsgSendToRemote.EthDest":                                "destination on the remote chain",
	"MsgAddLightNodeClientFunders.Funders":                   "governance-set list of funder accounts (authority-guarded)",
	"MsgSetLegacyLightNodeClients":                           "",
	"MsgSubmitBadSignatureEvidence.Subject":                  "evidence payload; the punished validator is derived from the signature itself (C13)",
	"MsgLightNodeSaleClaim.ClientAddress":                    "claim payload: the buyer observed on the remote chain",
	"MsgUpdateParams.Params.GasExemptAddresses":              "governance-set parameter list (authority-guarded)",
	"MsgReplenishLostGrainsProposal":                         "",
	"MsgSetERC20ToTokenDenom":                                "",
	"MsgMint.Amount.Denom":                                   "the factory/<creator>/<sub> denomination names the token, not the actor; control is the admin check against the creator (C16)",
	"MsgBurn.Amount.Denom":                                   "the factory/<creator>/<sub> denomination names the token, not the actor; control is the admin check against the creator (C16)",
	"MsgSetERC20ToTokenDenom.Denom":                          "the denomination names the token; the handler requires the creator to be the token's admin",
	"MsgAddExternalChainInfoForValidator.ChainInfos.Address": "remote-chain account of the creator's own validator",
}

// creatorEqualityGuard: a function compares request path `p` with Metadata.Creator and refuses on mismatch.
func creatorEqualityGuard(fl *Flow, f *ssa.Function, recvOrReq *ssa.Parameter, p string) bool {
	if f == nil {
		return false
	}
	for _, b := range f.Blocks {
		iff, ok := b.Instrs[len(b.Instrs)-1].(*ssa.If)
		if !ok {
			continue
		}
		bo, ok := canon(iff.Cond).(*ssa.BinOp)
		if !ok || (bo.Op != token.NEQ && bo.Op != token.EQL) {
			continue
		}
		has := func(v ssa.Value, suffix string) bool {
			aps, _ := fl.Influence(v)
			for a := range aps {
				if pr, ok := a.Root.(*ssa.Parameter); ok && pr == recvOrReq && a.Path == suffix {
					return true
				}
			}
			return false
		}
		for _, pair := range [][2]ssa.Value{{bo.X, bo.Y}, {bo.Y, bo.X}} {
			if has(pair[0], p) && has(pair[1], ".Metadata.Creator") {
				// mismatch edge must lead to an error return only
				mis := 0
				if bo.Op == token.EQL {
					mis = 1
				}
				if ReachFromTop(f, b.Succs[mis], SuccessReturns(f), nil) == nil {
					return true
				}
			}
		}
	}
	return false
}

// firstFieldOf: the first component of path p is a field of the request struct.
func firstFieldOf(t types.Type, p string) bool {
	n := namedOf(t)
	if n == nil {
		return false
	}
	st, ok := n.Underlying().(*types.Struct)
	if !ok {
		return false
	}
	f := strings.TrimPrefix(p, ".")
	if i := strings.IndexAny(f, ".["); i >= 0 {
		f = f[:i]
	}
	for i := 0; i < st.NumFields(); i++ {
		if st.Field(i).Name() == f {
			return true
		}
	}
	return false
}

// creatorEqualityViaHelper: f passes (p, Metadata.Creator) to a module helper that refuses on mismatch, and propagates its error.
func creatorEqualityViaHelper(w *World, fl *Flow, f *ssa.Function, recvOrReq *ssa.Parameter, p string) bool {
	if f == nil {
		return false
	}
	has := func(v ssa.Value, suffix string) bool {
		aps, _ := fl.Influence(v)
		for a := range aps {
			if pr, ok := a.Root.(*ssa.Parameter); ok && pr == recvOrReq && a.Path == suffix {
				return true
			}
		}
		return false
	}
	for _, s := range CallsIn(f) {
		g := s.Callee.Static
		if g == nil || !w.IsProd(g) || len(g.Blocks) == 0 {
			continue
		}
		ip, ic := -1, -1
		for i, a := range s.Args() {
			if has(a, p) && !has(a, ".Metadata.Creator") {
				ip = i
			}
			if has(a, ".Metadata.Creator") && !has(a, p) {
				ic = i
			}
		}
		if ip < 0 || ic < 0 || ip >= len(g.Params) || ic >= len(g.Params) {
			continue
		}
		pp, pc := g.Params[ip], g.Params[ic]
		refuses := false
		for _, b := range g.Blocks {
			iff, ok := b.Instrs[len(b.Instrs)-1].(*ssa.If)
			if !ok {
				continue
			}
			bo, ok := canon(iff.Cond).(*ssa.BinOp)
			if !ok || (bo.Op != token.NEQ && bo.Op != token.EQL) {
				continue
			}
			x, y := canon(bo.X), canon(bo.Y)
			if !((x == ssa.Value(pp) && y == ssa.Value(pc)) || (x == ssa.Value(pc) && y == ssa.Value(pp))) {
				continue
			}
			mis := 0
			if bo.Op == token.EQL {
				mis = 1
			}
			if ReachFromTop(g, b.Succs[mis], SuccessReturns(g), nil) == nil {
				refuses = true
			}
		}
		if !refuses {
			continue
		}
		if ft, _ := errorFate(f, s); ft == fatePropagates {
			return true
		}
	}
	return false
}

// creatorEqualityByFacts: every success return of f is dominated by `<request path p> == Metadata.Creator`,
// possibly established inside a guard helper whose parameters are bound at the guarding call.
func creatorEqualityByFacts(fl *Flow, f *ssa.Function, req *ssa.Parameter, p string) bool {
	if f == nil {
		return false
	}
	rets := SuccessReturns(f)
	if len(rets) == 0 {
		return false
	}
	has := func(fa Fact, v ssa.Value, suffix string) bool {
		aps, _ := fl.Influence(v)
		for a := range aps {
			pr, ok := a.Root.(*ssa.Parameter)
			if !ok {
				continue
			}
			if pr == req && a.Path == suffix {
				return true
			}
			// a parameter of the guard helper: continue at the argument of the guarding call
			if fa.Bind != nil {
				if h := fa.Bind.StaticCallee(); h != nil && pr.Parent() == h {
					for i, q := range h.Params {
						if q == pr && i < len(fa.Bind.Args) {
							a2, _ := fl.Influence(fa.Bind.Args[i])
							for x := range a2 {
								if xr, ok := x.Root.(*ssa.Parameter); ok && xr == req && x.Path+a.Path == suffix {
									return true
								}
							}
						}
					}
				}
			}
		}
		return false
	}
	for r := range rets {
		held := false
		for _, fa := range FactsAt(r) {
			if fa.Kind != FCmp || fa.Op != token.EQL {
				continue
			}
			for _, pr := range [][2]ssa.Value{{fa.X, fa.Y}, {fa.Y, fa.X}} {
				if has(fa, pr[0], p) && has(fa, pr[1], ".Metadata.Creator") {
					held = true
				}
			}
		}
		if !held {
			return false
		}
	}
	return true
}

func reqTypeName(e Entry) string {
	if n := namedOf(e.Req); n != nil {
		return n.Obj().Name()
	}
	return "?"
}

func rulesC03(w *World, o *Out) {
	fl := NewFlow(w)
	o.Rule("C03.R1", "every Msg request type carries Metadata (GetMetadata), and the application's ante chain installs the authorised-signature decorator")
	o.Rule("C03.R2", "the decorator accepts a message only if a signer is its creator or appears among the fee-grantees of that same creator: the grant query is keyed by this message's creator, the lookup structures are rebuilt for every message, and the loop advances only past one of those acceptances")
	o.Rule("C03.R3", "in every Msg handler, each request field other than Metadata.Creator that reaches an address parser in the handler's call tree (an identity-bearing field) is tied to the creator by an equality guard (handler or ValidateBasic), covered by the governance-authority guard, authorised by the validator's external signature over the stored item (ConfirmBatch), or listed as a beneficiary/object with a reason")
	o.Rule("C03.R4", "every governance-style handler (authority-bearing request or *Proposal / UpdateParams) refuses unless a request field equals the keeper's authority")
	o.Rule("C03.R5", "a handler that mutates state has a principal: it reads Metadata.Creator, or is authority-guarded, or is listed")
	o.Rule("C03.R6", "wasm bindings set the creator / sender of the messages they build from the calling contract's address only")

	o.Rule("C03.R7", "the creator check lives in the ante chain, which only sees a transaction's top-level messages: every component wired in app.New with the application's message router (a component that can hand further messages to the module handlers) is classified, and one that executes caller-chosen nested messages must have them unwrapped and checked by the decorator")

	msgs := w.EntriesOf("msg")
	o.Count("C03 Msg handlers", len(msgs), 41)
	rulesC03Nested(w, o)

	// ---- R1 ----
	for _, e := range msgs {
		ok := false
		if e.Req != nil {
			ms := types.NewMethodSet(e.Req)
			for i := 0; i < ms.Len(); i++ {
				if ms.At(i).Obj().Name() == "GetMetadata" {
					ok = true
				}
			}
		}
		o.Check("C03.R1", e.Name+"|request has GetMetadata", ok, w.Pos(e.Fn.Pos()), "the ante decorator only protects messages that expose Metadata")
	}
	deco := w.Func("x/paloma", "", "NewVerifyAuthorisedSignatureDecorator")
	nInst := 0
	if deco != nil {
		for _, s := range w.CallersOf(func(c Callee) bool { return c.Static == deco }) {
			if strings.HasSuffix(funcPkgPath(s.Fn), "/app") {
				nInst++
				// flows into ChainAnteDecorators in a function that also installs the ante handler
				okChain := false
				if cv := s.Value(); cv != nil {
					// result -> (MakeInterface) -> store into a variadic backing array -> slice -> ChainAnteDecorators
					var follow func(v ssa.Value, d int)
					follow = func(v ssa.Value, d int) {
						if d > 10 || v.Referrers() == nil {
							return
						}
						for _, r := range *v.Referrers() {
							switch x := r.(type) {
							case *ssa.MakeInterface:
								follow(x, d+1)
							case *ssa.Store:
								if ia, ok := x.Addr.(*ssa.IndexAddr); ok {
									follow(ia.X, d+1)
								}
							case *ssa.Slice:
								follow(x, d+1)
							case *ssa.Phi:
								follow(x, d+1)
							case ssa.CallInstruction:
								if c, ok := CalleeOf(x.Common()); ok && c.Name == "ChainAnteDecorators" {
									okChain = true
								} else if ok && c.Pkg == "builtin" && c.Name == "append" {
									if cv2, isV := x.(ssa.Value); isV {
										follow(cv2, d+1)
									}
								}
							}
						}
					}
					follow(cv, 0)
				}
				okSet := false
				for _, s2 := range CallsDeep(TopFunc(s.Fn)) {
					if s2.Callee.Name == "SetAnteHandler" {
						okSet = true
					}
				}
				o.Check("C03.R1", "app|authorised-signature decorator is part of the installed ante chain", okChain && okSet, w.Pos(s.Instr.Pos()), "the decorator must be passed to ChainAnteDecorators and the chain installed with SetAnteHandler")
			}
		}
	}
	o.Count("C03.R1 decorator installations in app", nInst, 1)

	// ---- R2 ----
	ah := w.MustFunc(o, "x/paloma", "VerifyAuthorisedSignatureDecorator", "AnteHandle")
	if ah != nil {
		o.Analysed(w.FuncKey(ah))
		rulesC03Ante(w, o, fl, ah)
	}

	// ---- R3 / R4 / R5 ----
	eff := newEffects(w, fl)
	nId := 0
	for _, e := range msgs {
		h := e.Fn
		o.Analysed(w.FuncKey(h))
		rn := reqTypeName(e)
		req := h.Params[len(h.Params)-1]
		authGuard := hasAuthorityGuard(w, h) || authorityGuardViaHelper(w, h)
		isGov := strings.HasSuffix(rn, "Proposal") || strings.HasSuffix(rn, "UpdateParams") || hasMethod(e.Req, "GetAuthority")
		if isGov {
			o.Check("C03.R4", e.Name+"|authority guard", authGuard && (authorityGuardRefuses(w, h) || authorityGuardViaHelper(w, h) || authorityGuardByFacts(h)), w.Pos(h.Pos()), "a governance handler must return an error unless a request field equals the keeper's authority")
		}
		vb := w.methodFn(e.Req, "ValidateBasic")
		ids := identityFields(w, fl, h, 4)
		seenField := map[string]bool{}
		for _, u := range ids {
			p := u.path
			if strings.HasPrefix(p, ".Metadata") || p == "" || !firstFieldOf(e.Req, p) {
				continue
			}
			if seenField[p] {
				continue
			}
			seenField[p] = true
			nId++
			key := e.Name + "|identity field " + rn + p
			switch {
			case authGuard:
				o.Pass("C03.R3", key, u.pos, "handler is guarded by the governance authority")
			case creatorEqualityGuard(fl, h, req, p) || creatorEqualityViaHelper(w, fl, h, req, p) || creatorEqualityByFacts(fl, h, req, p):
				o.Pass("C03.R3", key, u.pos, "handler refuses unless the field equals Metadata.Creator")
			case vb != nil && len(vb.Params) > 0 && creatorEqualityGuard(fl, vb, vb.Params[0], p):
				o.Pass("C03.R3", key, u.pos, "ValidateBasic refuses unless the field equals Metadata.Creator")
			case rn == "MsgConfirmBatch" && p == ".Orchestrator":
				ok, why := confirmBatchSignatureRule(w, fl, h)
				o.Check("C03.R3", key+"|authorised by the validator's external signature", ok, u.pos, why)
			default:
				why, listed := "", false
				for k, v := range c03Beneficiary {
					if v != "" && (rn+p == k || strings.HasPrefix(rn+p, k+".") || strings.HasPrefix(rn+p, k+"[")) {
						why, listed = v, true
					}
				}
				if listed {
					o.Pass("C03.R3", key, u.pos, "beneficiary/object: "+why)
				} else {
					o.Fail("C03.R3", key, u.pos, "request field "+rn+p+" names a principal (parsed as an address in "+u.fn+") but nothing ties it to the transaction's creator: any account can act in the name of the address it writes there")
				}
			}
		}
		// R5
		mut, whyMut := eff.Effectful(h)
		if mut {
			readsCreator := false
			rs := w.Reach([]*ssa.Function{h}, nil)
			for g := range rs {
				for _, s := range CallsIn(g) {
					if s.Callee.Name == "GetCreator" {
						readsCreator = true
					}
				}
				for _, b := range g.Blocks {
					for _, in := range b.Instrs {
						if fa, ok := in.(*ssa.FieldAddr); ok && fieldName(fa.X.Type(), fa.Field) == "Creator" {
							readsCreator = true
						}
						if fi, ok := in.(*ssa.Field); ok && fieldName(fi.X.Type(), fi.Field) == "Creator" {
							readsCreator = true
						}
					}
				}
			}
			ok := readsCreator || authGuard
			if !ok {
				if why, listed := c03Anonymous[e.Name]; listed {
					o.Pass("C03.R5", e.Name+"|has a principal", w.Pos(h.Pos()), "listed: "+why)
					continue
				}
			}
			o.Check("C03.R5", e.Name+"|has a principal", ok, w.Pos(h.Pos()), "the handler mutates state ("+whyMut+") but neither reads Metadata.Creator nor checks the governance authority: any account can perform it")
		}
	}
	o.Count("C03.R3 identity-bearing request fields examined", nId, 8)

	// ---- R8: index entries and reports that belong to somebody else are written only when absent ----
	o.Rule("C03.R8", "state that may already belong to another principal is written only when absent: the ERC20 -> denom binding in SetERC20ToTokenDenom, and a queued message's relay report (public access data / error data), which is attributed to the validator that reported first")
	if h := w.MustFunc(o, skw, "msgServer", "SetERC20ToTokenDenom"); h != nil {
		o.Analysed(w.FuncKey(h))
		sites := FindCalls(h, false, isCallee(skw, "Keeper", "setDenomToERC20"))
		o.Count("C03.R8 setDenomToERC20 sites in the handler", len(sites), 1)
		for _, st := range sites {
			ok := false
			for _, fa := range FactsAt(st.Instr) {
				if fa.Kind != FCmp {
					continue
				}
				for _, pr := range [][2]ssa.Value{{fa.X, fa.Y}, {fa.Y, fa.X}} {
					lc, isCall := canon(pr[0]).(*ssa.Call)
					if !isCall {
						continue
					}
					bi, isB := lc.Call.Value.(*ssa.Builtin)
					k, isC := canon(pr[1]).(*ssa.Const)
					if !isB || bi.Name() != "len" || !isC || k.Value == nil || k.Int64() != 0 {
						continue
					}
					empty := fa.Op == token.EQL || (fa.Op == token.LEQ && pr[0] == fa.X) || (fa.Op == token.GEQ && pr[0] == fa.Y)
					if empty && fl.DependsOnCall(lc.Call.Args[0], isCallee(skw, "Keeper", "GetDenomOfERC20")) != nil {
						ok = true
					}
				}
			}
			o.Check("C03.R8", "SetERC20ToTokenDenom|the ERC20 contract is bound only when it has no binding yet", ok, w.Pos(st.Instr.Pos()),
				"the handler checks that the creator administers the denomination, but the erc20 -> denom index entry it overwrites may belong to another admin or to a governance mapping; the write must be dominated by GetDenomOfERC20(chain, erc20) returning nothing")
		}
	}
	for _, spec := range []struct {
		fn    string
		needs []string
	}{{"SetPublicAccessData", []string{"GetPublicAccessData"}}, {"SetErrorData", []string{"GetErrorData", "GetPublicAccessData"}}} {
		q := w.MustFunc(o, cqp, "Queue", spec.fn)
		if q == nil {
			continue
		}
		o.Analysed(w.FuncKey(q))
		n := 0
		for _, st := range CallsIn(q) {
			if st.Callee.Name != spec.fn || !st.Common().IsInvoke() {
				continue
			}
			n++
			var missing []string
			for _, g := range spec.needs {
				held := false
				for _, fa := range FactsAt(st.Instr) {
					if fa.Kind != FNil {
						continue
					}
					if c, isCall := canon(fa.V).(*ssa.Call); isCall {
						if cal, okc := CalleeOf(c.Common()); okc && cal.Name == g {
							held = true
						}
					}
				}
				if !held {
					missing = append(missing, g+"() == nil")
				}
			}
			o.Check("C03.R8", "Queue."+spec.fn+"|a relay report is recorded only when none exists", len(missing) == 0, w.Pos(st.Instr.Pos()),
				"the report carries the reporting validator's address; once one validator has reported, another validator's transaction must not replace it; missing dominating condition: "+strings.Join(missing, ", "))
		}
		o.Count("C03.R8 report writes in Queue."+spec.fn, n, 1)
	}

	// ---- R6 ----
	nB := 0
	idParam := func(name string) bool {
		n := strings.ToLower(name)
		return n == "creator" || n == "sender" || n == "owner" || n == "senderaddress" || n == "contractaddr" || n == "contractaddress" || n == "signer"
	}
	for _, e := range w.EntriesOf("wasm") {
		f := e.Fn
		if !strings.Contains(funcPkgPath(f), "/bindings") {
			continue
		}
		o.Analysed(w.FuncKey(f))
		rs := w.Reach([]*ssa.Function{f}, nil)
		for g := range rs {
			if !strings.Contains(funcPkgPath(g), "/bindings") || !w.IsProd(g) {
				continue
			}
			check := func(v ssa.Value, pos token.Pos, what string) {
				nB++
				aps, _ := fl.Influence(v)
				ok := true
				var bad []string
				for a := range aps {
					if p, isP := a.Root.(*ssa.Parameter); isP {
						ln := strings.ToLower(p.Name())
						if !strings.Contains(ln, "contract") && ln != "sender" && ln != "ctx" && !isReceiver(p.Parent(), p) {
							ok = false
							bad = append(bad, a.String())
						}
					}
				}
				sort.Strings(bad)
				o.Check("C03.R6", w.FuncKey(g)+"|"+what+" is the calling contract", ok, w.Pos(pos), "the acting identity of a message built for a contract must derive from the contract address only; also influenced by "+strings.Join(bad, ","))
			}
			for _, st := range storesToField(g, "MsgMetadata", "Creator") {
				if st.Parent() == g {
					check(st.Val, st.Pos(), "Metadata.Creator")
				}
			}
			for _, s := range CallsIn(g) {
				t := s.Callee.Static
				if t == nil || !w.IsProd(t) || strings.Contains(funcPkgPath(t), "/bindings") {
					continue
				}
				args := s.Args()
				for i, p := range t.Params {
					if i < len(args) && idParam(p.Name()) {
						check(args[i], s.Instr.Pos(), "argument "+p.Name()+" of "+s.Callee.String())
					}
				}
			}
		}
	}
	o.Count("C03.R6 creator assignments in wasm bindings", nB, 3)
}

var c03Anonymous = map[string]string{
	"skyway.SubmitBadSignatureEvidence": "by design anyone may submit evidence; the punished validator is derived from the signature itself (C13.R2)",
}

func isReceiver(f *ssa.Function, p *ssa.Parameter) bool {
	return f.Signature.Recv() != nil && len(f.Params) > 0 && f.Params[0] == p
}

func hasMethod(t types.Type, name string) bool {
	if t == nil {
		return false
	}
	ms := types.NewMethodSet(t)
	for i := 0; i < ms.Len(); i++ {
		if ms.At(i).Obj().Name() == name {
			return true
		}
	}
	return false
}

// authorityGuardViaHelper: the handler passes the keeper authority to a module helper that refuses (returns an
// error) unless a request field equals it, and the handler propagates that error.
func authorityGuardViaHelper(w *World, h *ssa.Function) bool {
	for _, s := range CallsIn(h) {
		g := s.Callee.Static
		if g == nil || !w.IsProd(g) || len(g.Blocks) == 0 {
			continue
		}
		idx := -1
		for i, a := range s.Args() {
			if isAuthorityValue(a) {
				idx = i
			}
		}
		if idx < 0 || idx >= len(g.Params) {
			continue
		}
		ap := g.Params[idx]
		refuses := false
		for _, b := range g.Blocks {
			iff, ok := b.Instrs[len(b.Instrs)-1].(*ssa.If)
			if !ok {
				continue
			}
			bo, ok := canon(iff.Cond).(*ssa.BinOp)
			if !ok || (bo.Op != token.NEQ && bo.Op != token.EQL) {
				continue
			}
			if canon(bo.X) != ssa.Value(ap) && canon(bo.Y) != ssa.Value(ap) {
				continue
			}
			mis := 0
			if bo.Op == token.EQL {
				mis = 1
			}
			if ReachFromTop(g, b.Succs[mis], SuccessReturns(g), nil) == nil {
				refuses = true
			}
		}
		if !refuses {
			continue
		}
		if ft, _ := errorFate(h, s); ft == fatePropagates {
			return true
		}
	}
	return false
}

// authorityGuardRefuses: the mismatch edge of the authority comparison reaches no success return.
func authorityGuardRefuses(w *World, h *ssa.Function) bool {
	for _, b := range h.Blocks {
		iff, ok := b.Instrs[len(b.Instrs)-1].(*ssa.If)
		if !ok {
			continue
		}
		bo, ok := canon(iff.Cond).(*ssa.BinOp)
		if !ok || (bo.Op != token.NEQ && bo.Op != token.EQL) {
			continue
		}
		if !isAuthorityValue(bo.X) && !isAuthorityValue(bo.Y) {
			continue
		}
		mis := 0
		if bo.Op == token.EQL {
			mis = 1
		}
		if ReachFromTop(h, b.Succs[mis], SuccessReturns(h), nil) == nil {
			return true
		}
	}
	return false
}

// confirmBatchSignatureRule: the identity whose registered remote key verifies the signature is the same
// request field under which the confirmation is stored, the checkpoint is recomputed from the stored batch,
// and the store happens only after the verification succeeded.
func confirmBatchSignatureRule(w *World, fl *Flow, h *ssa.Function) (bool, string) {
	req := h.Params[len(h.Params)-1]
	chc := FindCalls(h, false, isCallee(skw, "msgServer", "confirmHandlerCommon"))
	set := FindCalls(h, false, isCallee(skw, "Keeper", "SetBatchConfirm"))
	if len(chc) == 0 || len(set) == 0 {
		return false, "confirmHandlerCommon / SetBatchConfirm not found in the handler"
	}
	fromField := func(v ssa.Value, suffix string) bool {
		aps, _ := fl.Influence(v)
		for a := range aps {
			if p, ok := a.Root.(*ssa.Parameter); ok && p == req && a.Path == suffix {
				return true
			}
		}
		return false
	}
	for _, c := range chc {
		args := c.Args()
		// (recv, ctx, ethAddress, orchestrator, signature, checkpoint, chain)
		if len(args) < 7 {
			return false, "unexpected confirmHandlerCommon signature"
		}
		if !fromField(args[3], ".Orchestrator") {
			return false, "the validator whose registered key verifies the signature is not derived from msg.Orchestrator, the field the confirmation is stored under"
		}
		if fromField(args[3], ".Metadata.Creator") {
			return false, "verification identity mixes creator and orchestrator"
		}
		if fl.DependsOnCall(args[5], isCallee("", "", "GetCheckpoint")) == nil || fl.DependsOnCall(args[5], isCallee(skw, "Keeper", "GetOutgoingTXBatch")) == nil {
			return false, "the verified checkpoint is not recomputed from the stored batch"
		}
	}
	for _, s := range set {
		if GuardErrNil(s.Instr, isCallee(skw, "msgServer", "confirmHandlerCommon")) == nil {
			return false, "SetBatchConfirm is not dominated by a successful signature verification"
		}
	}
	// inside confirmHandlerCommon: signature verified against the address registered for the orchestrator's validator
	f := w.Func(skw, "msgServer", "confirmHandlerCommon")
	if f == nil {
		return false, "confirmHandlerCommon unresolved"
	}
	ves := FindCalls(f, false, isCallee("x/skyway/types", "", "ValidateEthereumSignature"))
	if len(ves) == 0 {
		return false, "no signature validation in confirmHandlerCommon"
	}
	for _, v := range ves {
		if fl.DependsOnCall(v.Args()[2], isCallee(skw, "Keeper", "GetEthAddressByValidator")) == nil {
			return false, "signature is not verified against the validator's registered remote address"
		}
	}
	for _, r := range Returns(f) {
		if r.Kind == RetError {
			continue
		}
		ok := false
		for _, v := range ves {
			if GuardErrNil(r.Ret, func(c Callee) bool { return c.Static == v.Callee.Static }) != nil {
				ok = true
			}
		}
		if !ok {
			return false, "confirmHandlerCommon can succeed without a valid signature"
		}
	}
	return true, "verified identity == stored identity (msg.Orchestrator); checkpoint from the stored batch; store after verification"
}

func rulesC03Ante(w *World, o *Out, fl *Flow, ah *ssa.Function) {
	// the per-message loop: header of the range over tx.GetMsgs()
	var hdr *ssa.BasicBlock
	for _, b := range ah.Blocks {
		if strings.Contains(b.Comment, "rangeindex.loop") && hdr == nil {
			hdr = b
		}
	}
	if hdr == nil {
		o.Unresolved("per-message loop in VerifyAuthorisedSignatureDecorator.AnteHandle")
		return
	}
	body := map[*ssa.BasicBlock]bool{hdr: true}
	var work []*ssa.BasicBlock
	for _, p := range hdr.Preds {
		if hdr.Dominates(p) {
			work = append(work, p)
		}
	}
	for len(work) > 0 {
		x := work[len(work)-1]
		work = work[:len(work)-1]
		if body[x] {
			continue
		}
		body[x] = true
		work = append(work, x.Preds...)
	}
	// (a) grant query keyed by this message's creator
	q := FindCalls(ah, false, isCallee("", "", "AllowancesByGranter"))
	o.Count("C03.R2 grant queries", len(q), 1)
	for _, s := range q {
		args := s.Args()
		okG := fl.DependsOnCall(args[len(args)-1], isCallee("", "", "GetCreator")) != nil && body[s.Block()]
		// Granter field of the request literal
		okF := false
		for _, st := range storesToField(ah, "QueryAllowancesByGranterRequest", "Granter") {
			if fl.DependsOnCall(st.Val, isCallee("", "", "GetCreator")) != nil {
				okF = true
			}
		}
		o.Check("C03.R2", "AnteHandle|grants are queried for this message's creator", okG && okF, w.Pos(s.Instr.Pos()), "AllowancesByGranter must be called inside the per-message loop with Granter = m.GetMetadata().GetCreator()")
	}
	// (b) lookup structures rebuilt per message
	nMk := 0
	mkOrd := map[string]int{}
	for _, b := range ah.Blocks {
		for _, in := range b.Instrs {
			switch x := in.(type) {
			case *ssa.MakeMap, *ssa.MakeSlice:
				// filled inside the loop?
				filled := false
				v := x.(ssa.Value)
				for _, r := range *v.Referrers() {
					if body[r.Block()] {
						switch rr := r.(type) {
						case *ssa.MapUpdate, *ssa.IndexAddr, *ssa.Slice:
							filled = true
						case *ssa.Call:
							if bi, ok := rr.Call.Value.(*ssa.Builtin); ok && bi.Name() == "append" {
								filled = true
							}
						}
					}
				}
				if !filled {
					continue
				}
				nMk++
				// keyed by type and ordinal in source order, never by SSA register name
				tname := x.(ssa.Value).Type().String()
				mkOrd[tname]++
				ord := ""
				if mkOrd[tname] > 1 {
					ord = "#" + itoa(mkOrd[tname])
				}
				o.Check("C03.R2", "AnteHandle|per-message lookup ("+tname+")"+ord+" is rebuilt for every message", body[b], w.Pos(in.Pos()),
					"a map/slice filled from one message's grants is allocated outside the per-message loop: grantees of an earlier message's creator stay valid for later messages with a different creator")
			}
		}
	}
	o.Count("C03.R2 per-message lookup structures", nMk, 1)
	// (c) loop advances only past an acceptance
	advOrd := 0
	for _, p := range hdr.Preds {
		if !body[p] || !hdr.Dominates(p) {
			continue
		}
		okAdv, how := false, ""
		for _, fa := range DomFacts(p) {
			if !body[fa.Block] {
				continue
			}
			switch fa.Kind {
			case FFalse:
				if ex, ok := canon(fa.V).(*ssa.Extract); ok {
					if _, ok := ex.Tuple.(*ssa.TypeAssert); ok {
						okAdv, how = true, "message carries no metadata"
					}
				}
			case FTrue:
				if c, ok := canon(fa.V).(*ssa.Call); ok {
					if mc, ok := c.Call.Value.(*ssa.MakeClosure); ok {
						if signedByCreatorClosure(mc.Fn.(*ssa.Function)) {
							okAdv, how = true, "signed by the creator"
						}
					}
				}
			case FCmp:
				if fa.Op == token.GEQ {
					if lc, ok := canon(fa.X).(*ssa.Call); ok {
						if b, ok := lc.Call.Value.(*ssa.Builtin); ok && b.Name() == "len" {
							if c, ok := fa.Y.(*ssa.Const); ok && c.Int64() >= 1 {
								if granteesFromLookup(fl, lc.Call.Args[0]) {
									okAdv, how = true, "at least one signer is a grantee of the creator"
								}
							}
						}
					}
				}
			}
		}
		advOrd++
		o.Check("C03.R2", "AnteHandle|next message reached only past an acceptance #"+itoa(advOrd), okAdv, w.Pos(p.Instrs[len(p.Instrs)-1].Pos()),
			"the per-message loop may advance only when the message has no metadata, is signed by its creator, or has a signer among the creator's grantees; "+how)
	}
	// (e) the per-message loop is left towards next() only by exhausting the messages: an exit out of the
	// body (a `break`) that can reach the call of the next handler skips the messages that follow
	isNext := func(b *ssa.BasicBlock) bool {
		for _, in := range b.Instrs {
			if c, ok := in.(ssa.CallInstruction); ok {
				if p, ok := c.Common().Value.(*ssa.Parameter); ok && p.Name() == "next" {
					return true
				}
			}
		}
		return false
	}
	nExit := 0
	for _, b := range ah.Blocks {
		if !body[b] || b == hdr {
			continue
		}
		for _, s := range b.Succs {
			if body[s] {
				continue
			}
			nExit++
			seen := map[*ssa.BasicBlock]bool{}
			stack := []*ssa.BasicBlock{s}
			reaches := false
			for len(stack) > 0 {
				x := stack[len(stack)-1]
				stack = stack[:len(stack)-1]
				if seen[x] {
					continue
				}
				seen[x] = true
				if isNext(x) {
					reaches = true
				}
				stack = append(stack, x.Succs...)
			}
			pos := w.Pos(ah.Pos())
			if len(b.Instrs) > 0 {
				pos = w.Pos(b.Instrs[len(b.Instrs)-1].Pos())
			}
			o.Check("C03.R2", "AnteHandle|the message loop is left only with an error or after the last message #"+itoa(nExit), !reaches, pos,
				"an exit out of the per-message loop body reaches the next handler: the messages after this one are never verified")
		}
	}
	o.Count("C03.R2 exits out of the per-message loop body", nExit, 1)
	// (f) the messages verified include every message wrapped in an authz MsgExec at any depth: the function
	// that opens the envelopes hands what it finds to itself, or walks a work list whose bound is re-read
	nOpen := 0
	for _, s := range FindCalls(ah, false, func(c Callee) bool { return c.Static != nil && strings.HasSuffix(c.Pkg, "x/paloma") && c.Recv == "" }) {
		uf := s.Callee.Static
		gm := FindCalls(uf, false, isCallee("", "MsgExec", "GetMessages"))
		if len(gm) == 0 {
			continue
		}
		for _, g := range gm {
			okRec, how := false, "the messages found in an envelope are not opened themselves"
			for _, rc := range FindCalls(uf, false, func(c Callee) bool { return c.Static == uf }) {
				for _, a := range rc.Args() {
					if fl.DependsOnCall(a, func(c Callee) bool { return c.Name == "GetMessages" && c.Recv == "MsgExec" }) != nil {
						okRec, how = true, "recursive call on the envelope's messages"
					}
				}
			}
			if !okRec {
				// work-list form: the loop that type-tests for MsgExec is bounded by len() of a value that the
				// append of the inner messages flows back into (a phi), re-evaluated on every iteration
				for _, b := range uf.Blocks {
					for _, in := range b.Instrs {
						bo, ok := in.(*ssa.BinOp)
						if !ok || bo.Op != token.LSS {
							continue
						}
						lc, ok := bo.Y.(*ssa.Call)
						if !ok {
							continue
						}
						if bi, ok := lc.Call.Value.(*ssa.Builtin); !ok || bi.Name() != "len" {
							continue
						}
						if _, isPhi := lc.Call.Args[0].(*ssa.Phi); isPhi && b.Dominates(g.Block()) &&
							fl.DependsOnCall(lc.Call.Args[0], func(c Callee) bool { return c.Name == "GetMessages" && c.Recv == "MsgExec" }) != nil {
							okRec, how = true, "work list bounded by its current length"
						}
					}
				}
			}
			o.Check("C03.R2", "AnteHandle|messages inside an authz MsgExec are opened at every depth", okRec, w.Pos(g.Instr.Pos()), how)
			nOpen++
		}
	}
	o.Count("C03.R2 places where the decorator opens an authz envelope", nOpen, 1)
	// (d) next() reached only after the loop completes
	for _, s := range CallsIn(ah) {
		if s.Callee.Name == "<dynamic>" {
			if p, ok := s.Common().Value.(*ssa.Parameter); ok && p.Name() == "next" {
				inLoop := body[s.Block()]
				sim := false
				for _, fa := range FactsAt(s.Instr) {
					if fa.Kind == FTrue {
						if pp, ok := canon(fa.V).(*ssa.Parameter); ok && pp.Name() == "simulate" {
							sim = true
						}
					}
				}
				o.Check("C03.R2", "AnteHandle|next handler invoked only after all messages were checked"+map[bool]string{true: " (simulate)", false: ""}[sim], !inLoop, w.Pos(s.Instr.Pos()), "next() must not be called from inside the per-message loop")
			}
		}
	}
}

// signedByCreatorClosure: returns true only under signer.String() == creator.
func signedByCreatorClosure(f *ssa.Function) bool {
	ok := false
	for _, b := range f.Blocks {
		r, isR := b.Instrs[len(b.Instrs)-1].(*ssa.Return)
		if !isR || len(r.Results) != 1 {
			continue
		}
		if bv, isC := boolConst(r.Results[0]); isC {
			if !bv {
				continue
			}
			good := false
			for _, fa := range DomFacts(b) {
				if fa.Kind == FCmp && fa.Op == token.EQL {
					good = true
				}
			}
			if !good {
				return false
			}
			ok = true
		} else {
			return false
		}
	}
	return ok
}

// granteesFromLookup: the slice is appended only under a successful lookup in a map.
func granteesFromLookup(fl *Flow, v ssa.Value) bool {
	phi, ok := canon(v).(*ssa.Phi)
	if !ok {
		return false
	}
	seen := map[ssa.Value]bool{}
	var apps []*ssa.Call
	var walk func(x ssa.Value)
	walk = func(x ssa.Value) {
		if seen[x] {
			return
		}
		seen[x] = true
		switch y := x.(type) {
		case *ssa.Phi:
			for _, e := range y.Edges {
				walk(e)
			}
		case *ssa.Call:
			if b, ok := y.Call.Value.(*ssa.Builtin); ok && b.Name() == "append" {
				apps = append(apps, y)
				walk(y.Call.Args[0])
			}
		}
	}
	walk(phi)
	if len(apps) == 0 {
		return false
	}
	for _, a := range apps {
		ok := false
		for _, fa := range FactsAt(a) {
			if fa.Kind == FTrue {
				if ex, isE := canon(fa.V).(*ssa.Extract); isE {
					if _, isL := ex.Tuple.(*ssa.Lookup); isL {
						ok = true
					}
				}
			}
		}
		if !ok {
			return false
		}
	}
	return true
}

// c03RouterUsers: what each external component constructed with app.MsgServiceRouter() does with it.
// "dispatch:<container type>" = executes caller-chosen nested messages through the router.
var c03RouterUsers = map[string]string{
	"github.com/cosmos/cosmos-sdk/x/gov/keeper.NewKeeper":                                         "governance: executes the messages of a passed proposal, which the property admits as the governance authority (and gov requires the message signer to be the gov account)",
	"github.com/cosmos/cosmos-sdk/types/module.NewConfigurator":                                   "registers the Msg services on the router; dispatches nothing",
	"github.com/CosmWasm/wasmd/x/wasm.NewAppModule":                                               "module registration (simulation wiring); dispatches nothing",
	"github.com/cosmos/ibc-go/v8/modules/apps/27-interchain-accounts/controller/keeper.NewKeeper": "controller side: routes only its own MsgChannelOpenInit",
	"github.com/cosmos/cosmos-sdk/x/authz/keeper.NewKeeper":                                       "dispatch:github.com/cosmos/cosmos-sdk/x/authz.MsgExec",
	"github.com/cosmos/ibc-go/v8/modules/apps/27-interchain-accounts/host/keeper.NewKeeper":       "dispatch:",
	"github.com/CosmWasm/wasmd/x/wasm/keeper.NewKeeper":                                           "dispatch:",
}

func rulesC03Nested(w *World, o *Out) {
	newApp := w.MustFunc(o, "app", "", "New")
	if newApp == nil {
		return
	}
	o.Analysed(w.FuncKey(newApp))
	// the decorator's reach: which container types does it open?
	opened := map[string]bool{}
	if ah := w.Func("x/paloma", "VerifyAuthorisedSignatureDecorator", "AnteHandle"); ah != nil {
		rs := w.Reach([]*ssa.Function{ah}, nil)
		for f := range rs {
			getMsgs := false
			var asserted []string
			for _, b := range f.Blocks {
				for _, in := range b.Instrs {
					switch x := in.(type) {
					case *ssa.TypeAssert:
						t := x.AssertedType
						if p, ok := t.(*types.Pointer); ok {
							t = p.Elem()
						}
						if n := namedOf(t); n != nil && n.Obj().Pkg() != nil {
							asserted = append(asserted, n.Obj().Pkg().Path()+"."+n.Obj().Name())
						}
					case ssa.CallInstruction:
						if c, ok := CalleeOf(x.Common()); ok && c.Name == "GetMessages" {
							getMsgs = true
						}
					}
				}
			}
			if getMsgs {
				for _, a := range asserted {
					opened[a] = true
				}
			}
		}
	}
	n := 0
	for _, s := range CallsDeep(newApp) {
		uses := false
		for _, a := range s.Args() {
			if c, ok := canon(a).(*ssa.Call); ok {
				if cal, okc := CalleeOf(c.Common()); okc && cal.Name == "MsgServiceRouter" {
					uses = true
				}
			}
		}
		if !uses || strings.HasPrefix(s.Callee.Pkg, modPath) {
			continue
		}
		n++
		name := s.Callee.Pkg + "." + s.Callee.Name
		key := "app.New|" + name + "|messages it hands to the handlers carry a verified creator"
		pos := w.Pos(s.Instr.Pos())
		class, known := c03RouterUsers[name]
		switch {
		case !known:
			o.Fail("C03.R7", key, pos, "a component not classified in the checker receives the application's message router; if it can execute caller-chosen messages, their metadata.creator is never checked (the creator check exists only in the ante chain, over top-level messages)")
		case !strings.HasPrefix(class, "dispatch:"):
			o.Pass("C03.R7", key, pos, class)
		default:
			cont := strings.TrimPrefix(class, "dispatch:")
			ok := cont != "" && opened[cont]
			why := "executes nested messages chosen by the sender; the message's own signer field (metadata.signers) only has to name the sender, while metadata.creator -- the identity every handler acts for -- is free: any account can act as any creator. "
			if cont != "" {
				why += "The decorator must open " + cont + " (type switch + GetMessages) and apply the per-message check to the nested messages."
			} else {
				why += "The nested messages arise during execution (IBC packet / contract reply), outside the ante chain; no check at handler or router level exists."
			}
			o.Check("C03.R7", key, ok, pos, why)
		}
	}
	o.Count("C03.R7 external components wired with the message router", n, 5)
}
