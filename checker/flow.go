package main

// flow.go — P5 (Influence): backward data-dependence closure of an SSA value,
// expressed as access paths rooted at parameters / globals / opaque calls.
// Over-approximates influence (data dependences only; no control dependences).

import (
	"go/constant"
	"go/token"
	"go/types"
	"sort"
	"strings"

	"golang.org/x/tools/go/ssa"
)

// AP is an access path: Root is a *ssa.Parameter, *ssa.Global, *ssa.Call (opaque
// call result), *ssa.FreeVar (unresolved capture) or *ssa.Const; Path is ".F.G[]".
type AP struct {
	Root ssa.Value
	Path string
}

func (a AP) String() string {
	switch r := a.Root.(type) {
	case *ssa.Parameter:
		return r.Name() + a.Path
	case *ssa.Global:
		return "global:" + r.Name() + a.Path
	case *ssa.Call:
		c, _ := CalleeOf(r.Common())
		return "call:" + c.String() + a.Path
	case *ssa.FreeVar:
		return "free:" + r.Name() + a.Path
	case *ssa.Const:
		if r.Value != nil && r.Value.Kind() == constant.String {
			return "const:" + constant.StringVal(r.Value)
		}
		return "const"
	}
	return "?" + a.Path
}

type APSet map[AP]bool

func (s APSet) add(o APSet, suffix string) {
	for a := range o {
		if suffix == "" {
			s[a] = true
		} else if i := strings.LastIndex(a.Path, "«"); i >= 0 && strings.HasSuffix(a.Path, "»") {
			// a.Path ends with a construction marker «F»: the value was stored into field F of a
			// locally built struct. Selecting field F continues the path, any other field drops it.
			f := a.Path[i+len("«") : len(a.Path)-len("»")]
			base := a.Path[:i]
			switch {
			case suffix == "."+f:
				s[AP{a.Root, base}] = true
			case strings.HasPrefix(suffix, "."+f+".") || strings.HasPrefix(suffix, "."+f+"["):
				s[AP{a.Root, base + suffix[len(f)+1:]}] = true
			case strings.HasPrefix(suffix, "«"):
				s[AP{a.Root, base + suffix}] = true
			case strings.HasPrefix(suffix, "."):
				// a different field of the same struct: not this value
			default:
				s[AP{a.Root, base + suffix}] = true
			}
		} else {
			if len(a.Path) > 200 {
				s[a] = true
				continue
			}
			s[AP{a.Root, a.Path + suffix}] = true
		}
	}
}

func (s APSet) Strings() []string {
	m := map[string]bool{}
	for a := range s {
		m[a.String()] = true
	}
	var out []string
	for k := range m {
		out = append(out, k)
	}
	sort.Strings(out)
	return out
}

// ParamPaths returns the paths rooted at the parameter with the given name.
func (s APSet) ParamPaths(name string) []string {
	m := map[string]bool{}
	for a := range s {
		if p, ok := a.Root.(*ssa.Parameter); ok && p.Name() == name {
			m[a.Path] = true
		}
	}
	var out []string
	for k := range m {
		out = append(out, k)
	}
	sort.Strings(out)
	return out
}

type Flow struct {
	w        *World
	MaxDepth int
	sumMemo  map[sumKey]APSet
	sumCalls map[sumKey]map[*ssa.Call]bool
	sumBusy  map[sumKey]bool
	callsMem map[ssa.Value]map[*ssa.Call]bool
	infMemo  map[ssa.Value]APSet
	rawMemo  map[ssa.Value]APSet
	cuts     int // number of recursion cuts taken so far (a summary computed across a cut is partial and not memoised)
}

type sumKey struct {
	fn    *ssa.Function
	idx   int
	depth int
}

func NewFlow(w *World) *Flow {
	return &Flow{w: w, MaxDepth: 5, sumMemo: map[sumKey]APSet{}, sumCalls: map[sumKey]map[*ssa.Call]bool{}, sumBusy: map[sumKey]bool{}}
}

type flowCtx struct {
	fl      *Flow
	visit   map[ssa.Value]bool
	calls   map[*ssa.Call]bool // every call met in the slice (in any function entered)
	depth   int
	closure map[*ssa.Parameter]APSet // bound closure parameters (higher-order helpers)
}

// Influence computes the access paths influencing v, and the calls met on the way.
func (fl *Flow) Influence(v ssa.Value) (APSet, map[*ssa.Call]bool) {
	if fl.infMemo == nil {
		fl.infMemo = map[ssa.Value]APSet{}
		fl.callsMem = map[ssa.Value]map[*ssa.Call]bool{}
	}
	if r, ok := fl.infMemo[v]; ok {
		return r, fl.callsMem[v]
	}
	r0, cs := fl.influence(v)
	r := APSet{}
	for a := range r0 {
		if p, keep := normalizeMarkers(a.Path); keep {
			r[AP{a.Root, p}] = true
		}
	}
	fl.infMemo[v] = r
	fl.callsMem[v] = cs
	return r, cs
}

// InfluenceRaw is Influence without resolving construction markers (for callers that compose paths themselves).
func (fl *Flow) InfluenceRaw(v ssa.Value) APSet {
	if fl.rawMemo == nil {
		fl.rawMemo = map[ssa.Value]APSet{}
	}
	if r, ok := fl.rawMemo[v]; ok {
		return r
	}
	r, _ := fl.influence(v)
	fl.rawMemo[v] = r
	return r
}

// normalizeMarkers resolves construction markers left inside a path: «F» followed by the selection of
// field F cancels out, followed by another field the path is infeasible, otherwise the marker is dropped.
func normalizeMarkers(p string) (string, bool) {
	for {
		i := strings.Index(p, "«")
		if i < 0 {
			return p, true
		}
		j := strings.Index(p[i:], "»")
		if j < 0 {
			return p, true
		}
		j += i
		f := p[i+len("«") : j]
		rest := p[j+len("»"):]
		switch {
		case strings.HasPrefix(rest, "."+f) && (len(rest) == len(f)+1 || rest[len(f)+1] == '.' || rest[len(f)+1] == '[' || strings.HasPrefix(rest[len(f)+1:], "«")):
			p = p[:i] + rest[len(f)+1:]
		case strings.HasPrefix(rest, "."):
			return "", false
		default:
			p = p[:i] + rest
		}
	}
}

func (fl *Flow) influence(v ssa.Value) (APSet, map[*ssa.Call]bool) {
	c := &flowCtx{fl: fl, visit: map[ssa.Value]bool{}, calls: map[*ssa.Call]bool{}, closure: map[*ssa.Parameter]APSet{}}
	return c.paths(v), c.calls
}

// DependsOnCall: does v's backward slice contain a call matching pred?
func (fl *Flow) DependsOnCall(v ssa.Value, pred func(Callee) bool) *ssa.Call {
	_, calls := fl.Influence(v)
	for c := range calls {
		if cal, ok := CalleeOf(c.Common()); ok && pred(cal) {
			return c
		}
	}
	return nil
}

func fieldName(t types.Type, idx int) string {
	for {
		if p, ok := t.Underlying().(*types.Pointer); ok {
			t = p.Elem()
			continue
		}
		break
	}
	if st, ok := t.Underlying().(*types.Struct); ok && idx < st.NumFields() {
		return st.Field(idx).Name()
	}
	return "?"
}

// getterField: if fn is a generated-style getter `func (m *T) GetX() U` on a struct
// with field X, returns "X".
func getterField(c Callee) string {
	if c.Func == nil || !strings.HasPrefix(c.Name, "Get") || len(c.Name) <= 3 {
		return ""
	}
	sig := c.Func.Type().(*types.Signature)
	if sig.Params().Len() != 0 || sig.Results().Len() != 1 {
		return ""
	}
	f := c.Name[3:]
	if c.Iface {
		return f
	}
	if sig.Recv() == nil {
		return ""
	}
	n := namedOf(sig.Recv().Type())
	if n == nil {
		return ""
	}
	st, ok := n.Underlying().(*types.Struct)
	if !ok {
		return ""
	}
	for i := 0; i < st.NumFields(); i++ {
		if st.Field(i).Name() == f {
			return f
		}
	}
	return ""
}

func (c *flowCtx) paths(v ssa.Value) APSet {
	out := APSet{}
	if v == nil {
		return out
	}
	if c.visit[v] {
		return out
	}
	c.visit[v] = true
	defer delete(c.visit, v)

	switch x := v.(type) {
	case *ssa.Parameter:
		if b, ok := c.closure[x]; ok {
			out.add(b, "")
		} else if h := x.Parent(); isNewHelper(h) && len(ctxSites[h]) == 1 {
			// a helper extracted after the reference tree, called from one place: its parameter is the
			// argument given there (the query continues in the caller)
			bound := false
			args := ctxSites[h][0].Common().Args
			for i, p := range h.Params {
				if p == x && i < len(args) {
					out.add(c.paths(args[i]), "")
					bound = true
				}
			}
			if !bound {
				out[AP{x, ""}] = true
			}
		} else {
			out[AP{x, ""}] = true
		}
	case *ssa.FreeVar:
		out.add(c.freeVar(x), "")
	case *ssa.Const:
		// only string constants are recorded (store prefixes, module names)
		if x.Value != nil && x.Value.Kind() == constant.String {
			out[AP{x, ""}] = true
		}
	case *ssa.Global:
		out[AP{x, ""}] = true
	case *ssa.Function, *ssa.Builtin:
	case *ssa.Alloc:
		out.add(c.addr(x), "")
	case *ssa.FieldAddr:
		out.add(c.addr(x), "")
	case *ssa.IndexAddr:
		out.add(c.addr(x), "")
	case *ssa.Field:
		out.add(c.paths(x.X), "."+fieldName(x.X.Type(), x.Field))
	case *ssa.Index:
		out.add(c.paths(x.X), "[]")
		out.add(c.paths(x.Index), "")
	case *ssa.Lookup:
		out.add(c.paths(x.X), "[]")
		out.add(c.paths(x.Index), "")
	case *ssa.UnOp:
		if x.Op == token.MUL {
			out.add(c.addr(x.X), "")
		} else {
			out.add(c.paths(x.X), "")
		}
	case *ssa.BinOp:
		out.add(c.paths(x.X), "")
		out.add(c.paths(x.Y), "")
	case *ssa.Phi:
		for _, e := range x.Edges {
			out.add(c.paths(e), "")
		}
	case *ssa.Extract:
		if call, ok := x.Tuple.(*ssa.Call); ok {
			out.add(c.call(call, x.Index), "")
		} else {
			out.add(c.paths(x.Tuple), "")
		}
	case *ssa.Call:
		out.add(c.call(x, -1), "")
	case *ssa.ChangeInterface:
		out.add(c.paths(x.X), "")
	case *ssa.ChangeType:
		out.add(c.paths(x.X), "")
	case *ssa.Convert:
		out.add(c.paths(x.X), "")
	case *ssa.MultiConvert:
		out.add(c.paths(x.X), "")
	case *ssa.MakeInterface:
		out.add(c.paths(x.X), "")
	case *ssa.TypeAssert:
		out.add(c.paths(x.X), "")
	case *ssa.Slice:
		out.add(c.paths(x.X), "")
	case *ssa.SliceToArrayPointer:
		out.add(c.paths(x.X), "")
	case *ssa.MakeSlice, *ssa.MakeMap, *ssa.MakeChan:
		out.add(c.containerWrites(v), "")
	case *ssa.MakeClosure:
		for _, b := range x.Bindings {
			out.add(c.paths(b), "")
		}
	case *ssa.Range:
		out.add(c.paths(x.X), "[]")
	case *ssa.Next:
		out.add(c.paths(x.Iter), "")
	case *ssa.Select:
	}
	return out
}

// containerWrites: values written into a locally made slice/map.
func (c *flowCtx) containerWrites(v ssa.Value) APSet {
	out := APSet{}
	refs := v.Referrers()
	if refs == nil {
		return out
	}
	for _, r := range *refs {
		switch u := r.(type) {
		case *ssa.MapUpdate:
			if u.Map == v {
				out.add(c.paths(u.Value), "")
				out.add(c.paths(u.Key), "")
			}
		case *ssa.IndexAddr:
			if u.X == v {
				for _, r2 := range *u.Referrers() {
					if st, ok := r2.(*ssa.Store); ok && st.Addr == u {
						out.add(c.paths(st.Val), "")
					}
				}
			}
		case *ssa.Slice:
			if u.X == v {
				out.add(c.containerWrites(u), "")
			}
		case ssa.CallInstruction:
			// the container is handed to a call that may fill it (copy(dst, src), binary.PutUint64(b, n), io.ReadFull...)
			out.add(c.filledBy(u, v), "")
		case *ssa.Store:
			// the container is kept in a variable (captured by a closure): writes through later loads of that variable
			if u.Val == v {
				if al, ok := u.Addr.(*ssa.Alloc); ok && !c.visit[al] {
					c.visit[al] = true
					for _, r2 := range *al.Referrers() {
						if ld, ok := r2.(*ssa.UnOp); ok && ld.Op == token.MUL && !c.visit[ld] {
							c.visit[ld] = true
							out.add(c.containerWrites(ld), "")
							delete(c.visit, ld)
						}
					}
					delete(c.visit, al)
				}
			}
		case *ssa.MakeInterface:
			if u.X == v {
				out.add(c.containerWrites(u), "")
			}
		}
	}
	return out
}

// filledBy: container v is an argument of call ci; if ci may write into it, the content depends on the other arguments.
func (c *flowCtx) filledBy(ci ssa.CallInstruction, v ssa.Value) APSet {
	out := APSet{}
	cc := ci.Common()
	if b, ok := cc.Value.(*ssa.Builtin); ok {
		if b.Name() == "copy" && len(cc.Args) == 2 && cc.Args[0] == v {
			out.add(c.paths(cc.Args[1]), "")
		}
		return out
	}
	cal, ok := CalleeOf(cc)
	if ok && strings.HasPrefix(cal.Pkg, modPath) {
		return out // module callees are entered through their own summaries when they return the container
	}
	if ok && (strings.HasPrefix(cal.Name, "Put") || strings.HasPrefix(cal.Name, "Read") || strings.HasPrefix(cal.Name, "Fill") || strings.HasPrefix(cal.Name, "Encode") || strings.HasPrefix(cal.Name, "Append")) {
		for _, a := range cc.Args {
			if a != v {
				out.add(c.paths(a), "")
			}
		}
	}
	return out
}

// addr: paths of the value stored at an address.
func (c *flowCtx) addr(a ssa.Value) APSet {
	out := APSet{}
	switch x := a.(type) {
	case *ssa.Alloc:
		out.add(c.allocContent(x, -1), "")
	case *ssa.FieldAddr:
		base := x.X
		fname := fieldName(base.Type(), x.Field)
		if al, ok := base.(*ssa.Alloc); ok {
			out.add(c.allocContent(al, x.Field), "")
			return out
		}
		// pointer to struct held elsewhere: path of the pointer + field
		out.add(c.paths(base), "."+fname)
	case *ssa.IndexAddr:
		if _, ok := x.X.(*ssa.Alloc); ok {
			// local array
			out.add(c.paths(x.X), "[]")
		} else {
			out.add(c.paths(x.X), "[]")
		}
		out.add(c.paths(x.Index), "")
	case *ssa.Global:
		out[AP{x, ""}] = true
	default:
		out.add(c.paths(a), "")
	}
	return out
}

// allocContent: what may be stored in a local (field = -1: the whole object).
func (c *flowCtx) allocContent(al *ssa.Alloc, field int) APSet {
	out := APSet{}
	key := ssa.Value(al)
	_ = key
	refs := al.Referrers()
	if refs == nil {
		return out
	}
	for _, r := range *refs {
		switch u := r.(type) {
		case *ssa.Store:
			if u.Addr == al {
				p := c.paths(u.Val)
				if field >= 0 {
					out.add(p, "."+fieldName(al.Type(), field))
				} else {
					out.add(p, "")
				}
			}
		case *ssa.FieldAddr:
			if u.X != al {
				continue
			}
			if field >= 0 && u.Field != field {
				continue
			}
			mark := ""
			if field < 0 {
				if _, isStruct := al.Type().Underlying().(*types.Pointer).Elem().Underlying().(*types.Struct); isStruct {
					mark = "«" + fieldName(al.Type(), u.Field) + "»"
				}
			}
			for _, r2 := range *u.Referrers() {
				switch s2 := r2.(type) {
				case *ssa.Store:
					if s2.Addr == u {
						out.add(c.paths(s2.Val), mark)
					}
				case ssa.CallInstruction:
					// &x.F handed to a call (out-parameter)
					out.add(c.outParam(s2, u), "")
				case *ssa.FieldAddr:
					// nested struct field stores: x.F.G = v
					if s2.X == u {
						for _, r3 := range *s2.Referrers() {
							if s3, ok := r3.(*ssa.Store); ok && s3.Addr == s2 {
								out.add(c.paths(s3.Val), "")
							}
						}
					}
				}
			}
		case *ssa.IndexAddr:
			if u.X != al {
				continue
			}
			for _, r2 := range *u.Referrers() {
				if s2, ok := r2.(*ssa.Store); ok && s2.Addr == u {
					out.add(c.paths(s2.Val), "")
				}
			}
		case *ssa.Slice:
			// arr[:] handed to copy(dst, src) or another filling call
			if u.X == al {
				out.add(c.containerWrites(u), "")
			}
		case ssa.CallInstruction:
			// the address itself is passed to a call: out-parameter / mutating method
			out.add(c.outParam(u, al), "")
		case *ssa.MakeInterface:
			// &x boxed into an interface and handed to a call (json.Unmarshal(bz, &x), cdc.UnpackAny(any, &x))
			for _, r2 := range *u.Referrers() {
				if ci, ok := r2.(ssa.CallInstruction); ok {
					out.add(c.outParam(ci, u), "")
				}
			}
		case *ssa.MakeClosure:
			// captured by a closure that may assign it
			fn := u.Fn.(*ssa.Function)
			for i, b := range u.Bindings {
				if b != al {
					continue
				}
				fv := fn.FreeVars[i]
				for _, r2 := range *fv.Referrers() {
					if st, ok := r2.(*ssa.Store); ok && st.Addr == fv {
						out.add(c.paths(st.Val), "")
					}
				}
			}
		}
	}
	return out
}

// outParam: a local's address is handed to a call; the pointee then depends on the
// other arguments (e.g. estimate.SetUint64(x), cdc.Unmarshal(bz, &v)).
func (c *flowCtx) outParam(ci ssa.CallInstruction, addr ssa.Value) APSet {
	out := APSet{}
	cc := ci.Common()
	if call, ok := ci.(*ssa.Call); ok {
		c.calls[call] = true
	}
	args := cc.Args
	if cc.IsInvoke() {
		out.add(c.paths(cc.Value), "")
	}
	for _, a := range args {
		if a == addr {
			continue
		}
		out.add(c.paths(a), "")
	}
	return out
}

func (c *flowCtx) freeVar(fv *ssa.FreeVar) APSet {
	out := APSet{}
	fn := fv.Parent()
	par := fn.Parent()
	if par == nil {
		out[AP{fv, ""}] = true
		return out
	}
	idx := -1
	for i, f := range fn.FreeVars {
		if f == fv {
			idx = i
		}
	}
	found := false
	for _, b := range par.Blocks {
		for _, in := range b.Instrs {
			if mc, ok := in.(*ssa.MakeClosure); ok && mc.Fn == fn && idx >= 0 && idx < len(mc.Bindings) {
				found = true
				out.add(c.paths(mc.Bindings[idx]), "")
			}
		}
	}
	if !found {
		out[AP{fv, ""}] = true
	}
	return out
}

// higherOrder: helpers that apply a function argument to the elements of a slice argument.
func isHigherOrder(cal Callee) bool {
	if cal.Pkg == modPath+"/util/slice" {
		return true
	}
	if cal.Pkg == "slices" || cal.Pkg == "sort" {
		return true
	}
	return false
}

func (c *flowCtx) call(call *ssa.Call, resIdx int) APSet {
	out := APSet{}
	c.calls[call] = true
	cc := call.Common()
	cal, ok := CalleeOf(cc)
	var args []ssa.Value
	if cc.IsInvoke() {
		args = append([]ssa.Value{cc.Value}, cc.Args...)
	} else {
		args = cc.Args
	}
	if !ok {
		// call through a function value: closure created locally?
		if mc, isMC := cc.Value.(*ssa.MakeClosure); isMC {
			return c.enter(mc.Fn.(*ssa.Function), args, resIdx, call)
		}
		for _, a := range args {
			out.add(c.paths(a), "")
		}
		out.add(c.paths(cc.Value), "")
		return out
	}
	if cal.Pkg == "builtin" {
		for _, a := range args {
			out.add(c.paths(a), "")
		}
		return out
	}
	// getters
	if f := getterField(cal); f != "" && len(args) == 1 {
		out.add(c.paths(args[0]), "."+f)
		return out
	}
	// module function with a body: use its summary (except reflection-based store helpers, modelled as opaque loads)
	if cal.Static != nil && len(cal.Static.Blocks) > 0 && c.fl.w.inModule(cal.Static) && c.depth < c.fl.MaxDepth && !opaqueModuleCallee(cal) {
		return c.enter(cal.Static, args, resIdx, call)
	}
	// higher-order helper: bind closure parameters to the element paths of the other arguments
	if isHigherOrder(cal) {
		elems := APSet{}
		var fns []*ssa.Function
		var binds [][]ssa.Value
		for _, a := range args {
			a0 := a
			if mi, ok := a0.(*ssa.MakeInterface); ok {
				a0 = mi.X
			}
			switch fv := a0.(type) {
			case *ssa.MakeClosure:
				fns = append(fns, fv.Fn.(*ssa.Function))
				binds = append(binds, fv.Bindings)
			case *ssa.Function:
				fns = append(fns, fv)
				binds = append(binds, nil)
			default:
				p := c.paths(a)
				out.add(p, "")
				elems.add(p, "[]")
			}
		}
		for _, fn := range fns {
			if len(fn.Blocks) == 0 {
				continue
			}
			for _, p := range fn.Params {
				c.closure[p] = elems
			}
			c.depth++
			for _, b := range fn.Blocks {
				for _, in := range b.Instrs {
					if r, ok := in.(*ssa.Return); ok {
						for _, rv := range r.Results {
							out.add(c.paths(rv), "")
						}
					}
				}
			}
			c.depth--
		}
		return out
	}
	// opaque: depends on all arguments; recorded as an opaque call root as well
	for _, a := range args {
		if mc, ok := a.(*ssa.MakeClosure); ok {
			out.add(c.paths(mc), "")
			continue
		}
		out.add(c.paths(a), "")
	}
	out[AP{call, ""}] = true
	// an opaque object later fed through its own methods (h := sha256.New(); h.Write(data); h.Sum(nil))
	if refs := call.Referrers(); refs != nil && (types.IsInterface(call.Type()) || isPointer(call.Type())) {
		for _, r := range *refs {
			ci, ok := r.(ssa.CallInstruction)
			if !ok || ci == ssa.CallInstruction(call) {
				continue
			}
			rc := ci.Common()
			isRecv := (rc.IsInvoke() && rc.Value == ssa.Value(call)) || (!rc.IsInvoke() && len(rc.Args) > 0 && rc.Args[0] == ssa.Value(call) && rc.Signature().Recv() != nil)
			if !isRecv {
				continue
			}
			for _, a := range rc.Args {
				if a != ssa.Value(call) {
					out.add(c.paths(a), "")
				}
			}
		}
	}
	return out
}

func isPointer(t types.Type) bool {
	_, ok := t.Underlying().(*types.Pointer)
	return ok
}

// opaqueModuleCallee: module helpers whose data flow goes through reflection; their result is modelled as an
// opaque value depending on the arguments (T3 summary table).
func opaqueModuleCallee(cal Callee) bool {
	if cal.Pkg == modPath+"/util/keeper" {
		switch cal.Name {
		case "Load", "IterAll", "IterAllRaw", "IterAllFnc":
			return true
		}
	}
	return false
}

// enter applies the callee's summary (result resIdx; -1 = all results) to the arguments.
func (c *flowCtx) enter(fn *ssa.Function, args []ssa.Value, resIdx int, call *ssa.Call) APSet {
	out := APSet{}
	sum, sumCalls := c.fl.summary(fn, resIdx, c.depth+1)
	for k := range sumCalls {
		c.calls[k] = true
	}
	argPaths := map[int]APSet{}
	keys := make([]AP, 0, len(sum))
	for a := range sum {
		keys = append(keys, a)
	}
	sort.Slice(keys, func(i, j int) bool {
		if keys[i].Path != keys[j].Path {
			return keys[i].Path < keys[j].Path
		}
		return keys[i].String() < keys[j].String()
	})
	for _, a := range keys {
		switch r := a.Root.(type) {
		case *ssa.Parameter:
			if r.Parent() == fn {
				idx := -1
				for i, p := range fn.Params {
					if p == r {
						idx = i
					}
				}
				if idx >= 0 && idx < len(args) {
					ap, ok := argPaths[idx]
					if !ok {
						ap = c.paths(args[idx])
						argPaths[idx] = ap
					}
					out.add(ap, a.Path)
					continue
				}
			}
			out[a] = true
		case *ssa.FreeVar:
			// closure called directly: resolve against its creation site
			out.add(c.freeVar(r), a.Path)
		default:
			out[a] = true
		}
	}
	return out
}

// summary: access paths (rooted at fn's own parameters, globals, opaque calls)
// influencing result resIdx of fn.
func (fl *Flow) summary(fn *ssa.Function, resIdx int, depth int) (APSet, map[*ssa.Call]bool) {
	k := sumKey{fn, resIdx, depth}
	if s, ok := fl.sumMemo[k]; ok {
		return s, fl.sumCalls[k]
	}
	busyKey := sumKey{fn, resIdx, -1}
	if fl.sumBusy[busyKey] {
		fl.cuts++
		return APSet{}, nil
	}
	fl.sumBusy[busyKey] = true
	defer delete(fl.sumBusy, busyKey)
	cuts0 := fl.cuts
	c := &flowCtx{fl: fl, visit: map[ssa.Value]bool{}, calls: map[*ssa.Call]bool{}, depth: depth, closure: map[*ssa.Parameter]APSet{}}
	out := APSet{}
	for _, b := range fn.Blocks {
		for _, in := range b.Instrs {
			r, ok := in.(*ssa.Return)
			if !ok {
				continue
			}
			for i, rv := range r.Results {
				if resIdx >= 0 && i != resIdx {
					continue
				}
				out.add(c.paths(rv), "")
			}
		}
	}
	// memoise only complete results: a computation that crossed a recursion cut depends on the
	// caller stack and would make later answers depend on the order of queries
	if fl.cuts == cuts0 {
		fl.sumMemo[k] = out
		fl.sumCalls[k] = c.calls
	}
	return out, c.calls
}

// ---- small helpers used by rules ------------------------------------------------

// loadedField: if v is a load of (or a Field of) struct field F, returns F and the base.
func loadedField(v ssa.Value) (string, ssa.Value) {
	v = stripConv(v)
	switch x := v.(type) {
	case *ssa.UnOp:
		if x.Op == token.MUL {
			if fa, ok := x.X.(*ssa.FieldAddr); ok {
				return fieldName(fa.X.Type(), fa.Field), fa.X
			}
		}
	case *ssa.Field:
		return fieldName(x.X.Type(), x.Field), x.X
	}
	return "", nil
}

// storesToField lists Store instructions in f (and nested closures) that write field `name`
// of a struct whose named type is typeName (package-qualified name suffix match).
func storesToField(f *ssa.Function, typeName, name string) []*ssa.Store {
	var out []*ssa.Store
	fns := WithAnon(f)
	if u := unitOf(f); len(u) > 1 {
		CallsIn(f) // registers the via-mapping of the transparent helpers' instructions
		for _, h := range u[1:] {
			fns = append(fns, WithAnon(h)...)
		}
	}
	for _, g := range fns {
		for _, b := range g.Blocks {
			for _, in := range b.Instrs {
				st, ok := in.(*ssa.Store)
				if !ok {
					continue
				}
				fa, ok := st.Addr.(*ssa.FieldAddr)
				if !ok {
					continue
				}
				if fieldName(fa.X.Type(), fa.Field) != name {
					continue
				}
				n := namedOf(fa.X.Type())
				if n == nil || n.Obj().Name() != typeName {
					continue
				}
				out = append(out, st)
			}
		}
	}
	return out
}
