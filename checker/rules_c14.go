package main

// C14 — messages are assigned to, and only relayable by, an eligible relayer.

import (
	"go/token"
	"go/types"
	"strings"

	"golang.org/x/tools/go/ssa"
)

func init() { register("C14", rulesC14) }

func rulesC14(w *World, o *Out) {
	fl := NewFlow(w)
	o.Rule("C14.R1", "every cross-chain message built by the evm keeper takes Assignee and AssigneeRemoteAddress from results #0 and #1 of one PickValidatorForMessage call whose error was checked (directly, or through the parameters of the valset sender whose callers do so); the keeper's pick returns the snapshot entry's address on the requested chain; a batch takes its assignee from the same pick and its remote address from the validator's registered address under 'found'")
	o.Rule("C14.R2", "a validator enters the scoring table only with both a metrics record and a fee record; the job filter accepts a validator only through its account on the requested chain, and under an MEV requirement only if that same account carries the MEV trait")
	o.Rule("C14.R3", "an evm message is offered for relay only if all five relay filters hold; the stateful oldest-per-sender filter is evaluated before the gas-estimate and assignee filters, so an older message that is not yet relayable still blocks younger ones of its sender")
	o.Rule("C14.R4", "each fee is the ceiling of multiplier × base (estimate for the relayer fee, relayer fee for community / security fees)")
	// the three rates of the fee formula come from their own records: relayer multiplicator from the relayer's
	// setting, community rate from CommunityFundFee, security rate from SecurityFee
	if gc := w.MustFunc(o, "x/treasury/keeper", "Keeper", "GetCombinedFeesForRelay"); gc != nil {
		o.Analysed(w.FuncKey(gc))
		for _, spec := range []struct{ field, src string }{{"CommunityFee", ".CommunityFundFee"}, {"SecurityFee", ".SecurityFee"}} {
			sts := storesToField(gc, "MessageFeeSettings", spec.field)
			o.Count("C14.R4 "+spec.field+" rate assignments in GetCombinedFeesForRelay", len(sts), 1)
			for _, st := range sts {
				paths := map[string]bool{}
				collect := func(v ssa.Value) {
					x, _ := fl.Influence(v)
					for ap := range x {
						if i := strings.LastIndex(ap.Path, "."); i >= 0 {
							paths[ap.Path[i:]] = true
						}
					}
				}
				collect(st.Val)
				// through a parsing helper introduced later: what the call that produced the value was given
				var prod *ssa.Call
				switch x := canonLocal(st.Val).(type) {
				case *ssa.Extract:
					prod, _ = x.Tuple.(*ssa.Call)
				case *ssa.Call:
					prod = x
				}
				if prod != nil && prod.Call.StaticCallee() != nil && isNewHelper(prod.Call.StaticCallee()) {
					for _, a := range prod.Call.Args {
						collect(a)
					}
				}
				other := ".SecurityFee"
				if spec.src == ".SecurityFee" {
					other = ".CommunityFundFee"
				}
				o.Check("C14.R4", "GetCombinedFeesForRelay|"+spec.field+" rate is read from the"+spec.src+" record", paths[spec.src] && !paths[other], w.Pos(st.Pos()), "the rate handed to the fee calculation must come from fees"+spec.src+" (and not from fees"+other+")")
			}
		}
	}
	o.Rule("C14.R5", "a message never keeps an elected estimate without its fees: each message's estimate processing runs on its own cache context, created for that message and committed only when its processing returned no error")
	if cp := w.MustFunc(o, "x/consensus/keeper", "Keeper", "CheckAndProcessEstimatedMessages"); cp != nil {
		o.Analysed(w.FuncKey(cp))
		proc := FindCalls(cp, false, isCallee("x/consensus/keeper", "Keeper", "checkAndProcessEstimatedMessage"))
		o.Count("C14.R5 per-message processing sites", len(proc), 1)
		var caches []Site
		for _, f := range unitFuncs(cp) {
			for _, c := range CallsIn(f) {
				if c.Callee.Name == "CacheContext" {
					caches = append(caches, c)
				}
			}
		}
		for _, ps := range proc {
			pos := w.Pos(ps.Instr.Pos())
			// the context handed to the processing is the branch created for this message
			onCache := false
			var cacheCall *ssa.Call
			if len(ps.Args()) > 1 {
				if ex, isEx := canon(ps.Args()[1]).(*ssa.Extract); isEx && ex.Index == 0 {
					if cc, isC := ex.Tuple.(*ssa.Call); isC {
						if cal, okc := CalleeOf(cc.Common()); okc && cal.Name == "CacheContext" {
							onCache, cacheCall = true, cc
						}
					}
				}
			}
			o.Check("C14.R5", "CheckAndProcessEstimatedMessages|processing runs on a cache context", onCache, pos, "checkAndProcessEstimatedMessage persists the elected estimate before it computes the fees; it must run on a CacheContext branch")
			if cacheCall == nil {
				continue
			}
			// a fresh branch per message: the next processing is not reached without branching again
			// (judged in the function that holds the processing call: the loop may live in a helper)
			holder := ps.Instr.Parent()
			var hCaches []Site
			for _, c := range caches {
				if c.Instr.Parent() == holder {
					hCaches = append(hCaches, c)
				}
			}
			fresh := reachAvoidingRaw(holder, ps.Instr, map[ssa.Instruction]bool{ps.Instr: true}, siteSet(hCaches)) == nil
			// a message that cannot be processed is skipped, the rest of its queue is still processed in this block
			skips := false
			// (where the per-message work was wrapped into a helper that holds no loop itself, the question is
			// asked at the helper's call instead)
			site := ps.Instr
			for lift := 0; lift < 2; lift++ {
				hf0 := site.Parent()
				if hf0 == nil || !isNewHelper(hf0) || len(ctxSites[hf0]) != 1 {
					break
				}
				if reachAvoidingRaw(hf0, site, map[ssa.Instruction]bool{site: true}, nil) != nil {
					break // the loop over the messages is in here
				}
				site = ctxSites[hf0][0]
			}
			if hf := site.Parent(); hf != nil {
				for _, b := range hf.Blocks {
					iff, isIf := b.Instrs[len(b.Instrs)-1].(*ssa.If)
					if !isIf {
						continue
					}
					f := factOf(iff.Cond, true)
					if f.Kind != FNonNil && f.Kind != FNil {
						continue
					}
					if f.V == nil || !isErrorType(f.V.Type()) {
						continue
					}
					from := false
					for _, c := range callsBehind(f.V) {
						if ssa.Instruction(c) == site {
							from = true
						}
					}
					if !from {
						continue
					}
					errSucc := b.Succs[0]
					if f.Kind == FNil {
						errSucc = b.Succs[1]
					}
					if ReachFromTop(hf, errSucc, map[ssa.Instruction]bool{site: true}, nil) != nil {
						skips = true
					}
				}
			}
			o.Check("C14.R5", "CheckAndProcessEstimatedMessages|a failing message does not stop the rest of its queue", skips, pos, "from the error edge of checkAndProcessEstimatedMessage the loop must go on to the next message; returning there starves every younger message of the queue of its estimate and fees, block after block")
			o.Check("C14.R5", "CheckAndProcessEstimatedMessages|one cache context per message", fresh, pos, "a branch shared by several messages commits the partial writes (elected estimate without fees) of a message whose processing failed")
			// commit of that branch only under err == nil of this processing
			okCommit, nCommit := true, 0
			for _, r := range *cacheCall.Referrers() {
				ex, isEx := r.(*ssa.Extract)
				if !isEx || ex.Index != 1 {
					continue
				}
				for _, u := range *ex.Referrers() {
					c, isC := u.(*ssa.Call)
					if !isC || c.Call.Value != ssa.Value(ex) {
						okCommit = false // the commit function escapes (stored, deferred, passed on)
						continue
					}
					nCommit++
					g := GuardErrNil(c, func(cc Callee) bool { return cc.Static == ps.Callee.Static })
					if g == nil || ssa.Instruction(g) != ps.Instr {
						okCommit = false
					}
				}
			}
			o.Check("C14.R5", "CheckAndProcessEstimatedMessages|committed only when the message was processed without error", okCommit && nCommit > 0, pos, "commit() must be dominated by err == nil of this message's checkAndProcessEstimatedMessage")
		}
	}

	pickK := w.MustFunc(o, "x/evm/keeper", "Keeper", "PickValidatorForMessage")
	isPick := func(c Callee) bool { return c.Name == "PickValidatorForMessage" && (c.Static == pickK || c.Iface) }
	sender := w.Func("x/evm/keeper", "msgSender", "SendValsetMsgForChain")

	// ---- R1 ----
	nLit := 0
	checkPair := func(f *ssa.Function, asg, rem ssa.Value, pos string, label string) {
		ea, okA := canon(asg).(*ssa.Extract)
		er, okR := canon(rem).(*ssa.Extract)
		switch {
		case okA && okR:
			ca, isCa := ea.Tuple.(*ssa.Call)
			ok := isCa && ea.Tuple == er.Tuple && ea.Index == 0 && er.Index == 1
			if ok {
				cal, _ := CalleeOf(ca.Common())
				ok = isPick(cal)
			}
			o.Check("C14.R1", label+"|assignee and remote address from one pick", ok, pos, "Assignee must be result #0 and AssigneeRemoteAddress result #1 of the same PickValidatorForMessage call")
		default:
			pa, isPa := canon(asg).(*ssa.Parameter)
			pr, isPr := canon(rem).(*ssa.Parameter)
			if isPa && isPr && TopFunc(f) == sender {
				// check every caller passes the two results of one pick
				cs := w.CallersOf(func(c Callee) bool { return c.Name == "SendValsetMsgForChain" })
				ok := len(cs) > 0
				ia, ir := paramIndex(sender, pa), paramIndex(sender, pr)
				for _, s := range cs {
					args := s.Args()
					if ia >= len(args) || ir >= len(args) {
						ok = false
						continue
					}
					xa, ok1 := canon(args[ia]).(*ssa.Extract)
					xr, ok2 := canon(args[ir]).(*ssa.Extract)
					if !ok1 || !ok2 || xa.Tuple != xr.Tuple || xa.Index != 0 || xr.Index != 1 {
						ok = false
						continue
					}
					if c, isC := xa.Tuple.(*ssa.Call); isC {
						cal, _ := CalleeOf(c.Common())
						if !isPick(cal) || GuardErrNil(s.Instr, isPick) == nil {
							ok = false
						}
					} else {
						ok = false
					}
				}
				o.Check("C14.R1", label+"|sender parameters come from one checked pick at every call site", ok, pos, "callers of SendValsetMsgForChain must pass results #0/#1 of a PickValidatorForMessage whose error was checked")
				return
			}
			o.Fail("C14.R1", label+"|assignee and remote address from one pick", pos, "Assignee / AssigneeRemoteAddress do not come from PickValidatorForMessage: "+valDesc(asg)+" / "+valDesc(rem))
		}
	}
	for _, f := range w.ProdFuncs {
		if isGeneratedFile(w, f) || !strings.Contains(funcPkgPath(f), "/x/evm/keeper") {
			continue
		}
		as := storesToField(f, "Message", "Assignee")
		rs := storesToField(f, "Message", "AssigneeRemoteAddress")
		for _, a := range as {
			if a.Parent() != f {
				continue
			}
			// a helper introduced later that stamps the relayer onto a message it is handed: the "literal" is
			// completed at each of the helper's call sites
			if bp, isBP := baseOf(a.Addr).(*ssa.Parameter); isBP && isNewHelper(f) && len(ctxSites[f]) > 0 {
				pa, isPa := canon(a.Val).(*ssa.Parameter)
				var pr *ssa.Parameter
				for _, x := range rs {
					if x.Parent() == f && baseOf(x.Addr) == ssa.Value(bp) {
						pr, _ = canon(x.Val).(*ssa.Parameter)
					}
				}
				if isPa && pr != nil && pa.Parent() == f && pr.Parent() == f {
					ia, ir := paramIndex(f, pa), paramIndex(f, pr)
					for _, site := range ctxSites[f] {
						args := site.Common().Args
						if ia >= len(args) || ir >= len(args) {
							continue
						}
						nLit++
						label := w.FuncKey(TopFunc(site.Parent())) + "|Message literal"
						checkPair(site.Parent(), args[ia], args[ir], w.Pos(site.Pos()), label)
						if _, isP := canon(args[ia]).(*ssa.Parameter); !isP {
							o.Check("C14.R1", label+"|built only after a successful pick", GuardErrNil(site, isPick) != nil, w.Pos(site.Pos()), "the message must be constructed only when PickValidatorForMessage returned no error")
						}
					}
					continue
				}
			}
			if _, isAlloc := baseOf(a.Addr).(*ssa.Alloc); !isAlloc {
				continue
			}
			// pair with the remote-address store on the same literal
			var r *ssa.Store
			for _, x := range rs {
				if x.Parent() == f && baseOf(x.Addr) == baseOf(a.Addr) {
					r = x
				}
			}
			nLit++
			label := w.FuncKey(f) + "|Message literal #" + itoa(nLit)
			label = w.FuncKey(f) + "|Message literal"
			if r == nil {
				o.Fail("C14.R1", label+"|remote address set", w.Pos(a.Pos()), "a message with an assignee must carry the assignee's remote address")
				continue
			}
			checkPair(f, a.Val, r.Val, w.Pos(a.Pos()), label)
			if _, isP := canon(a.Val).(*ssa.Parameter); !isP {
				o.Check("C14.R1", label+"|built only after a successful pick", GuardErrNil(a, isPick) != nil, w.Pos(a.Pos()), "the message must be constructed only when PickValidatorForMessage returned no error")
			}
		}
	}
	o.Count("C14.R1 evm Message literals with an assignee", nLit, 5)
	if pickK != nil {
		o.Analysed(w.FuncKey(pickK))
		// success return: (pick, info.Address) under val.Address == pick and info.ChainReferenceID == chainReferenceID
		n := 0
		for _, r := range Returns(pickK) {
			if r.Kind == RetError {
				continue
			}
			n++
			res := r.Ret.Results
			okP := fl.DependsOnCall(res[0], func(c Callee) bool { return c.Name == "PickValidatorForMessage" && c.Static != pickK }) != nil
			nm, _ := loadedField(canon(res[1]))
			okA := nm == "Address"
			okChain, okVal := false, false
			for _, f := range FactsAt(r.Ret) {
				if f.Kind == FCmp && f.Op == token.EQL {
					nx, _ := loadedField(f.X)
					ny, _ := loadedField(f.Y)
					if nx == "ChainReferenceID" || ny == "ChainReferenceID" {
						okChain = true
					}
					if fl.DependsOnCall(f.X, isCallee("", "", "String")) != nil || fl.DependsOnCall(f.Y, isCallee("", "", "String")) != nil {
						okVal = true
					}
				}
			}
			o.Check("C14.R1", "Keeper.PickValidatorForMessage|returns the picked validator's address on the requested chain", okP && okA && okChain && okVal, w.Pos(r.Ret.Pos()),
				"must return (pick, info.Address) for the snapshot entry equal to the pick and the chain info equal to the requested chain")
		}
		o.Count("C14.R1 success returns of the keeper pick", n, 1)
	}
	// batch
	if bb := w.MustFunc(o, skw, "Keeper", "BuildOutgoingTXBatch"); bb != nil {
		nb := FindCalls(bb, false, isCallee("x/skyway/types", "", "NewInternalOutgingTxBatch"))
		o.Count("C14.R1 batch constructor sites", len(nb), 1)
		for _, s := range nb {
			args := s.Args()
			// (nonce, timeout, txs, contract, block, chain, turnstone, assignee, remote, gas)
			okA := len(args) >= 9
			if okA {
				ex, isE := canon(args[7]).(*ssa.Extract)
				okA = isE && ex.Index == 0
				if okA {
					c, isC := ex.Tuple.(*ssa.Call)
					cal := Callee{}
					if isC {
						cal, _ = CalleeOf(c.Common())
					}
					okA = isC && cal.Name == "PickValidatorForMessage" && GuardErrNil(s.Instr, isPick) != nil
				}
			}
			o.Check("C14.R1", "BuildOutgoingTXBatch|assignee from a checked pick", okA, w.Pos(s.Instr.Pos()), "the batch assignee must be result #0 of PickValidatorForMessage under its nil error")
			okR := false
			if len(args) >= 9 {
				okR = fl.DependsOnCall(args[8], isCallee(skw, "Keeper", "GetEthAddressByValidator")) != nil &&
					GuardErrNil(s.Instr, isCallee(skw, "Keeper", "GetEthAddressByValidator")) != nil &&
					GuardBool(s.Instr, isCallee(skw, "Keeper", "GetEthAddressByValidator"), true) != nil
			}
			o.Check("C14.R1", "BuildOutgoingTXBatch|remote address is the assignee's registered address", okR, w.Pos(s.Instr.Pos()), "the remote address must come from GetEthAddressByValidator(assignee) under err == nil and found")
		}
	}

	// ---- R2 ----
	if bvi := w.MustFunc(o, "x/evm/keeper", "msgAssigner", "buildValidatorsInfos"); bvi != nil {
		o.Analysed(w.FuncKey(bvi))
		n := 0
		for _, b := range bvi.Blocks {
			for _, in := range b.Instrs {
				mu, ok := in.(*ssa.MapUpdate)
				if !ok {
					continue
				}
				if n2 := namedOf(mu.Value.Type()); n2 == nil || n2.Obj().Name() != "ValidatorInfo" {
					continue
				}
				n++
				oks := 0
				for _, f := range FactsAt(mu) {
					if f.Kind == FTrue {
						if ex, ok := canon(f.V).(*ssa.Extract); ok {
							if _, ok := ex.Tuple.(*ssa.Lookup); ok {
								oks++
							}
						}
					}
				}
				o.Check("C14.R2", "buildValidatorsInfos|entry only with metrics and fee records", oks >= 2, w.Pos(mu.Pos()), "the scoring entry must be dominated by both lookups succeeding (found "+itoa(oks)+")")
			}
		}
		o.Count("C14.R2 scoring table writes", n, 1)
	}
	if fvj := w.MustFunc(o, "x/evm/keeper", "", "filterValidatorsForJob"); fvj != nil {
		o.Analysed(w.FuncKey(fvj))
		n := 0
		// the filter closure together with the helpers a later edit split it into
		var filterFns []*ssa.Function
		for _, g := range fvj.AnonFuncs {
			for _, u := range unitFuncs(g) {
				dup := false
				for _, x := range filterFns {
					if x == u {
						dup = true
					}
				}
				if !dup {
					filterFns = append(filterFns, u)
				}
			}
		}
		inFilter := func(h *ssa.Function) bool {
			for _, x := range filterFns {
				if x == h {
					return true
				}
			}
			return false
		}
		for _, g := range filterFns {
			for _, b := range g.Blocks {
				r, ok := b.Instrs[len(b.Instrs)-1].(*ssa.Return)
				if !ok || len(r.Results) != 1 || !isBoolType(r.Results[0].Type()) {
					continue
				}
				bv, isC := boolConst(r.Results[0])
				// slices.Contains(account.Traits, MEV) as the verdict: an acceptance under the MEV trait of that account
				var containsTraitsOf ssa.Value
				if !isC {
					if c, isCall := canonLocal(r.Results[0]).(*ssa.Call); isCall {
						if h := c.Call.StaticCallee(); h != nil && inFilter(h) {
							continue // the verdict of a helper of the filter: judged at that helper's own returns
						}
						if cal, okc := CalleeOf(c.Common()); okc && cal.Pkg == "slices" && strings.HasPrefix(cal.Name, "Contains") && !strings.HasPrefix(cal.Name, "ContainsFunc") && len(c.Call.Args) == 2 {
							if k, isK := c.Call.Args[1].(*ssa.Const); isK && k.Value != nil && strings.Contains(k.Value.ExactString(), "mev") {
								if nm, base := loadedField(c.Call.Args[0]); nm == "Traits" && base != nil {
									containsTraitsOf = elemRoot(base)
								}
							}
						}
					}
					if containsTraitsOf == nil {
						o.Fail("C14.R2", "filterValidatorsForJob|non-constant result", w.Pos(r.Pos()), "the job filter's verdicts must be explicit so that each acceptance can be matched to its conditions")
						continue
					}
				} else if !bv {
					continue
				}
				n++
				// chain match on element E of ExternalChainInfos
				var chainElem ssa.Value
				okChain := false
				for _, f := range FactsAt(r) {
					if f.Kind == FCmp && f.Op == token.EQL {
						for _, side := range []ssa.Value{f.X, f.Y} {
							if nm, base := loadedField(side); nm == "ChainReferenceID" {
								okChain = true
								chainElem = elemRoot(base)
							}
						}
					}
				}
				// either no MEV requirement (on every incoming edge), or the MEV trait of that same account
				isNoReq := func(f Fact) bool {
					if f.Kind == FNil {
						switch x := canon(f.V).(type) {
						case *ssa.FreeVar:
							return x.Name() == "req"
						case *ssa.Parameter:
							return x.Name() == "req"
						case *ssa.UnOp:
							if p, ok := x.X.(*ssa.FreeVar); ok && p.Name() == "req" {
								return true
							}
						}
					}
					if f.Kind == FFalse {
						if nm, _ := loadedField(f.V); nm == "EnforceMEVRelay" {
							return true
						}
					}
					return false
				}
				isMev := func(f Fact) bool {
					if f.Kind != FCmp || f.Op != token.EQL {
						return false
					}
					for _, pair := range [][2]ssa.Value{{f.X, f.Y}, {f.Y, f.X}} {
						if c, ok := pair[1].(*ssa.Const); ok && c.Value != nil && strings.Contains(c.Value.ExactString(), "mev") {
							if u, ok := canon(pair[0]).(*ssa.UnOp); ok {
								if ia, ok := u.X.(*ssa.IndexAddr); ok {
									if nm, base := loadedField(ia.X); nm == "Traits" && chainElem != nil && elemRoot(base) == chainElem {
										return true
									}
								}
							}
						}
					}
					return false
				}
				noReq, mev := false, false
				var edgeSets [][]Fact
				if len(b.Preds) > 1 {
					edgeSets = FactsPerPred(b)
				} else {
					edgeSets = [][]Fact{FactsAt(r)}
				}
				all := true
				for _, fs := range edgeSets {
					okEdge := false
					for _, f := range fs {
						if isNoReq(f) || isMev(f) {
							okEdge = true
						}
					}
					if !okEdge {
						all = false
					}
				}
				if all {
					noReq = true
				}
				if containsTraitsOf != nil {
					noReq, mev = false, chainElem != nil && containsTraitsOf == chainElem
				}
				o.Check("C14.R2", "filterValidatorsForJob|accepted only through its account on the requested chain", okChain, w.Pos(r.Pos()), "'return true' must be dominated by ExternalChainInfos[i].ChainReferenceID == chainID")
				o.Check("C14.R2", "filterValidatorsForJob|MEV requirement met by that same account", noReq || mev, w.Pos(r.Pos()), "under an MEV requirement the accepted validator must carry the MEV trait on the chain-matched account, not on some other chain's account")
			}
		}
		o.Count("C14.R2 acceptances in the job filter", n, 2)
	}

	// ---- R3 ----
	gmr := w.MustFunc(o, "x/consensus/keeper", "Keeper", "GetMessagesForRelaying")
	if gmr != nil {
		o.Analysed(w.FuncKey(gmr))
		names := []string{"IsNotBlockedByValset", "IsUnprocessed", "IsOldestMsgPerSender", "HasGasEstimate", "IsAssignedTo"}
		var cl *ssa.Function
		calls := map[string]Site{}
		for _, g := range gmr.AnonFuncs {
			for _, s := range CallsIn(g) {
				if strings.HasSuffix(s.Callee.Pkg, "/keeper/filters") {
					cl = g
					calls[s.Callee.Name] = s
				}
			}
		}
		for _, nme := range names {
			_, ok := calls[nme]
			o.Check("C14.R3", "GetMessagesForRelaying|filter "+nme+" applied", ok, w.Pos(gmr.Pos()), "all five relay filters must be part of the conjunction")
		}
		if cl != nil && len(calls) == 5 {
			// the conjunction may live in a helper the closure hands its verdict to: judge the returns of the
			// function holding the filter calls, and require the closure to return that function's result as is
			holder := cl
			same := true
			for _, s := range calls {
				if hp := s.Instr.Parent(); hp != cl {
					if holder != cl && holder != hp {
						same = false
					}
					holder = hp
				}
			}
			if holder != cl {
				pass := same && isNewHelper(holder)
				for _, r := range Returns(cl) {
					c, isCall := canonLocal(r.Ret.Results[0]).(*ssa.Call)
					if !isCall || c.Call.StaticCallee() != holder {
						pass = false
					}
				}
				o.Check("C14.R3", "GetMessagesForRelaying|result is the filter conjunction", pass, w.Pos(cl.Pos()), "the closure must return the verdict of the helper that evaluates the five filters")
			}
			// value returned for evm messages: every non-false contribution is a filter result dominated by the other four being true
			for _, r := range Returns(holder) {
				v := canon(r.Ret.Results[0])
				if bv, isC := boolConst(v); isC {
					if bv {
						// allowed only for non-evm messages: dominated by a failed type assertion or unpack error
						okN := false
						for _, f := range FactsAt(r.Ret) {
							if f.Kind == FNonNil && isErrorType(f.V.Type()) {
								okN = true
							}
							if f.Kind == FFalse {
								if ex, ok := canon(f.V).(*ssa.Extract); ok {
									if _, ok := ex.Tuple.(*ssa.TypeAssert); ok {
										okN = true
									}
								}
							}
						}
						o.Check("C14.R3", "GetMessagesForRelaying|unconditional acceptance only for non-evm messages", okN, w.Pos(r.Ret.Pos()), "'return true' without filters is allowed only when the message is not an evm message")
					}
					continue
				}
				var contrib []ssa.Value
				if phi, ok := v.(*ssa.Phi); ok {
					contrib = append(contrib, phi.Edges...)
				} else {
					contrib = append(contrib, v)
				}
				for _, e := range contrib {
					if bv, isC := boolConst(e); isC && !bv {
						continue
					}
					c, isCall := canon(e).(*ssa.Call)
					if !isCall {
						o.Fail("C14.R3", "GetMessagesForRelaying|result is the filter conjunction", w.Pos(r.Ret.Pos()), "the closure's result must be the short-circuit conjunction of the filters")
						continue
					}
					missing := []string{}
					for _, nme := range names {
						s := calls[nme]
						if s.Value() == ssa.Value(c) {
							continue
						}
						if GuardBool(c, func(cc Callee) bool { return cc.Name == nme }, true) == nil {
							missing = append(missing, nme)
						}
					}
					o.Check("C14.R3", "GetMessagesForRelaying|offered only if all five filters hold", len(missing) == 0, w.Pos(c.Pos()), "the deciding filter is not dominated by: "+strings.Join(missing, ","))
				}
			}
			// order: stateful filter before estimate / assignee filters
			for _, later := range []string{"HasGasEstimate", "IsAssignedTo"} {
				ok := GuardBool(calls[later].Instr, func(cc Callee) bool { return cc.Name == "IsOldestMsgPerSender" }, true) != nil
				o.Check("C14.R3", "GetMessagesForRelaying|oldest-per-sender evaluated before "+later, ok, w.Pos(calls[later].Instr.Pos()),
					"IsOldestMsgPerSender records the sender as a side effect; if "+later+" runs first, an older message that is not relayable yet does not block younger messages of the same sender")
			}
		}
	}
	// the valset gate holds a message back behind the *oldest* pending update: the list is in id order, so the
	// update compared with is element 0 (or every element, in a loop), never one picked from the far end
	if nb := w.MustFunc(o, "x/consensus/keeper/filters", "", "IsNotBlockedByValset"); nb != nil {
		o.Analysed(w.FuncKey(nb))
		n := 0
		for _, b := range nb.Blocks {
			for _, in := range b.Instrs {
				var idx ssa.Value
				switch x := in.(type) {
				case *ssa.IndexAddr:
					idx = x.Index
				case *ssa.Index:
					idx = x.Index
				default:
					continue
				}
				okI := false
				switch v := idx.(type) {
				case *ssa.Const:
					okI = v.Int64() == 0
				case *ssa.Phi:
					okI = true // loop variable: every pending update is compared
				case *ssa.BinOp:
					// the rotated form of a range loop: index + 1
					if _, isPhi := v.X.(*ssa.Phi); isPhi && v.Op == token.ADD {
						okI = true
					}
				}
				o.Check("C14.R3", "IsNotBlockedByValset|compares with the oldest pending update"+ordSuffix(n), okI, w.Pos(in.Pos()),
					"the pending updates are in id order; gating on any element but the first (the newest, len-1) offers messages queued between two pending updates, and the younger update itself, ahead of the older update")
				n++
			}
		}
		o.Note("C14.R3", "IsNotBlockedByValset|element accesses", w.Pos(nb.Pos()), itoa(n))
	}
	// the stateful filter itself
	if iom := w.MustFunc(o, "x/consensus/keeper/filters", "", "IsOldestMsgPerSender"); iom != nil {
		n, nKey := 0, 0
		for _, b := range iom.Blocks {
			for _, in := range b.Instrs {
				if mu, ok := in.(*ssa.MapUpdate); ok {
					n++
					okS := fl.DependsOnCall(mu.Key, isCallee("", "", "GetSenderAddress")) != nil
					o.Check("C14.R3", "IsOldestMsgPerSender|records the sender", okS, w.Pos(mu.Pos()), "the look-up table must be keyed by the message's sender")
				}
				// one entry per sender: the key is the sender address itself, with nothing appended that would
				// let two messages of one sender fall under different keys
				var key ssa.Value
				switch x := in.(type) {
				case *ssa.MapUpdate:
					key = x.Key
				case *ssa.Lookup:
					if _, isMap := x.X.Type().Underlying().(*types.Map); isMap {
						key = x.Index
					}
				}
				if key != nil {
					exact := false
					if c, ok := canon(key).(*ssa.Call); ok {
						if cal, ok := CalleeOf(c.Common()); ok {
							switch cal.Name {
							case "GetSenderAddress":
								exact = true
							case "EncodeToString", "Hex", "String":
								// an injective spelling of the same address
								if args := c.Common().Args; len(args) == 1 {
									if ic, ok := canon(args[0]).(*ssa.Call); ok {
										if ical, ok := CalleeOf(ic.Common()); ok && ical.Name == "GetSenderAddress" {
											exact = true
										}
									}
								}
							}
						}
					}
					o.Check("C14.R3", "IsOldestMsgPerSender|the table key is the sender address alone"+ordSuffix(nKey), exact, w.Pos(in.Pos()),
						"a key made of the sender and something else (the target contract) lets a younger message of the same sender pass while an older one is pending")
					nKey++
				}
			}
		}
		o.Count("C14.R3 sender table updates", n, 1)
		o.Count("C14.R3 sender table accesses", nKey, 2)
		for _, r := range Returns(iom) {
			if bv, isC := boolConst(r.Ret.Results[0]); isC && !bv {
				okF := false
				for _, f := range FactsAt(r.Ret) {
					if f.Kind == FTrue {
						if ex, ok := canon(f.V).(*ssa.Extract); ok {
							if _, ok := ex.Tuple.(*ssa.Lookup); ok {
								okF = true
							}
						}
					}
				}
				o.Check("C14.R3", "IsOldestMsgPerSender|rejects only a sender already seen", okF, w.Pos(r.Ret.Pos()), "'false' must be dominated by the sender being present in the table")
			}
		}
	}

	// pending valset updates: every UpdateValset message still in the queue blocks younger messages,
	// whatever its processing state
	if gp := w.MustFunc(o, "x/consensus/keeper", "Keeper", "GetPendingValsetUpdates"); gp != nil {
		o.Analysed(w.FuncKey(gp))
		nRet := 0
		for _, g := range gp.AnonFuncs {
			for _, r := range Returns(g) {
				if len(r.Ret.Results) != 1 {
					continue
				}
				isUV := false
				for _, fa := range FactsAt(r.Ret) {
					if fa.Kind != FTrue {
						continue
					}
					if ex, ok := canon(fa.V).(*ssa.Extract); ok {
						if ta, ok := ex.Tuple.(*ssa.TypeAssert); ok && strings.HasSuffix(types.TypeString(ta.AssertedType, nil), ".Message_UpdateValset") {
							isUV = true
						}
					}
				}
				if !isUV {
					continue
				}
				nRet++
				bv, isConst := boolConst(canon(r.Ret.Results[0]))
				o.Check("C14.R3", "GetPendingValsetUpdates|every queued UpdateValset message counts as pending", isConst && bv, w.Pos(r.Ret.Pos()),
					"a valset update that was relayed (or errored) but is still awaiting attestation must keep blocking younger messages of its chain; the selection must not depend on anything but the action type")
			}
		}
		o.Count("C14.R3 returns for UpdateValset messages in GetPendingValsetUpdates", nRet, 1)
	}

	// ---- R4 ----
	if cf := w.MustFunc(o, "x/consensus/keeper", "Keeper", "calculateFeesForEstimate"); cf != nil {
		o.Analysed(w.FuncKey(cf))
		type feeSpec struct{ field, mult, base string }
		for _, fs := range []feeSpec{{"RelayerFee", ".RelayerFee", "estimate"}, {"CommunityFee", ".CommunityFee", "fees.RelayerFee"}, {"SecurityFee", ".SecurityFee", "fees.RelayerFee"}} {
			sts := storesToField(cf, "Fees", fs.field)
			if len(sts) == 0 {
				o.Fail("C14.R4", "calculateFeesForEstimate|"+fs.field+" assigned", w.Pos(cf.Pos()), "fee not computed")
				continue
			}
			for _, st := range sts {
				aps, calls := fl.Influence(st.Val)
				ceil, trunc, mul := false, false, false
				for c := range calls {
					if cal, ok := CalleeOf(c.Common()); ok && cal.Pkg == "cosmossdk.io/math" {
						switch cal.Name {
						case "Ceil":
							ceil = true
						case "TruncateInt", "TruncateInt64":
							trunc = true
						case "MulInt", "Mul", "MulInt64":
							mul = true
						case "RoundInt", "RoundInt64", "Floor":
							ceil = false
							trunc = false
						}
					}
				}
				okM, okB := false, false
				for a := range aps {
					if strings.HasSuffix(a.Path, fs.mult) && strings.HasPrefix(a.String(), "call:") {
						okM = true
					}
					if p, ok := a.Root.(*ssa.Parameter); ok && fs.base == "estimate" && p.Name() == "estimate" {
						okB = true
					}
				}
				if fs.base != "estimate" {
					// depends on the relayer fee computed before: same function's RelayerFee store value
					for _, rs := range storesToField(cf, "Fees", "RelayerFee") {
						ra, _ := fl.Influence(rs.Val)
						for a := range ra {
							if p, ok := a.Root.(*ssa.Parameter); ok && p.Name() == "estimate" && aps[a] {
								okB = true
							}
						}
					}
				}
				// Ceil must feed TruncateInt (order): find TruncateInt call whose receiver is a Ceil result, in cf or its helper
				order := false
				for c := range calls {
					if cal, ok := CalleeOf(c.Common()); ok && cal.Name == "TruncateInt" && len(c.Call.Args) > 0 {
						if rc, ok := canon(c.Call.Args[0]).(*ssa.Call); ok {
							if rcal, ok := CalleeOf(rc.Common()); ok && rcal.Name == "Ceil" {
								order = true
							}
						}
					}
				}
				if fs.base != "estimate" {
					// ... and it is the relayer fee as stored (already rounded up), not the raw product
					fromStored := false
					// the rounded relayer fee: the Fees.RelayerFee field, or the very value stored into it
					var relayerVals []ssa.Value
					for _, rs := range storesToField(cf, "Fees", "RelayerFee") {
						relayerVals = append(relayerVals, canonLocal(rs.Val))
					}
					isRounded := func(v ssa.Value) bool {
						if nm, base := loadedField(v); nm == "RelayerFee" && base != nil {
							if nt := namedOf(derefType(base.Type())); nt != nil && nt.Obj().Name() == "Fees" {
								return true
							}
						}
						for _, rv := range relayerVals {
							if canonLocal(v) == rv {
								return true
							}
						}
						return false
					}
					// the call that produced this fee (for helpers: which argument feeds the base)
					var producer *ssa.Call
					switch x := canonLocal(st.Val).(type) {
					case *ssa.Extract:
						producer, _ = x.Tuple.(*ssa.Call)
					case *ssa.Call:
						producer = x
					}
					for c := range calls {
						if cal, ok := CalleeOf(c.Common()); ok && cal.Pkg == "cosmossdk.io/math" && strings.HasPrefix(cal.Name, "NewInt") && len(c.Call.Args) == 1 {
							arg := canonLocal(c.Call.Args[0])
							if isRounded(arg) {
								fromStored = true
							}
							if q, isP := arg.(*ssa.Parameter); isP && producer != nil && producer.Call.StaticCallee() == q.Parent() {
								for i, pp := range q.Parent().Params {
									if pp == q && i < len(producer.Call.Args) && isRounded(producer.Call.Args[i]) {
										fromStored = true
									}
								}
							}
						}
					}
					o.Check("C14.R4", "calculateFeesForEstimate|"+fs.field+" is computed from the relayer fee as charged", fromStored, w.Pos(st.Pos()),
						"community and security fees are a rate of the relayer fee the message carries (rounded up to a whole unit); computing them from the unrounded product gives ceil(rate·m·g) instead of ceil(rate·ceil(m·g))")
				}
				o.Check("C14.R4", "calculateFeesForEstimate|"+fs.field+" = ceil(multiplier × base)", ceil && trunc && mul && order && okM && okB, w.Pos(st.Pos()),
					"fee must be Ceil() of the multiplier times its base before truncation; influence="+strings.Join(aps.Strings(), ","))
			}
		}
	}
}

func paramIndex(f *ssa.Function, p *ssa.Parameter) int {
	for i, x := range f.Params {
		if x == p {
			return i
		}
	}
	return -1
}

// elemRoot: the IndexAddr (slice element) an expression is based on, e.g. &infos[i] for infos[i].Traits.
func elemRoot(v ssa.Value) ssa.Value {
	for i := 0; i < 8 && v != nil; i++ {
		switch x := v.(type) {
		case *ssa.IndexAddr:
			return x
		case *ssa.FieldAddr:
			v = x.X
		case *ssa.UnOp:
			v = x.X
		case *ssa.Field:
			v = x.X
		case *ssa.Parameter:
			// the parameter of a helper introduced later stands for the argument at its only call site
			if nv := canon(x); nv != ssa.Value(x) {
				v = nv
			} else {
				return v
			}
		case *ssa.Alloc:
			// range value copy: find the element stored into it
			for _, r := range *x.Referrers() {
				if st, ok := r.(*ssa.Store); ok && st.Addr == ssa.Value(x) {
					return elemRoot(st.Val)
				}
			}
			return x
		default:
			return v
		}
	}
	return v
}

var _ = types.Typ
