package main

// C05 — what validators sign binds the whole message; message ids are never reused.
// C07 — a remote transaction proves delivery of exactly the message it carries, once.
// (shared: the sibling cross-check between keccak256 and VerifyAgainstTX.)

import (
	"go/token"
	"go/types"
	"sort"
	"strings"

	"golang.org/x/tools/go/ssa"
)

func init() {
	register("C05", rulesC05)
	register("C07", rulesC07)
}

var evmActions = []string{"SubmitLogicCall", "UpdateValset", "UploadSmartContract", "UploadUserSmartContract", "CompassHandover"}

// actionPaths normalises an influence set to message-relative leaf paths:
//
//	receiver root (m / _m)        -> "<field path>" with the oneof wrapper field stripped
//	orig                          -> "orig.<field>"
//	nonce / msg.Id                -> "msg.Id"
//	gasEstimate / msg.GasEstimate -> "msg.GasEstimate"
//	msg.SignData...               -> "msg.SignData"
//	relayer                       -> "orig.AssigneeRemoteAddress"
//	valset / compass              -> "ctx.valset" / "ctx.compass" (context of verification, not part of the message)
func actionPaths(f *ssa.Function, aps APSet, action string) map[string]bool {
	out := map[string]bool{}
	for a := range aps {
		p, ok := a.Root.(*ssa.Parameter)
		if !ok || p.Parent() != f {
			continue
		}
		path := a.Path
		name := p.Name()
		// the action hashers are called positionally -- keccak256(orig, q.GetId(), q.GasEstimate) -- so their
		// parameters mean what their position says, whatever they are called
		if f.Name() == "keccak256" && f.Signature.Recv() != nil && len(f.Params) == 4 {
			switch p {
			case f.Params[1]:
				name = "orig"
			case f.Params[2]:
				name = "nonce"
			case f.Params[3]:
				name = "gasEstimate"
			}
		}
		switch name {
		case "m", "_m":
			path = strings.TrimPrefix(path, "."+action)
			if path == "" {
				path = ".<whole>"
			}
			out[strings.TrimPrefix(path, ".")] = true
		case "orig":
			out["orig"+path] = true
		case "nonce":
			out["msg.Id"] = true
		case "gasEstimate":
			out["msg.GasEstimate"] = true
		case "msg":
			switch {
			case strings.HasPrefix(path, ".Id"):
				out["msg.Id"] = true
			case strings.HasPrefix(path, ".GasEstimate") && !strings.HasPrefix(path, ".GasEstimates"):
				out["msg.GasEstimate"] = true
			case strings.HasPrefix(path, ".SignData"):
				out["msg.SignData"] = true
			default:
				out["msg"+path] = true
			}
		case "relayer":
			out["orig.AssigneeRemoteAddress"] = true
		case "valset":
			out["ctx.valset"] = true
		case "compass":
			out["ctx.compass"] = true
		case "turnstoneID":
			out["turnstoneID"] = true
		default:
			if p.Name() != "ctx" && p.Name() != "tx" {
				out["param:"+p.Name()+path] = true
			}
		}
	}
	return out
}

func keys(m map[string]bool) []string {
	var o []string
	for k := range m {
		o = append(o, k)
	}
	sort.Strings(o)
	return o
}

func covered(d string, S map[string]bool) bool {
	if S[d] {
		return true
	}
	for s := range S {
		// a signed container covers its leaves; a delivered container is covered when some leaf below it is signed
		// only if every delivered leaf below is itself listed (leaves are compared individually)
		if strings.HasPrefix(d, s+".") || strings.HasPrefix(d, s+"[") {
			return true
		}
	}
	return false
}

// signedSet computes S(A): message-relative paths influencing the Keccak256 argument of A.keccak256.
func signedSet(w *World, o *Out, fl *Flow, action string) (map[string]bool, *ssa.Function) {
	f := w.Func("x/evm/types", "Message_"+action, "keccak256")
	if f == nil || len(f.Blocks) == 0 {
		o.Unresolved("x/evm/types.Message_" + action + ".keccak256")
		return nil, nil
	}
	o.Analysed(w.FuncKey(f))
	S := map[string]bool{}
	n := 0
	// the hash that is returned
	for _, r := range Returns(f) {
		if r.Kind == RetError || len(r.Ret.Results) == 0 {
			continue
		}
		for _, c := range callsBehind(r.Ret.Results[0]) {
			cal, ok := CalleeOf(c.Common())
			if !ok || cal.Name != "Keccak256" {
				continue
			}
			n++
			for _, a := range c.Common().Args {
				aps, _ := fl.Influence(a)
				for k := range actionPaths(f, aps, action) {
					S[k] = true
				}
			}
		}
	}
	if n == 0 {
		o.Unresolved("returned Keccak256 call in " + w.FuncKey(f))
	}
	return S, f
}

// deliveredSet computes D(A): message-relative paths influencing the byte slice compared with tx.Data().
func deliveredSet(w *World, o *Out, fl *Flow, action string) (map[string]bool, *ssa.Function, []Site) {
	f := w.Func("x/evm/types", action, "VerifyAgainstTX")
	if f == nil || len(f.Blocks) == 0 {
		o.Unresolved("x/evm/types." + action + ".VerifyAgainstTX")
		return nil, nil, nil
	}
	o.Analysed(w.FuncKey(f))
	D := map[string]bool{}
	eqs := FindCalls(f, false, isCallee("bytes", "", "Equal"))
	var good []Site
	for _, e := range eqs {
		args := e.Args()
		if len(args) != 2 {
			continue
		}
		// one side is tx.Data()
		var other ssa.Value
		for i, a := range args {
			for _, c := range callsBehind(a) {
				if cal, ok := CalleeOf(c.Common()); ok && cal.Name == "Data" && cal.Recv == "Transaction" {
					if p, ok := c.Common().Args[0].(*ssa.Parameter); ok && p.Name() == "tx" {
						other = args[1-i]
					}
				}
			}
		}
		if other == nil {
			continue
		}
		good = append(good, e)
		aps, _ := fl.Influence(other)
		for k := range actionPaths(f, aps, action) {
			D[k] = true
		}
	}
	return D, f, good
}

// turnstone must be signed for these actions (the bridge contract's scheme includes the deployment id).
var needsTurnstone = map[string]bool{"SubmitLogicCall": true, "UpdateValset": true, "UploadUserSmartContract": true}

// checkpoint completeness (C05.R2): fields of the batch / transfer that the bridge contract receives.
var checkpointRequired = []string{"TokenContract", "Transactions[].DestAddress", "Transactions[].Erc20Token.Amount", "BatchNonce", "BatchTimeout", "AssigneeRemoteAddress", "GasEstimate", "turnstoneID"}

var checkpointExempt = map[string]string{
	"PalomaBlockCreated":                         "Paloma-side bookkeeping, never sent to the remote contract",
	"ChainReferenceID":                           "selects the store / chain; the deployment is bound through turnstoneID",
	"BytesToSign":                                "the checkpoint itself",
	"Assignee":                                   "Paloma validator address; the remote side sees AssigneeRemoteAddress",
	"Transactions[].Id":                          "Paloma-side transfer id, not sent",
	"Transactions[].Sender":                      "Paloma-side sender, not sent",
	"Transactions[].BridgeTaxAmount":             "tax stays on Paloma, not sent",
	"Transactions[].Erc20Token.Contract":         "equals the batch token contract for every transfer of a batch",
	"Transactions[].Erc20Token.ChainReferenceID": "equals the batch chain",
}

func structLeaves(t types.Type, prefix string, depth int, out *[]string) {
	for {
		if p, ok := t.Underlying().(*types.Pointer); ok {
			t = p.Elem()
			continue
		}
		break
	}
	st, ok := t.Underlying().(*types.Struct)
	if !ok || depth > 1 {
		*out = append(*out, prefix)
		return
	}
	for i := 0; i < st.NumFields(); i++ {
		f := st.Field(i)
		if strings.HasPrefix(f.Name(), "XXX_") {
			continue
		}
		name := f.Name()
		if prefix != "" {
			name = prefix + "." + name
		}
		ft := f.Type()
		if sl, ok := ft.Underlying().(*types.Slice); ok {
			et := sl.Elem()
			if _, isB := et.Underlying().(*types.Basic); !isB {
				if n := namedOf(et); n != nil && strings.HasPrefix(n.Obj().Name(), "Internal") {
					structLeaves(et, name+"[]", depth+1, out)
					continue
				}
			}
		}
		if n := namedOf(ft); n != nil && n.Obj().Pkg() != nil && strings.HasSuffix(n.Obj().Pkg().Path(), "x/skyway/types") && n.Obj().Name() == "InternalERC20Token" {
			structLeaves(ft, name, depth+1, out)
			continue
		}
		*out = append(*out, name)
	}
}

func rulesC05(w *World, o *Out) {
	fl := NewFlow(w)
	fl.MaxDepth = 6
	o.Rule("C05.R1", "for every action type with both keccak256 and VerifyAgainstTX: every message-relative access path that influences the call data compared with the remote transaction (delivered set D) also influences the Keccak256 input validators sign (signed set S); the deployment id is in S where the contract's scheme has it")
	o.Rule("C05.R4", "variable-length byte fields of a message (fee payer, payload, bytecode) do not pass through fixed-width go-ethereum conversions (BytesToAddress, BytesToHash, ...) on the way into the signing hash")
	o.Rule("C05.R2", "the batch checkpoint's Keccak256 input is influenced by token, receivers, amounts, nonce, timeout, relayer address, gas estimate and the turnstone id; every other field of the batch / transfer types is individually classified as not delivered")
	o.Rule("C05.R3", "the only id given to a new queued message comes from IDGenerator.IncrementNextID with one constant counter name, which persists last+1; no caller-supplied value can become the id of a newly created message")

	// the hashers are judged on the queue entry they receive: that must be the stored entry itself
	o.Rule("C05.R5", "the signing bytes of a queued message are computed by its action's hasher from the queue entry itself (id, elected gas estimate, ... as stored), not from a copy that drops fields")
	if gb := w.MustFunc(o, "x/consensus/types", "QueuedSignedMessage", "GetBytesToSign"); gb != nil {
		o.Analysed(w.FuncKey(gb))
		hs := FindCalls(gb, false, func(c Callee) bool { return c.Name == "Keccak256WithSignedMessage" })
		o.Count("C05.R5 hasher invocations in GetBytesToSign", len(hs), 1)
		for _, h := range hs {
			args := h.Args()
			ok := len(args) > 0 && len(gb.Params) > 0 && canon(args[len(args)-1]) == ssa.Value(gb.Params[0])
			o.Check("C05.R5", "GetBytesToSign|the hasher receives the stored queue entry", ok, w.Pos(h.Instr.Pos()), "Keccak256WithSignedMessage must be given the receiver q; the hashers read q.Id and q.GasEstimate, so a trimmed or rebuilt entry makes the signing bytes independent of fields that are delivered")
		}
		for _, r := range Returns(gb) {
			if r.Kind == RetError {
				continue
			}
			okR := false
			for _, h := range hs {
				for _, c := range callsBehind(r.Ret.Results[0]) {
					if c == h.Value() {
						okR = true
					}
				}
			}
			o.Check("C05.R5", "GetBytesToSign|returns the hasher's bytes", okR, w.Pos(r.Ret.Pos()), "the bytes validators sign must be the result of the action's Keccak256WithSignedMessage")
		}
	}

	nAct := 0
	for _, action := range evmActions {
		S, sf := signedSet(w, o, fl, action)
		D, df, eqs := deliveredSet(w, o, fl, action)
		if sf == nil || df == nil {
			continue
		}
		nAct++
		if action == "UploadSmartContract" {
			o.Note("C05.R1", action+"|exempt", w.Pos(sf.Pos()), "contract-creation transaction: no remote bridge contract receives or verifies it; S="+strings.Join(keys(S), ",")+" D="+strings.Join(keys(D), ","))
			continue
		}
		o.Check("C05.R1", action+"|delivered bytes located", len(eqs) > 0, w.Pos(df.Pos()), "bytes.Equal(tx.Data(), X) sites found: "+itoa(len(eqs)))
		for _, d := range keys(D) {
			if strings.HasPrefix(d, "ctx.") || d == "msg.SignData" {
				continue // verification context / the signatures themselves
			}
			o.Check("C05.R1", action+"|delivered "+d+" is signed", covered(d, S), w.Pos(sf.Pos()),
				"delivered to the bridge contract but absent from the signing bytes; S="+strings.Join(keys(S), ","))
		}
		if needsTurnstone[action] {
			o.Check("C05.R1", action+"|deployment id signed", S["orig.TurnstoneID"], w.Pos(sf.Pos()), "orig.TurnstoneID must influence the signing bytes; S="+strings.Join(keys(S), ","))
		}
		// every signed action field (other than deployment id) should be delivered too — informational
		for _, s := range keys(S) {
			if !covered(s, D) && s != "orig.TurnstoneID" {
				o.Note("C05.R1", action+"|signed but not delivered "+s, w.Pos(sf.Pos()), "signed field not part of the compared call data")
			}
		}
	}
	o.Count("C05.R1 action types cross-checked", nAct, 5)

	// ---- R4: variable-length byte fields are not cut to a fixed width on the signing path ----
	nTr := 0
	for _, action := range evmActions {
		f := w.Func("x/evm/types", "Message_"+action, "keccak256")
		if f == nil {
			continue
		}
		fns := []*ssa.Function{f}
		for _, s := range CallsDeep(f) {
			if s.Callee.Static != nil && w.IsProd(s.Callee.Static) && len(s.Callee.Static.Blocks) > 0 {
				fns = append(fns, s.Callee.Static)
			}
		}
		for _, g := range fns {
			for _, s := range CallsDeep(g) {
				c := s.Callee
				if c.Pkg != "github.com/ethereum/go-ethereum/common" {
					continue
				}
				switch c.Name {
				case "BytesToAddress", "BytesToHash", "LeftPadBytes", "RightPadBytes", "TrimLeftZeroes", "TrimRightZeroes":
				default:
					continue
				}
				nTr++
				if g != f {
					// helper: which call sites in f feed it a byte-slice message field?
					for _, cs := range FindCalls(f, true, func(cc Callee) bool { return cc.Static == g }) {
						for _, a := range cs.Args() {
							if _, ok := a.Type().Underlying().(*types.Slice); !ok {
								continue
							}
							aps, _ := fl.Influence(a)
							for k := range actionPaths(f, aps, action) {
								if !strings.HasPrefix(k, "orig.") && !strings.HasPrefix(k, "msg.") {
									o.Fail("C05.R4", action+"|"+k+" cut to fixed width by "+c.String()+" via "+w.FuncKey(g), w.Pos(cs.Instr.Pos()),
										"a variable-length byte field passes through a fixed-width conversion before it is signed; values differing only in the dropped bytes get identical signing bytes")
								}
							}
						}
					}
					continue
				}
				for _, a := range s.Args() {
					if _, ok := a.Type().Underlying().(*types.Slice); !ok {
						continue
					}
					aps, _ := fl.Influence(a)
					for k := range actionPaths(f, aps, action) {
						if !strings.HasPrefix(k, "orig.") && !strings.HasPrefix(k, "msg.") {
							o.Fail("C05.R4", action+"|"+k+" cut to fixed width by "+c.String(), w.Pos(s.Instr.Pos()),
								"a variable-length byte field passes through a fixed-width conversion before it is signed; values differing only in the dropped bytes get identical signing bytes")
						}
					}
				}
			}
		}
	}
	o.Pass("C05.R4", "no fixed-width truncation of byte fields on signing paths", "-", "truncating go-ethereum conversions applied to byte-slice message fields on keccak256 paths: "+itoa(nTr)+" examined")

	// mapping at the call sites: keccak256(m, q.GetId(), q.GasEstimate)
	kw := w.MustFunc(o, "x/evm/types", "Message", "Keccak256WithSignedMessage")
	if kw != nil {
		o.Analysed(w.FuncKey(kw))
		sites := FindCalls(kw, false, func(c Callee) bool { return c.Name == "keccak256" })
		o.Count("C05.R1 keccak256 dispatch sites", len(sites), 1)
		for _, s := range sites {
			args := s.Args()
			ok := len(args) == 4
			if ok {
				if p, isP := canon(args[1]).(*ssa.Parameter); !isP || p != kw.Params[0] {
					ok = false
				}
				a2, _ := fl.Influence(args[2])
				a3, _ := fl.Influence(args[3])
				has := func(s APSet, suffix string) bool {
					for a := range s {
						if p, isP := a.Root.(*ssa.Parameter); isP && p == kw.Params[1] && a.Path == suffix {
							return true
						}
					}
					return false
				}
				if !has(a2, ".Id") || !has(a3, ".GasEstimate") {
					ok = false
				}
			}
			o.Check("C05.R1", "Keccak256WithSignedMessage|passes (message, queue id, elected estimate)", ok, w.Pos(s.Instr.Pos()), "keccak256 must receive the message itself, q.Id as nonce and q.GasEstimate")
		}
	}

	// ---- R2 ----
	gc := w.MustFunc(o, "x/skyway/types", "InternalOutgoingTxBatch", "GetCheckpoint")
	if gc != nil {
		o.Analysed(w.FuncKey(gc))
		S := map[string]bool{}
		for _, r := range Returns(gc) {
			if r.Kind == RetError || len(r.Ret.Results) == 0 {
				continue
			}
			for _, c := range callsBehind(r.Ret.Results[0]) {
				if cal, ok := CalleeOf(c.Common()); ok && cal.Name == "Keccak256" {
					for _, a := range c.Common().Args {
						aps, _ := fl.Influence(a)
						for ap := range aps {
							if p, ok := ap.Root.(*ssa.Parameter); ok && p.Parent() == gc {
								if p.Name() == "turnstoneID" {
									S["turnstoneID"] = true
								} else {
									S[strings.TrimPrefix(ap.Path, ".")] = true
								}
							}
						}
					}
				}
			}
		}
		for _, req := range checkpointRequired {
			o.Check("C05.R2", "GetCheckpoint|binds "+req, covered(req, S) || coveredBelow(req, S), w.Pos(gc.Pos()), "must influence the checkpoint hash; S="+strings.Join(keys(S), ","))
		}
		var leaves []string
		structLeaves(gc.Params[0].Type(), "", 0, &leaves)
		for _, l := range leaves {
			isReq := false
			for _, req := range checkpointRequired {
				if req == l || strings.HasPrefix(l, req+".") || strings.HasPrefix(req, l+".") {
					isReq = true
				}
			}
			if isReq {
				continue
			}
			if why, ok := checkpointExempt[l]; ok {
				o.Pass("C05.R2", "GetCheckpoint|field "+l+" classified", w.Pos(gc.Pos()), "not delivered: "+why)
				continue
			}
			o.Check("C05.R2", "GetCheckpoint|field "+l+" classified", covered(l, S) || coveredBelow(l, S), w.Pos(gc.Pos()), "a field of the batch that is neither signed nor classified as not delivered")
		}
	}

	checkpointProvenance(w, o, fl, "C05.R2")
	// defaults on the signing path replace a *missing* fee record only: the remote contract receives the
	// message's own fee values (VerifyAgainstTX packs m.Fees.X as they are), so a value-dependent
	// substitution (0 -> default) makes two different deliveries share one signature
	if fd := w.Func("x/evm/types", "", "feesOrDefault"); fd != nil && len(fd.Params) == 1 {
		o.Analysed(w.FuncKey(fd))
		okF, why := true, ""
		for _, r := range Returns(fd) {
			if len(r.Ret.Results) != 1 {
				continue
			}
			v := canon(r.Ret.Results[0])
			if v == ssa.Value(fd.Params[0]) {
				continue
			}
			al, isAl := v.(*ssa.Alloc)
			if !isAl {
				okF, why = false, "returns "+v.String()
				continue
			}
			for _, rf := range *al.Referrers() {
				fa, isFA := rf.(*ssa.FieldAddr)
				if !isFA {
					continue
				}
				for _, rf2 := range *fa.Referrers() {
					if st, isSt := rf2.(*ssa.Store); isSt && st.Addr == ssa.Value(fa) {
						if _, isC := canon(st.Val).(*ssa.Const); !isC {
							okF, why = false, "the substituted record's "+fieldName(fa.X.Type(), fa.Field)+" is computed from "+st.Val.String()
						}
					}
				}
			}
		}
		o.Check("C05.R1", "feesOrDefault|a default replaces only a missing fee record, never an individual fee value", okF, w.Pos(fd.Pos()),
			"the signed bytes must distinguish every fee value that can be delivered; "+why)
	}

	// ---- R3 ----
	put := w.MustFunc(o, "x/consensus/keeper/consensus", "Queue", "Put")
	if put != nil {
		o.Analysed(w.FuncKey(put))
		sts := storesToField(put, "QueuedSignedMessage", "Id")
		o.Count("C05.R3 Id assignments in Put", len(sts), 1)
		for _, st := range sts {
			aps, calls := fl.Influence(st.Val)
			okCall := false
			var ctr []string
			for c := range calls {
				if cal, ok := CalleeOf(c.Common()); ok && cal.Name == "IncrementNextID" {
					okCall = true
					args := c.Common().Args
					last := args[len(args)-1]
					la, _ := fl.Influence(last)
					for a := range la {
						ctr = append(ctr, a.String())
					}
				}
			}
			bad := []string{}
			for a := range aps {
				if p, ok := a.Root.(*ssa.Parameter); ok {
					if p.Name() == "opts" || p.Name() == "msg" {
						bad = append(bad, a.String())
					}
				}
			}
			sort.Strings(bad)
			o.Check("C05.R3", "Put|new message id from the shared counter only", okCall && len(bad) == 0, w.Pos(st.Pos()),
				"the id of a created message must come from IncrementNextID alone; caller-controlled influence: "+strings.Join(bad, ",")+" counter name from: "+strings.Join(ctr, ","))
			constName := true
			for _, c := range ctr {
				if !strings.HasPrefix(c, "const:") && !strings.HasPrefix(c, "global:") {
					constName = false
				}
			}
			o.Check("C05.R3", "Put|one constant counter name for every queue", constName && len(ctr) > 0, w.Pos(st.Pos()), "the counter key must not depend on the queue; derives from "+strings.Join(ctr, ","))
		}
		// the replace branch must fail when the message does not exist: save of a caller-supplied id only after GetMsgByID == nil error
		gm := FindCalls(put, false, isCallee("x/consensus/keeper/consensus", "Queue", "GetMsgByID"))
		msgStores := storesToField(put, "QueuedSignedMessage", "Msg")
		for _, st := range msgStores {
			if _, isAlloc := baseOf(st.Addr).(*ssa.Alloc); isAlloc {
				continue // composite literal of the new message
			}
			ok := GuardErrNil(st, isCallee("x/consensus/keeper/consensus", "Queue", "GetMsgByID")) != nil
			o.Check("C05.R3", "Put|replace only an existing message", ok && len(gm) > 0, w.Pos(st.Pos()), "the in-place replacement must be dominated by a successful GetMsgByID of the id to replace")
		}
	}
	inc := w.MustFunc(o, "util/keeper", "IDGenerator", "IncrementNextID")
	if inc != nil {
		o.Analysed(w.FuncKey(inc))
		// lastPlusOne: v is exactly GetLastID(...) + 1
		lastPlusOne := func(v ssa.Value) bool {
			bo, isAdd := canon(v).(*ssa.BinOp)
			if !isAdd || bo.Op != token.ADD {
				return false
			}
			for _, pr := range [][2]ssa.Value{{bo.X, bo.Y}, {bo.Y, bo.X}} {
				c, isC := canon(pr[1]).(*ssa.Const)
				if !isC || c.Value == nil || c.Value.ExactString() != "1" {
					continue
				}
				if call, isCall := canon(pr[0]).(*ssa.Call); isCall {
					if cal, ok := CalleeOf(call.Common()); ok && strings.HasSuffix(cal.Pkg, "util/keeper") &&
						(cal.Name == "GetLastID" || (isNewHelper(cal.Static) && strings.Contains(strings.ToLower(cal.Name), "lastid"))) {
						return true
					}
				}
			}
			return false
		}
		muts := w.mutsIn(fl, inc)
		ok := len(muts) > 0
		for _, m := range muts {
			args := m.Site.Args()
			v := canon(args[len(args)-1])
			// the value is serialised by a one-argument encoder (Uint64ToByte); look through it
			if call, isCall := v.(*ssa.Call); isCall && len(call.Call.Args) == 1 {
				v = canon(call.Call.Args[0])
			}
			if !lastPlusOne(v) {
				ok = false
			}
		}
		o.Check("C05.R3", "IncrementNextID|persists last+1", ok, w.Pos(inc.Pos()), "the stored value must be exactly GetLastID()+1 (the id handed out), so that the next id differs from every id handed out before")
		for _, r := range Returns(inc) {
			if len(r.Ret.Results) == 1 {
				o.Check("C05.R3", "IncrementNextID|returns last+1", lastPlusOne(r.Ret.Results[0]), w.Pos(r.Ret.Pos()), "must return GetLastID()+1")
			}
		}
	}
}

func keys2(m map[string]string) []string {
	var o []string
	for k := range m {
		o = append(o, k)
	}
	sort.Strings(o)
	return o
}

func coveredBelow(req string, S map[string]bool) bool {
	for s := range S {
		if strings.HasPrefix(s, req+".") || strings.HasPrefix(s, req+"[") {
			return true
		}
	}
	return false
}

func itoa(n int) string {
	if n == 0 {
		return "0"
	}
	s := ""
	for n > 0 {
		s = string(rune('0'+n%10)) + s
		n /= 10
	}
	return s
}

// C07 required delivered sets (frozen reference: what the encoding compared with tx.Data() must depend on).
var c07Required = map[string][]string{
	"SubmitLogicCall":         {"HexContractAddress", "Payload", "Fees.RelayerFee", "Fees.CommunityFee", "Fees.SecurityFee", "SenderAddress", "Deadline", "msg.Id", "msg.SignData", "orig.AssigneeRemoteAddress", "ctx.valset"},
	"UpdateValset":            {"Valset", "msg.GasEstimate", "msg.SignData", "orig.AssigneeRemoteAddress", "ctx.valset"},
	"UploadUserSmartContract": {"DeployerAddress", "Bytecode", "Fees.RelayerFee", "Fees.CommunityFee", "Fees.SecurityFee", "SenderAddress", "Deadline", "msg.Id", "msg.SignData", "orig.AssigneeRemoteAddress", "ctx.valset"},
	"CompassHandover":         {"ForwardCallArgs[].HexContractAddress", "ForwardCallArgs[].Payload", "Deadline", "msg.GasEstimate", "msg.SignData", "orig.AssigneeRemoteAddress", "ctx.valset"},
	"UploadSmartContract":     {"Bytecode", "ConstructorInput"},
}

func rulesC07(w *World, o *Out) {
	fl := NewFlow(w)
	fl.MaxDepth = 6
	o.Rule("C07.R1", "every VerifyAgainstTX returns success only under bytes.Equal(tx.Data(), X) where X's influence set contains the action's fields, the message id / elected estimate, deadline, fees and fee payer, relayer, current valset and a prefix of the collected signatures")
	o.Rule("C07.R2", "attestTransactionIntegrity hands back the transaction only if it is not in the processed set and verifyTx returned nil")
	o.Rule("C07.R3", "each attester applies its success effects only after attestTransactionIntegrity returned nil, and passes the VerifyAgainstTX of the message's own action")
	o.Rule("C07.R4", "routerAttester dispatches on a TxExecutedProof only when the receipt status is successful; the deferred block marks the transaction processed for every TxExecutedProof")
	o.Rule("C07.R6", "every field of an evidence proof that production code reads influences the proof's BytesToHash, i.e. is covered by the 2/3 evidence consensus")
	o.Rule("C07.R5", "attestMessageWrapper writes the cached context only for nil / not-verified / failed outcomes and removes the message after consensus")

	n := 0
	for _, action := range evmActions {
		D, df, eqs := deliveredSet(w, o, fl, action)
		if df == nil {
			continue
		}
		n++
		o.Count("C07.R1 "+action+" byte-equality sites", len(eqs), 1)
		// success returns only under the equality
		for _, r := range Returns(df) {
			if r.Kind == RetError {
				continue
			}
			ok := GuardBool(r.Ret, isCallee("bytes", "", "Equal"), true) != nil
			if ok {
				// the guarding call must be one of the tx.Data() comparisons
				g := GuardBool(r.Ret, isCallee("bytes", "", "Equal"), true)
				ok = false
				for _, e := range eqs {
					if ssa.Value(g) == e.Value() {
						ok = true
					}
				}
			}
			o.Check("C07.R1", action+"|success only under byte equality with tx.Data()", ok, w.Pos(r.Ret.Pos()), "a non-error return of VerifyAgainstTX must be dominated by bytes.Equal(tx.Data(), expected) == true")
		}
		for _, req := range c07Required[action] {
			o.Check("C07.R1", action+"|expected call data depends on "+req, covered(req, D) || coveredBelow(req, D), w.Pos(df.Pos()), "D="+strings.Join(keys(D), ","))
		}
		// the signatures compared are a prefix of the collected ones (the relayer built its transaction before later
		// signatures arrived): every slice of GetSignData() starts at 0
		for _, g := range unitFuncs(df) {
			for _, b := range g.Blocks {
				for _, in := range b.Instrs {
					sl, isSl := in.(*ssa.Slice)
					if !isSl || sl.Low == nil {
						continue
					}
					if k, isK := sl.Low.(*ssa.Const); isK && k.Value != nil && k.Int64() == 0 {
						continue
					}
					if fl.DependsOnCall(sl.X, func(c Callee) bool { return c.Name == "GetSignData" }) == nil {
						continue
					}
					o.Fail("C07.R1", action+"|accepted signature lists are prefixes of the collected signatures", w.Pos(sl.Pos()), "a slice of msg.GetSignData() with a non-zero lower bound drops the earliest signatures: a transaction that omits them is accepted, the relayer's own is refused")
				}
			}
		}
		// ... on the whole field: a variable-length message field is not cut to a fixed width on the way into the
		// expected call data (copy into a window of a fixed-size array keeps only as many bytes as the window holds)
		for _, g := range unitFuncs(df) {
			for _, c := range CallsIn(g) {
				b, isB := c.Common().Value.(*ssa.Builtin)
				if !isB || b.Name() != "copy" || len(c.Args()) != 2 {
					continue
				}
				sl, isSl := c.Args()[0].(*ssa.Slice)
				if !isSl {
					continue
				}
				pt, isPtr := sl.X.Type().Underlying().(*types.Pointer)
				if !isPtr {
					continue
				}
				if _, isArr := pt.Elem().Underlying().(*types.Array); !isArr {
					continue
				}
				// a copy under a check of the source's length is a bounded copy, not a truncation
				lenChecked := false
				for _, f := range FactsAt(c.Instr) {
					if f.Kind != FCmp {
						continue
					}
					for _, side := range []ssa.Value{f.X, f.Y} {
						if lc, isC := canon(side).(*ssa.Call); isC {
							if lb, isLB := lc.Call.Value.(*ssa.Builtin); isLB && lb.Name() == "len" && canon(lc.Call.Args[0]) == canon(c.Args()[1]) {
								lenChecked = true
							}
						}
					}
				}
				if lenChecked {
					continue
				}
				aps, _ := fl.Influence(c.Args()[1])
				var fields []string
				for ap := range aps {
					if q, isP := ap.Root.(*ssa.Parameter); isP && len(df.Params) > 0 && q == df.Params[0] && ap.Path != "" {
						fields = append(fields, ap.Path)
					}
				}
				sort.Strings(fields)
				o.Check("C07.R1", action+"|message fields enter the expected call data whole", len(fields) == 0, w.Pos(c.Instr.Pos()),
					"copy into a fixed-size array window truncates "+strings.Join(fields, ",")+": a transaction carrying the truncated value would verify, the one carrying the message would not")
			}
		}
	}
	o.Count("C07.R1 VerifyAgainstTX implementations", n, 5)

	// ---- R2 ----
	ati := w.MustFunc(o, "x/evm/keeper", "", "attestTransactionIntegrity")
	if ati != nil {
		o.Analysed(w.FuncKey(ati))
		for _, r := range Returns(ati) {
			if r.Kind == RetError {
				continue
			}
			g1 := GuardBool(r.Ret, isCallee("x/evm/keeper", "Keeper", "isTxProcessed"), false) != nil
			g2 := false
			for _, f := range FactsAt(r.Ret) {
				if f.Kind == FNil && isErrorType(f.V.Type()) {
					for _, c := range callsBehind(f.V) {
						if p, ok := c.Common().Value.(*ssa.Parameter); ok && p.Name() == "verifyTx" {
							g2 = true
						}
					}
				}
			}
			o.Check("C07.R2", "attestTransactionIntegrity|success requires unprocessed tx", g1, w.Pos(r.Ret.Pos()), "must be dominated by isTxProcessed == false")
			o.Check("C07.R2", "attestTransactionIntegrity|success requires verifyTx == nil", g2, w.Pos(r.Ret.Pos()), "must be dominated by the nil-error edge of verifyTx")
		}
		// isTxProcessed / setTxAsAlreadyProcessed use the same key derivation
		itp := w.Func("x/evm/keeper", "Keeper", "isTxProcessed")
		stp := w.Func("x/evm/keeper", "Keeper", "setTxAsAlreadyProcessed")
		if itp == nil || stp == nil {
			o.Unresolved("isTxProcessed / setTxAsAlreadyProcessed")
		} else {
			k1, k2 := "", ""
			for _, s := range CallsIn(itp) {
				if s.Callee.Name == "Has" {
					k1 = strings.Join(tagsOf(fl, s.Args()...), ",")
				}
			}
			for _, s := range CallsIn(stp) {
				if s.Callee.Name == "Set" {
					args := s.Args()
					k2 = strings.Join(tagsOf(fl, args[0], args[1]), ",")
				}
			}
			o.Check("C07.R2", "processed set|reader and writer agree on store and key", k1 != "" && k1 == k2, w.Pos(itp.Pos()), "isTxProcessed key classes ["+k1+"] vs setTxAsAlreadyProcessed ["+k2+"]")
			// unconditional: isTxProcessed returns the Has result itself
			for _, r := range Returns(itp) {
				ok := false
				for _, c := range callsBehind(r.Ret.Results[0]) {
					if cal, ok2 := CalleeOf(c.Common()); ok2 && cal.Name == "Has" {
						ok = true
					}
				}
				o.Check("C07.R2", "isTxProcessed|is membership in the processed set", ok, w.Pos(r.Ret.Pos()), "must return store.Has(tx hash) without further conditions")
			}
		}
	}

	// processed set is append-only
	for _, m := range w.StoreMuts(fl) {
		if m.Has("const:tx-processed") && m.Op == "Delete" {
			o.Fail("C07.R2", "processed set|entry deleted in "+w.FuncKey(m.Site.Fn), w.Pos(m.Site.Instr.Pos()), "entries of the processed-transaction set must never be removed: a transaction could then be accepted for a second message")
		}
	}
	// ---- R6: evidence hash covers what the attesters read from the proof ----
	if hT := w.Type("x/evm/types", "Hashable"); hT != nil {
		nP := 0
		for _, t := range w.implementorsOf(hT.Underlying().(*types.Interface)) {
			n := namedOf(t)
			if n == nil {
				continue
			}
			bh := w.Func("x/evm/types", n.Obj().Name(), "BytesToHash")
			if bh == nil || len(bh.Blocks) == 0 {
				continue
			}
			nP++
			o.Analysed(w.FuncKey(bh))
			H := hashedFields(fl, bh)
			R := w.fieldsRead(n, func(f *ssa.Function) bool { return f == bh || f.Name() == "String" })
			for _, fld := range keys2(R) {
				o.Check("C07.R6", n.Obj().Name()+"|field "+fld+" is under evidence consensus", H[fld], R[fld],
					"read at "+R[fld]+" but does not influence BytesToHash, so validators need not agree on it; hashed: "+strings.Join(keys(H), ","))
			}
		}
		o.Count("C07.R6 evidence types (Hashable implementors)", nP, 3)
	}

	// ---- R3 ----
	effNames := map[string]bool{"SetSnapshotOnChain": true, "SetSmartContractAsActive": true, "updateSmartContractDeployment": true,
		"SetUserSmartContractDeploymentActive": true, "scheduleCompassHandover": true, "Remove": true, "DeleteJob": true,
		"SetSmartContractDeploymentStatusByContractID": true, "ActivateChainReferenceID": true, "setSmartContractAsActive": true}
	nAtt := 0
	for _, recv := range []string{"submitLogicCallAttester", "updateValsetAttester", "uploadSmartContractAttester", "uploadUserSmartContractAttester", "compassHandoverAttester"} {
		f := w.Func("x/evm/keeper", recv, "attest")
		if f == nil {
			o.Unresolved("x/evm/keeper." + recv + ".attest")
			continue
		}
		nAtt++
		o.Analysed(w.FuncKey(f))
		isATI := isCallee("x/evm/keeper", "", "attestTransactionIntegrity")
		sites := FindCalls(f, true, isATI)
		o.Check("C07.R3", recv+"|calls attestTransactionIntegrity", len(sites) >= 1, w.Pos(f.Pos()), "the attester must verify transaction integrity")
		for _, s := range sites {
			// verifyTx argument is a VerifyAgainstTX method value
			args := s.Args()
			last := args[len(args)-1]
			ok := false
			if mc, isMC := last.(*ssa.MakeClosure); isMC {
				if fn, isF := mc.Fn.(*ssa.Function); isF {
					if obj, isO := fn.Object().(*types.Func); isO && obj.Name() == "VerifyAgainstTX" {
						// bound receiver must be the attester's own action
						aps, _ := fl.Influence(mc.Bindings[0])
						for a := range aps {
							if strings.HasSuffix(a.Path, ".action") || strings.Contains(a.Path, ".action.") || strings.Contains(a.Path, ".Action") {
								ok = true
							}
						}
					}
				}
			}
			o.Check("C07.R3", recv+"|verifyTx is the VerifyAgainstTX of the message's own action", ok, w.Pos(s.Instr.Pos()), "the verifier passed to attestTransactionIntegrity must be a.action.VerifyAgainstTX")
		}
		for _, g := range WithAnon(f) {
			for _, s := range CallsIn(g) {
				if !effNames[s.Callee.Name] {
					continue
				}
				if !strings.HasPrefix(s.Callee.Pkg, modPath) {
					continue
				}
				at := ssa.Instruction(s.Instr)
				if g != f {
					// deferred closure: the effect happens at function exit; require it to be conditioned on err == nil inside, or registered after the check
					at = nil
					for _, b := range f.Blocks {
						for _, in := range b.Instrs {
							if d, ok := in.(*ssa.Defer); ok {
								if mc, ok := d.Call.Value.(*ssa.MakeClosure); ok && mc.Fn == g {
									at = d
								}
							}
						}
					}
				}
				ok := at != nil && GuardErrNil(at, isATI) != nil
				if !ok && g != f {
					// inside the deferred closure: guarded by the spilled error being nil
					for _, fa := range FactsAt(s.Instr) {
						if fa.Kind == FNil && isErrorType(fa.V.Type()) {
							ok = true
						}
					}
				}
				o.Check("C07.R3", recv+"|effect "+s.Callee.Name+" only after integrity check", ok, w.Pos(s.Instr.Pos()), "success effect must be dominated by attestTransactionIntegrity == nil")
			}
		}
	}
	o.Count("C07.R3 attesters", nAtt, 5)

	// ---- R4 ----
	ra := w.MustFunc(o, "x/evm/keeper", "Keeper", "routerAttester")
	if ra != nil {
		o.Analysed(w.FuncKey(ra))
		ex := FindCalls(ra, false, func(c Callee) bool { return c.Name == "Execute" && strings.HasSuffix(c.Recv, "Attester") })
		o.Count("C07.R4 action dispatch sites", len(ex), 5)
		for _, s := range ex {
			// every path from entry to the dispatch that passes the TxExecutedProof branch passes the status check:
			// structural form: the GetReceipt call's block; a Return ErrEthTxFailed under status != successful; dispatch not reachable from the failed edge
			ok := receiptGate(w, ra, s.Instr)
			o.Check("C07.R4", "routerAttester|"+s.Callee.Recv+" dispatched only past the receipt status gate", ok, w.Pos(s.Instr.Pos()),
				"on the TxExecutedProof branch a receipt status other than successful must return before any action dispatch")
		}
		// deferred marking
		marked := false
		for _, g := range ra.AnonFuncs {
			for _, s := range CallsIn(g) {
				if s.Callee.Name == "setTxAsAlreadyProcessed" {
					marked = true
				}
			}
		}
		def := false
		for _, b := range ra.Blocks {
			for _, in := range b.Instrs {
				if d, ok := in.(*ssa.Defer); ok {
					// the deferred function: a closure, or a named function / method of the module
					var df *ssa.Function
					if mc, ok := d.Call.Value.(*ssa.MakeClosure); ok {
						df, _ = mc.Fn.(*ssa.Function)
					} else if sc := d.Call.StaticCallee(); sc != nil && strings.HasPrefix(funcPkgPath(sc), modPath) {
						df = sc
					}
					if df != nil {
						for _, s := range CallsDeep(df) {
							if s.Callee.Name == "setTxAsAlreadyProcessed" {
								marked = true
								def = true
								// registered before any dispatch
								for _, e := range ex {
									if !PrecededBy(ra, e.Instr, map[ssa.Instruction]bool{d: true}) {
										def = false
									}
								}
							}
						}
					}
				}
			}
		}
		o.Check("C07.R4", "routerAttester|transaction marked processed on every exit", marked && def, w.Pos(ra.Pos()), "a deferred closure registered before the dispatch must call setTxAsAlreadyProcessed for TxExecutedProof winners")
	}

	// ---- R5 ----
	amw := w.MustFunc(o, "x/evm/keeper", "Keeper", "attestMessageWrapper")
	if amw != nil {
		o.Analysed(w.FuncKey(amw))
		// the cache write happens in a deferred closure, guarded by retErr == nil || errors.Is(NotVerified) || errors.Is(Failed)
		found := false
		for _, g := range amw.AnonFuncs {
			for _, s := range CallsIn(g) {
				if s.Callee.Name != "<dynamic>" {
					continue
				}
				// writeCache(): a call of a captured function value
				if _, ok := s.Common().Value.(*ssa.UnOp); !ok {
					if _, ok2 := s.Common().Value.(*ssa.FreeVar); !ok2 {
						continue
					}
				}
				found = true
				// conditions on the path: every path to the call passes a test of retErr == nil or errors.Is
				tests := map[ssa.Instruction]bool{}
				for _, b := range g.Blocks {
					for _, in := range b.Instrs {
						switch x := in.(type) {
						case *ssa.BinOp:
							if isErrorType(x.X.Type()) {
								tests[x] = true
							}
						case *ssa.Call:
							if cal, ok := CalleeOf(x.Common()); ok && cal.Pkg == "errors" && cal.Name == "Is" {
								tests[x] = true
							}
						}
					}
				}
				ok := len(tests) >= 3 && ReachAvoiding(g, nil, map[ssa.Instruction]bool{s.Instr: true}, tests) == nil
				// every edge into the flush holds one of the three admitted conditions (a further disjunct,
				// e.g. `|| retErr != nil`, would flush the effects of a failed attestation)
				admitted := func(fa Fact) bool {
					switch fa.Kind {
					case FNil:
						return isErrorType(fa.V.Type())
					case FTrue:
						if c, isCall := canon(fa.V).(*ssa.Call); isCall {
							if cal, okc := CalleeOf(c.Common()); okc && cal.Pkg == "errors" && cal.Name == "Is" {
								for _, t := range tagsOf(fl, c.Call.Args[1]) {
									if t == "global:ErrEthTxNotVerified" || t == "global:ErrEthTxFailed" {
										return true
									}
								}
							}
						}
					}
					return false
				}
				// the edge condition subsumes the syntactic test count (which cannot see tests moved into a predicate helper)
				ok = factOnEveryEdge(s.Instr, admitted)
				errs := map[string]bool{}
				for _, s2 := range CallsIn(g) {
					if s2.Callee.Pkg == "errors" && s2.Callee.Name == "Is" {
						for _, t := range tagsOf(fl, s2.Args()[1]) {
							errs[t] = true
						}
					}
				}
				okE := errs["global:ErrEthTxNotVerified"] && errs["global:ErrEthTxFailed"]
				o.Check("C07.R5", "attestMessageWrapper|cache flushed only for nil / not-verified / failed", ok && okE, w.Pos(s.Instr.Pos()), "writeCache must be conditioned on retErr == nil or errors.Is(retErr, ErrEthTxNotVerified|ErrEthTxFailed); error classes tested: "+strings.Join(keys(errs), ","))
			}
		}
		o.Check("C07.R5", "attestMessageWrapper|deferred cache write present", found, w.Pos(amw.Pos()), "the cached context must be written by a deferred closure")
		// removal and effects live and die together: the message is removed on the cached context
		var cacheCtx ssa.Value
		for _, c := range CallsIn(amw) {
			if c.Callee.Name == "CacheContext" && c.Value() != nil {
				for _, r := range *c.Value().Referrers() {
					if ex, isEx := r.(*ssa.Extract); isEx && ex.Index == 0 {
						cacheCtx = ex
					}
				}
			}
		}
		rm := FindCalls(amw, true, func(c Callee) bool { return c.Name == "Remove" && c.Iface })
		o.Count("C07.R5 queue removals in attestMessageWrapper", len(rm), 1)
		for _, r := range rm {
			ok := false
			if cacheCtx != nil && len(r.Args()) > 1 {
				a := canon(r.Args()[1])
				if a == cacheCtx {
					ok = true
				}
				for _, cv := range capturedValues(r.Fn, a) {
					if canon(cv) == cacheCtx {
						ok = true
					}
				}
			}
			o.Check("C07.R5", "attestMessageWrapper|the message is removed on the cached context", ok, w.Pos(r.Instr.Pos()), "q.Remove must be given the context returned by CacheContext: on the parent context the removal survives an attestation whose effects are discarded (or the reverse)")
		}
	}
	// a branch of the state that is written back by a deferred call inside a loop is written back only when the
	// function returns: every iteration then works on the state as it was before the loop
	nDefer := 0
	for _, f := range w.ProdFuncs {
		if f.Parent() != nil || len(f.Blocks) == 0 {
			continue
		}
		for _, b := range f.Blocks {
			for _, in := range b.Instrs {
				d, isD := in.(*ssa.Defer)
				if !isD {
					continue
				}
				ex, isEx := canon(d.Call.Value).(*ssa.Extract)
				if !isEx || ex.Index != 1 {
					continue
				}
				cc, isC := ex.Tuple.(*ssa.Call)
				if !isC {
					continue
				}
				if cal, okc := CalleeOf(cc.Common()); !okc || cal.Name != "CacheContext" {
					continue
				}
				nDefer++
				inLoop := ReachAvoiding(f, d, map[ssa.Instruction]bool{d: true}, nil) != nil
				o.Check("C07.R5", w.FuncKey(f)+"|a cache context is not written back by a defer inside a loop", !inLoop, w.Pos(d.Pos()), "deferred write-backs run when the function returns: messages processed in one pass do not see each other's effects (e.g. the processed-transaction record), so one remote transaction can prove two messages")
			}
		}
	}
	_ = nDefer
}

// receiptGate: a block reads GetReceipt() status, and from the "status != successful" edge the dispatch is unreachable.
func receiptGate(w *World, f *ssa.Function, dispatch ssa.Instruction) bool {
	// helper form: `if err := ensureReceiptSuccessful(winner); err != nil { return err }` -- on every nil return
	// of the helper either the winner is not a transaction proof or its receipt status equals "successful"
	okPath := func(fa Fact) bool {
		switch fa.Kind {
		case FFalse:
			if ex, ok := canon(fa.V).(*ssa.Extract); ok {
				if ta, ok := ex.Tuple.(*ssa.TypeAssert); ok && strings.Contains(ta.AssertedType.String(), "TxExecutedProof") {
					return true
				}
			}
		case FCmp:
			if fa.Op == token.EQL {
				nx, _ := loadedField(fa.X)
				ny, _ := loadedField(fa.Y)
				if nx == "Status" || ny == "Status" {
					return true
				}
			}
		}
		return false
	}
	if holdsOnAllPaths(dispatch.Block(), okPath) {
		return true
	}
	for _, b := range f.Blocks {
		iff, ok := b.Instrs[len(b.Instrs)-1].(*ssa.If)
		if !ok {
			continue
		}
		bo, ok := canon(iff.Cond).(*ssa.BinOp)
		if !ok {
			continue
		}
		isStatus := false
		for _, side := range []ssa.Value{bo.X, bo.Y} {
			if n, _ := loadedField(side); n == "Status" {
				isStatus = true
			}
		}
		if !isStatus {
			continue
		}
		// which edge is "not successful"?
		fact := factOf(iff.Cond, true)
		failIdx := 0
		if fact.Kind == FCmp && fact.Op.String() == "==" {
			failIdx = 1
		}
		fb := b.Succs[failIdx]
		reach := fb.Instrs[0] == dispatch || ReachAvoiding(f, fb.Instrs[0], map[ssa.Instruction]bool{dispatch: true}, nil) != nil
		if reach {
			return false
		}
		// and the status test lies on the TxExecutedProof branch: dominated by a type-assert ok of TxExecutedProof
		for _, fa := range DomFacts(b) {
			if fa.Kind == FTrue {
				if ex, ok := canon(fa.V).(*ssa.Extract); ok {
					if ta, ok := ex.Tuple.(*ssa.TypeAssert); ok && strings.Contains(ta.AssertedType.String(), "TxExecutedProof") {
						// every path to the dispatch for which the type assertion held passes this block: the dispatch is not reachable from the
						// assertion's true edge while avoiding this If
						tb := ta.Block()
						tIf, ok := tb.Instrs[len(tb.Instrs)-1].(*ssa.If)
						if !ok {
							continue
						}
						start := tb.Succs[0].Instrs[0]
						if start == ssa.Instruction(iff) {
							return true
						}
						_ = tIf
						if ReachAvoiding(f, start, map[ssa.Instruction]bool{dispatch: true}, map[ssa.Instruction]bool{iff: true, start: false}) == nil {
							return true
						}
					}
				}
			}
		}
	}
	return false
}

// checkpointProvenance: (a) the checkpoint of a batch is recomputed from the batch's content -- no
// return of a GetCheckpoint method is influenced by the (caller-suppliable) BytesToSign field; (b) the
// deployment id every production caller passes to GetCheckpoint is the SmartContractUniqueID of the
// chain's current ChainInfo (evm keeper), not a copy kept elsewhere.
func checkpointProvenance(w *World, o *Out, fl *Flow, rule string) {
	n := 0
	for _, recv := range []string{"OutgoingTxBatch", "InternalOutgoingTxBatch"} {
		gc := w.MustFunc(o, "x/skyway/types", recv, "GetCheckpoint")
		if gc == nil {
			continue
		}
		bad := ""
		for _, r := range Returns(gc) {
			if len(r.Ret.Results) == 0 {
				continue
			}
			aps, _ := fl.Influence(r.Ret.Results[0])
			for a := range aps {
				if strings.Contains(a.Path, ".BytesToSign") {
					bad = a.String()
				}
			}
		}
		o.Check(rule, recv+".GetCheckpoint|recomputed from the batch's content, not taken from its BytesToSign field", bad == "", w.Pos(gc.Pos()),
			"the checkpoint used to verify confirmations and to judge bad-signature evidence must be derived from token, transfers, nonce, timeout, relayer, estimate and deployment id; a stored/submitted digest ("+bad+") can be chosen by whoever supplies the batch")
	}
	for _, f := range w.ProdFuncs {
		for _, s := range CallsIn(f) {
			if s.Callee.Name != "GetCheckpoint" || !strings.HasSuffix(s.Callee.Pkg, "x/skyway/types") {
				continue
			}
			args := s.Args()
			id := args[len(args)-1]
			aps, calls := fl.Influence(id)
			// a wrapper that forwards its own parameter is judged at its callers
			onlyParam := len(calls) == 0 && len(aps) > 0
			for a := range aps {
				if p, isP := a.Root.(*ssa.Parameter); !isP || p.Name() == "ctx" {
					onlyParam = false
				}
			}
			if onlyParam && strings.HasSuffix(funcPkgPath(f), "x/skyway/types") {
				continue
			}
			n++
			// the id is (a conversion of) the SmartContractUniqueID field of the value GetChainInfo returned;
			// a parameter of a helper extracted after the reference tree is judged at the helper's call sites
			src := "an unrecognised expression"
			var idOK func(v ssa.Value, d int) bool
			idOK = func(v ssa.Value, d int) bool {
				v = canon(v)
				for i := 0; i < 4; i++ {
					switch x := v.(type) {
					case *ssa.Convert:
						v = canon(x.X)
						continue
					case *ssa.ChangeType:
						v = canon(x.X)
						continue
					}
					break
				}
				if p, isP := v.(*ssa.Parameter); isP && d < 3 {
					if h := p.Parent(); isNewHelper(h) && len(ctxSites[h]) > 0 {
						for _, cs := range ctxSites[h] {
							for i, q := range h.Params {
								if q == p && (i >= len(cs.Common().Args) || !idOK(cs.Common().Args[i], d+1)) {
									return false
								}
							}
						}
						return true
					}
				}
				if name, base := loadedField(v); name == "SmartContractUniqueID" && base != nil {
					src = "a SmartContractUniqueID field"
					return fl.DependsOnCall(base, func(c Callee) bool { return c.Name == "GetChainInfo" }) != nil
				}
				if c, isCall := v.(*ssa.Call); isCall {
					if cal, okc := CalleeOf(c.Common()); okc {
						src = "the result of " + cal.String()
					}
				}
				return false
			}
			ok := idOK(id, 0)
			_ = calls
			o.Check(rule, w.FuncKey(TopFunc(f))+"|GetCheckpoint is given the deployment id of the chain's current ChainInfo", ok, w.Pos(s.Instr.Pos()),
				"the deployment id bound into a checkpoint must be ChainInfo.SmartContractUniqueID as read from the evm keeper (GetChainInfo) at that moment; it is "+src)
		}
	}
	o.Count(rule+" GetCheckpoint call sites with a deployment id", n, 4)
}

func isKeeperRead(c Callee) bool {
	return strings.HasPrefix(c.Pkg, modPath) && strings.Contains(c.Pkg, "/keeper")
}
func feedsOnly(fl *Flow, c *ssa.Call, base ssa.Value) bool { return true }

// capturedValues: for a load of a free variable of closure g, the values stored into the captured slot in the
// enclosing function.
func capturedValues(g *ssa.Function, v ssa.Value) []ssa.Value {
	u, ok := v.(*ssa.UnOp)
	if !ok {
		return nil
	}
	fv, ok := u.X.(*ssa.FreeVar)
	if !ok || g.Parent() == nil {
		return nil
	}
	idx := -1
	for i, x := range g.FreeVars {
		if x == fv {
			idx = i
		}
	}
	var out []ssa.Value
	for _, b := range g.Parent().Blocks {
		for _, in := range b.Instrs {
			mc, isMC := in.(*ssa.MakeClosure)
			if !isMC || mc.Fn != g || idx < 0 || idx >= len(mc.Bindings) {
				continue
			}
			if al, isA := mc.Bindings[idx].(*ssa.Alloc); isA {
				for _, r := range *al.Referrers() {
					if st, isSt := r.(*ssa.Store); isSt && st.Addr == ssa.Value(al) {
						out = append(out, st.Val)
					}
				}
			}
		}
	}
	return out
}
