package main

// mutants.go — overlay mutants of the real tree for the thorough-tier self test (selftest.go).
// Every mutant is a small edit that compiles, is different from the externally seeded changes
// under /verif/seeded, and breaks one structural clause; Expect names the obligation that must fail.

func init() {
	// ---- C01
	addMutant(Mutant{"C01-lock-omits-tax", "C01", "x/skyway/keeper/pool.go",
		"Amount: amount.Amount.Add(taxedAmount),", "Amount: amount.Amount,",
		"lock = amount + bridge tax"})
	addMutant(Mutant{"C01-cancel-commits-on-error", "C01", "x/skyway/keeper/batch.go",
		"func (k Keeper) CancelOutgoingTXBatch(c context.Context, tokenContract types.EthAddress, nonce uint64) (err error) {\n\tctx, commit := sdk.UnwrapSDKContext(c).CacheContext()\n\tdefer func() {\n\t\t// Make sure all changes succeed before committing\n\t\tif err == nil {",
		"func (k Keeper) CancelOutgoingTXBatch(c context.Context, tokenContract types.EthAddress, nonce uint64) (err error) {\n\tctx, commit := sdk.UnwrapSDKContext(c).CacheContext()\n\tdefer func() {\n\t\t// Make sure all changes succeed before committing\n\t\tif err == nil || nonce > 0 {",
		"CancelOutgoingTXBatch|atomic wrapper commits only on success"})
	addMutant(Mutant{"C01-refund-any-sender", "C01", "x/skyway/keeper/pool.go",
		"if !tx.Sender.Equals(sender) {", "if !tx.Sender.Equals(sender) && txId > 1000 {",
		"refund only to the recorded sender"})
	addMutant(Mutant{"C01-pool-overwrite", "C01", "x/skyway/keeper/pool.go",
		"if store.Has(idxKey) {\n\t\treturn sdkerrors.Wrap(types.ErrDuplicate, \"transaction already in pool\")",
		"if store.Has(idxKey) && val.Id == 0 {\n\t\treturn sdkerrors.Wrap(types.ErrDuplicate, \"transaction already in pool\")",
		"addUnbatchedTX|refuses to overwrite"})

	// ---- C02
	addMutant(Mutant{"C02-quorum-gte", "C02", "x/skyway/keeper/attestation.go",
		"if attestationPower.GT(requiredPower) {", "if attestationPower.GTE(requiredPower) {",
		"guard power > 66/100 total"})
	addMutant(Mutant{"C02-nonce-order-relaxed", "C02", "x/skyway/keeper/attestation.go",
		"if claim.GetSkywayNonce() != lastSkywayNonce+1 {\n\t\t\t\t\treturn fmt.Errorf(\"attempting to apply events", "if claim.GetSkywayNonce() < lastSkywayNonce+1 {\n\t\t\t\t\treturn fmt.Errorf(\"attempting to apply events",
		"guard nonce == lastObserved+1"})
	addMutant(Mutant{"C02-cursor-not-monotone", "C02", "x/skyway/keeper/attestation.go",
		"if nonce != 0 && nonce < last {", "if nonce != 0 && nonce > last+1 {",
		"setLastObservedSkywayNonce|writes observed-nonce cursor"})
	addMutant(Mutant{"C02-vote-not-deduplicated", "C02", "x/skyway/keeper/attestation.go",
		"if !slices.Contains(att.Votes, valAddr) {", "if !slices.Contains(att.Votes, valAddr) || att.Observed {",
		"voter de-duplicated"})

	// ---- C03
	addMutant(Mutant{"C03-skyway-updateparams-authority", "C03", "x/skyway/keeper/msg_server.go",
		"func (k msgServer) UpdateParams(goCtx context.Context, msg *types.MsgUpdateParams) (*types.MsgUpdateParamsResponse, error) {\n\tif k.authority != msg.Authority {",
		"func (k msgServer) UpdateParams(goCtx context.Context, msg *types.MsgUpdateParams) (*types.MsgUpdateParamsResponse, error) {\n\tif k.authority != msg.Authority && msg.Authority != msg.Metadata.Creator {",
		"skyway.UpdateParams|authority guard"})
	addMutant(Mutant{"C03-orchestrator-check-weak", "C03", "x/skyway/keeper/msg_server.go",
		"if orchestrator != creator {", "if orchestrator != creator && creator == \"\" {",
		"Orchestrator"})
	addMutant(Mutant{"C03-binding-mint-sender", "C03", "x/tokenfactory/bindings/msg_plugin.go",
		"tokenfactorytypes.NewMsgMint(contractAddr.String(), coin)", "tokenfactorytypes.NewMsgMint(rcpt.String(), coin)",
		"PerformMint"})
	addMutant(Mutant{"C03-relayerfee-validate-weak", "C03", "x/treasury/types/msgs.go",
		"if sdk.ValAddress(creator).String() != msg.FeeSetting.ValAddress {",
		"if sdk.ValAddress(creator).String() != msg.FeeSetting.ValAddress && len(msg.FeeSetting.Fees) == 0 {",
		"UpsertRelayerFee|identity field"})
	addMutant(Mutant{"C03-ante-no-grantee-needed", "C03", "x/paloma/ante.go",
		"if len(grantees) < 1 {", "if len(grantees) < 0 {",
		"next message reached only past an acceptance"})
	addMutant(Mutant{"C03-ante-grants-of-signer", "C03", "x/paloma/ante.go",
		"Granter: creator,", "Granter: signers[0].String(),",
		"grants are queried for this message's creator"})

	// ---- C04
	addMutant(Mutant{"C04-threshold-half", "C04", "util/libcons/consensus.go",
		"c.totalPower.Mul(sdkmath.NewInt(2)),", "c.totalPower.Mul(sdkmath.NewInt(1)),",
		"consensus|sum >= 2/3 total"})
	addMutant(Mutant{"C04-winner-without-group-quorum", "C04", "util/libcons/consensus.go",
		"if cp.consensus() {\n\t\t\t// consensus reached", "if cp.consensus() || len(groups) == 1 {\n\t\t\t// consensus reached",
		"winner under per-group quorum"})
	addMutant(Mutant{"C04-median-without-quorum", "C04", "util/libcons/consensus.go",
		"if !cp.consensus() {\n\t\treturn 0, ErrConsensusNotAchieved", "if !cp.consensus() && len(estimates) < 2 {\n\t\treturn 0, ErrConsensusNotAchieved",
		"median under quorum"})
	addMutant(Mutant{"C04-evidence-accumulates", "C04", "x/consensus/types/consensus.go",
		"q.Evidence[i].Proof = data.Proof\n\t\t\treturn", "q.Evidence[i].Proof = data.Proof\n\t\t\tbreak",
		"AddEvidence"})
	addMutant(Mutant{"C04-attester-without-consensus", "C04", "x/evm/keeper/attest.go",
		"if err != nil {\n\t\tif errors.Is(err, ErrConsensusNotAchieved) {", "if err != nil && result == nil {\n\t\tif errors.Is(err, ErrConsensusNotAchieved) {",
		"attester call only after VerifyEvidence == nil"})

	// ---- C05
	addMutant(Mutant{"C05-checkpoint-drops-timeout", "C05", "x/skyway/types/batch.go",
		"big.NewInt(int64(i.BatchTimeout)),", "big.NewInt(0),",
		"binds BatchTimeout"})
	addMutant(Mutant{"C05-checkpoint-estimate-constant", "C05", "x/skyway/types/batch.go",
		"estimate.SetUint64(i.GasEstimate)", "estimate.SetUint64(cConservativeDummyGasEstimate)",
		"binds GasEstimate"})
	addMutant(Mutant{"C05-id-counter-not-advanced", "C05", "util/keeper/id_generation.go",
		"store.Set(prefixKey, Uint64ToByte(nextID))", "store.Set(prefixKey, Uint64ToByte(nextID-1))",
		"persists last+1"})
	addMutant(Mutant{"C05-valset-id-unsigned", "C05", "x/evm/types/turnstone_abi.go",
		"big.NewInt(int64(m.GetValset().GetValsetID())),\n\t\tbytes32,", "big.NewInt(0),\n\t\tbytes32,",
		"UpdateValset|delivered Valset.ValsetID is signed"})

	// ---- C06
	addMutant(Mutant{"C06-duplicate-validator-allowed", "C06", "x/consensus/keeper/consensus/consensus.go",
		"if signData.ValAddress.Equals(existingSigData.ValAddress) {", "if signData.ValAddress.Equals(existingSigData.ValAddress) && msgID == 0 {",
		"duplicate key and duplicate validator are refused"})
	addMutant(Mutant{"C06-verification-bypass", "C06", "x/consensus/keeper/consensus/consensus.go",
		"if !c.qo.VerifySignature(bytesToSign, signData.Signature, signData.PublicKey) {",
		"if !c.qo.VerifySignature(bytesToSign, signData.Signature, signData.PublicKey) && len(signData.Signature) == 0 {",
		"AddSignData only after a successful verification"})
	addMutant(Mutant{"C06-duplicate-batch-confirm", "C06", "x/skyway/keeper/msg_server.go",
		"if batchConfirms != nil {", "if batchConfirms != nil && msg.Nonce == 0 {",
		"at most one confirmation per validator"})
	addMutant(Mutant{"C06-election-keeps-signatures", "C06", "x/consensus/types/consensus.go",
		"q.SignData = nil\n\tq.GasEstimate = estimate", "q.GasEstimate = estimate",
		"SetElectedGasEstimate|writes GasEstimate"})

	// ---- C07
	addMutant(Mutant{"C07-logic-call-deadline-unbound", "C07", "x/evm/types/eth_txable.go",
		"new(big.Int).SetInt64(int64(msg.GetId())),\n\t\t\tnew(big.Int).SetInt64(m.GetDeadline()),\n\t\t\tcommon.HexToAddress(relayer),\n\t\t}\n\n\t\tinput, err := contractABI.Pack(\"submit_logic_call\"",
		"new(big.Int).SetInt64(int64(msg.GetId())),\n\t\t\tnew(big.Int),\n\t\t\tcommon.HexToAddress(relayer),\n\t\t}\n\n\t\tinput, err := contractABI.Pack(\"submit_logic_call\"",
		"SubmitLogicCall|expected call data depends on Deadline"})
	addMutant(Mutant{"C07-processed-key-differs", "C07", "x/evm/keeper/attest.go",
		"kv.Set(tx.Hash().Bytes(), []byte{1})", "kv.Set(tx.Data(), []byte{1})",
		"processed set|reader and writer agree"})
	addMutant(Mutant{"C07-verify-error-ignored", "C07", "x/evm/keeper/attest.go",
		"err = verifyTx(ctx, tx, msg, &valset, compass, relayer)\n\tif err != nil {", "err = verifyTx(ctx, tx, msg, &valset, compass, relayer)\n\tif err != nil && tx == nil {",
		"success requires verifyTx == nil"})
	addMutant(Mutant{"C07-cache-flushed-on-any-error", "C07", "x/evm/keeper/attest.go",
		"errors.Is(retErr, types.ErrEthTxFailed) {", "errors.Is(retErr, types.ErrEthTxFailed) || retErr != nil {",
		"cache flushed only for nil / not-verified / failed"})

	// ---- C08
	addMutant(Mutant{"C08-batch-timeout-wall-clock", "C08", "x/skyway/keeper/batch.go",
		"return uint64(sdkCtx.BlockTime().Add(10 * time.Minute).Unix())",
		"return uint64(sdkCtx.BlockTime().Add(10 * time.Minute).Add(time.Since(sdkCtx.BlockTime()) / time.Hour).Unix())",
		"time.Since"})
	addMutant(Mutant{"C08-ranking-tie-break-removed", "C08", "x/evm/keeper/msg_assigner.go",
		"return strings.Compare(a.address, b.address)", "return strings.Compare(a.address, a.address)",
		"rankValidators|comparator breaks ties"})
	addMutant(Mutant{"C08-package-state-on-runtime-path", "C08", "x/evm/keeper/msg_assigner.go",
		"func rankValidators(ctx context.Context, validatorsInfos map[string]ValidatorInfo, relayWeights types.RelayWeightDec) (scoreSnapshot, error) {\n\tsdkCtx := sdk.UnwrapSDKContext(ctx)",
		"var lastRankCount int\n\nfunc rankValidators(ctx context.Context, validatorsInfos map[string]ValidatorInfo, relayWeights types.RelayWeightDec) (scoreSnapshot, error) {\n\tlastRankCount += len(validatorsInfos)\n\tsdkCtx := sdk.UnwrapSDKContext(ctx)",
		"C08.R3"})

	// ---- C09
	addMutant(Mutant{"C09-evm-endblock-returns-error", "C09", "x/evm/module.go",
		"Error(\"Error purging stale user smart contracts\")\n\t\t}", "Error(\"Error purging stale user smart contracts\")\n\t\t\treturn err\n\t\t}",
		"evm.EndBlock|return"})
	addMutant(Mutant{"C09-fee-range-guard-weakened", "C09", "x/consensus/keeper/estimate.go",
		"if !i.IsUint64() {", "if !i.IsUint64() && i.IsNegative() {",
		"ceilToUint64|narrow"})
	addMutant(Mutant{"C09-empty-assignable-pool", "C09", "x/evm/keeper/msg_assigner.go",
		"if len(assignableValidators) == 0 {", "if len(assignableValidators) == 0 && req != nil {",
		"PickValidatorForMessage|div"})

	addMutant(Mutant{"C09-attester-dispatch-swapped", "C09", "x/evm/keeper/attest.go",
		"return newCompassHandoverAttester(&k, logger, params).Execute(sdkCtx)\n\t}", "return newCompassHandoverAttester(&k, logger, params).Execute(sdkCtx)\n\tdefault:\n\t\treturn newSubmitLogicCallAttester(&k, logger, params).Execute(sdkCtx)\n\t}",
		"submitLogicCallAttester).Execute|assert"})

	addMutant(Mutant{"C09-negative-fee-accepted", "C09", "x/treasury/keeper/msg_server.go",
		"v.Multiplicator.IsNil() || v.Multiplicator.IsNegative() || v.Multiplicator.GT(", "v.Multiplicator.IsNil() || v.Multiplicator.GT(",
		"IsNegative is refused"})
	addMutant(Mutant{"C09-fee-bound-not-checked", "C09", "x/treasury/keeper/msg_server.go",
		"v.Multiplicator.IsNegative() || v.Multiplicator.GT(maxRelayerFeeMultiplicator)", "v.Multiplicator.IsNegative()",
		"GT is refused"})
	addMutant(Mutant{"C09-nil-proof-check-removed", "C09", "util/libcons/consensus.go",
		"\t\tif hashable == nil {\n\t\t\t// evidence without a proof can't be part of any group\n\t\t\tcontinue\n\t\t}\n", "",
		"VerifyEvidence|nil-iface"})
	// ---- C10
	addMutant(Mutant{"C10-unbonded-admitted", "C10", "x/valset/keeper/keeper.go",
		"if val.IsBonded() && !val.IsJailed() && k.ValidatorSupportsAllChains(ctx, bz) {", "if !val.IsJailed() && k.ValidatorSupportsAllChains(ctx, bz) {",
		"admitted only if bonded"})
	addMutant(Mutant{"C10-share-not-bonded-stake", "C10", "x/valset/keeper/keeper.go",
		"ShareCount:         val.GetBondedTokens(),", "ShareCount:         val.GetTokens(),",
		"share is the bonded stake"})
	addMutant(Mutant{"C10-quorum-gate-halved", "C10", "x/evm/keeper/keeper.go",
		"return sum >= thresholdForConsensus", "return sum >= thresholdForConsensus/2",
		"isEnoughToReachConsensus"})
	addMutant(Mutant{"C10-other-chain-accounts-listed", "C10", "x/evm/keeper/keeper.go",
		"if strings.ToLower(ext.GetChainType()) == xchainType && ext.GetChainReferenceID() == chainReferenceID {", "if strings.ToLower(ext.GetChainType()) == xchainType {",
		"validator listed only with an account on this chain"})
	addMutant(Mutant{"C10-stored-snapshot-rewritten", "C10", "x/valset/keeper/keeper.go",
		"snapshot.Chains = append(snapshot.Chains, chainReferenceID)", "snapshot.Chains = append(snapshot.Chains, chainReferenceID)\n\tsnapshot.Validators = snapshot.Validators[:0]",
		"only by appending to Chains"})

	// ---- C11
	addMutant(Mutant{"C11-receiver-not-hashed", "C11", "x/skyway/types/msgs.go",
		"msg.EthereumSender, msg.PalomaReceiver, msg.CompassId)", "msg.EthereumSender, msg.EthereumSender, msg.CompassId)",
		"MsgSendToPalomaClaim|field PalomaReceiver"})
	addMutant(Mutant{"C11-sale-amount-not-hashed", "C11", "x/skyway/types/msgs.go",
		"msg.ClientAddress, msg.Amount.String(), msg.SmartContractAddress, msg.CompassId)", "msg.ClientAddress, msg.ClientAddress, msg.SmartContractAddress, msg.CompassId)",
		"MsgLightNodeSaleClaim|field Amount"})
	addMutant(Mutant{"C11-attestation-key-without-hash", "C11", "x/skyway/types/key.go",
		"return AppendBytes(OracleAttestationKey, UInt64Bytes(eventNonce), claimHash)", "return AppendBytes(OracleAttestationKey, UInt64Bytes(eventNonce), UInt64Bytes(eventNonce))",
		"GetAttestationKey|key depends on nonce and hash"})

	// ---- C12
	addMutant(Mutant{"C12-alive-predicate-flipped", "C12", "x/valset/keeper/keep_alive.go",
		"return sdkCtx.BlockHeight() < data.AliveUntilBlockHeight, nil", "return sdkCtx.BlockHeight() > data.AliveUntilBlockHeight, nil",
		"alive iff height < alive-until"})
	addMutant(Mutant{"C12-ttl-not-relative", "C12", "x/valset/keeper/keep_alive.go",
		"AliveUntilBlockHeight: sdkCtx.BlockHeader().Height + cJailingDefaultKeepAliveBlockHeight,", "AliveUntilBlockHeight: cJailingDefaultKeepAliveBlockHeight,",
		"alive-until = current height + TTL"})
	addMutant(Mutant{"C12-grace-period-ignored", "C12", "x/valset/keeper/keep_alive.go",
		"if k.isValidatorInGracePeriod(ctx, valAddr) {", "if k.isValidatorInGracePeriod(ctx, valAddr) && alive {",
		"respects the grace period"})
	addMutant(Mutant{"C12-version-gate-weakened", "C12", "x/valset/keeper/keep_alive.go",
		"if semver.Compare(pigeonVersion, req.MinVersion) < 0 {", "if semver.Compare(pigeonVersion, req.MinVersion) < -1 {",
		"refuses versions below the minimum"})

	// ---- C13
	addMutant(Mutant{"C13-archived-checkpoint-punished", "C13", "x/skyway/keeper/evidence.go",
		"if k.GetPastEthSignatureCheckpoint(ctx, checkpoint) {", "if k.GetPastEthSignatureCheckpoint(ctx, checkpoint) && len(signature) == 0 {",
		"Jail only for a checkpoint that was never issued"})
	addMutant(Mutant{"C13-evidence-suppliers-jailed", "C13", "x/consensus/keeper/concensus_keeper.go",
		"if _, fnd := vlkUp[v.GetAddress().String()]; !fnd {", "if _, fnd := vlkUp[v.GetAddress().String()]; fnd {",
		"validators that supplied evidence are not jailed"})
	addMutant(Mutant{"C13-faulty-floor-moved", "C13", "x/consensus/keeper/concensus_keeper.go",
		"return r.TotalVotes.Mul(math.NewInt(10)).LT(r.TotalShares)", "return r.TotalVotes.Mul(math.NewInt(20)).LT(r.TotalShares)",
		"'likely faulty' is exactly votes < total/10"})
	addMutant(Mutant{"C13-built-batch-not-archived", "C13", "x/skyway/keeper/batch.go",
		"k.SetPastEthSignatureCheckpoint(ctx, checkpoint)\n", "_ = checkpoint\n",
		"BuildOutgoingTXBatch|issued checkpoint is archived"})

	// ---- C14
	addMutant(Mutant{"C14-assignee-filter-bypass", "C14", "x/consensus/keeper/concensus_keeper.go",
		"filters.IsAssignedTo(unpackedMsg, valAddress.String())\n\t})", "(filters.IsAssignedTo(unpackedMsg, valAddress.String()) || len(valAddress) == 0)\n\t})",
		"GetMessagesForRelaying|"})
	addMutant(Mutant{"C14-fee-rounded-down", "C14", "x/consensus/keeper/estimate.go",
		"i := d.Ceil().TruncateInt()", "i := d.TruncateInt()",
		"RelayerFee = ceil"})
	addMutant(Mutant{"C14-chain-account-filter-weakened", "C14", "x/evm/keeper/msg_assigner.go",
		"if v.ChainReferenceID != chainID {", "if v.ChainReferenceID != chainID && req == nil {",
		"accepted only through its account on the requested chain"})

	// ---- C15
	addMutant(Mutant{"C15-usage-not-accumulated", "C15", "x/skyway/keeper/keeper.go",
		"Total:            usage.Total.Add(coin.Amount),", "Total:            coin.Amount,",
		"an ongoing window accumulates"})
	addMutant(Mutant{"C15-limit-check-weakened", "C15", "x/skyway/keeper/keeper.go",
		"if newUsage.Total.GT(limits.Limit) {", "if newUsage.Total.GT(limits.Limit) && usage == nil {",
		"usage persisted only when within the limit"})
	addMutant(Mutant{"C15-negative-rate-accepted", "C15", "x/skyway/keeper/keeper.go",
		"if !ok || taxRate.Sign() < 0 {", "if !ok || taxRate.Sign() < -1 {",
		"refuses negative or unparsable rates"})
	addMutant(Mutant{"C15-tax-multiplier-dropped", "C15", "x/skyway/keeper/keeper.go",
		"return coin.Amount.Mul(num).Quo(denom), nil", "return coin.Amount.Mul(denom).Quo(num), nil",
		"tax = floor(amount × num / den)"})

	// ---- C16
	addMutant(Mutant{"C16-burn-admin-guard-weakened", "C16", "x/tokenfactory/keeper/msg_server.go",
		"if msg.Metadata.Creator != authorityMetadata.GetAdmin() {\n\t\treturn nil, types.ErrUnauthorized\n\t}\n\n\terr = server.Keeper.burnFrom(",
		"if msg.Metadata.Creator != authorityMetadata.GetAdmin() && msg.Amount.IsZero() {\n\t\treturn nil, types.ErrUnauthorized\n\t}\n\n\terr = server.Keeper.burnFrom(",
		"burnFrom only for the admin"})
	addMutant(Mutant{"C16-admin-of-other-denom", "C16", "x/tokenfactory/keeper/msg_server.go",
		"server.Keeper.GetAuthorityMetadata(ctx, msg.Denom)\n\tif err != nil {\n\t\treturn nil, err\n\t}\n\n\tif msg.Metadata.Creator != authorityMetadata.GetAdmin() {\n\t\treturn nil, types.ErrUnauthorized\n\t}\n\n\terr = server.Keeper.setAdmin(",
		"server.Keeper.GetAuthorityMetadata(ctx, msg.NewAdmin)\n\tif err != nil {\n\t\treturn nil, err\n\t}\n\n\tif msg.Metadata.Creator != authorityMetadata.GetAdmin() {\n\t\treturn nil, types.ErrUnauthorized\n\t}\n\n\terr = server.Keeper.setAdmin(",
		"ChangeAdmin|admin looked up for the denomination operated on"})
	addMutant(Mutant{"C16-mint-doubles", "C16", "x/tokenfactory/keeper/bank.go",
		"err = k.bankKeeper.MintCoins(ctx, types.ModuleName, sdk.NewCoins(amount))", "err = k.bankKeeper.MintCoins(ctx, types.ModuleName, sdk.NewCoins(amount.Add(amount)))",
		"MintCoins moves exactly the requested amount"})
	addMutant(Mutant{"C16-existing-denom-recreated", "C16", "x/tokenfactory/keeper/denom.go",
		"if found {\n\t\treturn \"\", types.ErrDenomExists", "if found && subdenom == \"\" {\n\t\treturn \"\", types.ErrDenomExists",
		"refuses an existing denomination"})

	// ---- C17
	addMutant(Mutant{"C17-job-overwritten", "C17", "x/scheduler/keeper/keeper.go",
		"if k.JobIDExists(ctx, job.GetID()) {", "if k.JobIDExists(ctx, job.GetID()) && job.Owner == nil {",
		"AddNewJob"})
	addMutant(Mutant{"C17-fixed-payload-replaced", "C17", "x/scheduler/keeper/keeper.go",
		"if job.GetIsPayloadModifiable() && in != nil {", "if in != nil {",
		"caller payload only for modifiable jobs"})
	addMutant(Mutant{"C17-identity-padded-right", "C17", "x/evm/keeper/scheduler_job.go",
		"copy(ret[size-inputLen:], input)", "copy(ret, input)",
		"zeroPadBytes|pads on the left"})
	addMutant(Mutant{"C17-identity-before-payload", "C17", "x/evm/keeper/scheduler_job.go",
		"return append(payload, appendSenderBytes...), nil", "return append(appendSenderBytes, payload...), nil",
		"injectSenderIntoPayload|payload followed by"})

	// ---- C18
	addMutant(Mutant{"C18-licence-survives-activation", "C18", "x/paloma/keeper/keeper.go",
		"k.lightNodeClientLicenseStore(ctx).Delete([]byte(addr))", "_ = k.lightNodeClientLicenseStore(ctx)",
		"licence deleted whenever funds were released"})
	addMutant(Mutant{"C18-existing-account-licensed", "C18", "x/paloma/keeper/keeper.go",
		"if k.accountKeeper.HasAccount(ctx, acct) {", "if k.accountKeeper.HasAccount(ctx, acct) && vestingMonths == 0 {",
		"only when no account exists"})
	addMutant(Mutant{"C18-funder-without-balance", "C18", "x/paloma/keeper/keeper.go",
		"if k.bankKeeper.HasBalance(ctx, funders.Accounts[i], coin) {", "if k.bankKeeper.HasBalance(ctx, funders.Accounts[i], coin) || i == 0 {",
		"licence only with a funder holding the amount"})
	addMutant(Mutant{"C18-vesting-from-epoch", "C18", "x/paloma/keeper/keeper.go",
		"baseVestingAccount, beginTime.Unix())", "baseVestingAccount, 0)",
		"vesting starts at activation"})

	// ---- C19
	addMutant(Mutant{"C19-scheduler-below-valset", "C19", "app/mempool/priority_nonce.go",
		"return math.MaxInt64 - 1", "return math.MaxInt64 - 4",
		"consensus > scheduler > evm > valset"})
	addMutant(Mutant{"C19-multi-message-priority", "C19", "app/mempool/priority_nonce.go",
		"if len(msgs) == 1 {", "if len(msgs) >= 1 {",
		"only for single-message transactions"})
	addMutant(Mutant{"C19-remove-keeps-count", "C19", "app/mempool/priority_nonce.go",
		"delete(mp.scores, scoreKey)\n\tmp.priorityCounts[score.priority]--\n\n\treturn nil", "delete(mp.scores, scoreKey)\n\n\treturn nil",
		"Remove|undoes all four indices"})

	// ---- second generation: one mutant per obligation added after the second round of seeded changes
	addMutant(Mutant{"C01-found-flag-ignored", "C01", "x/skyway/keeper/batch.go",
		"if !found {", "if !found && err != nil {",
		"GetEthAddressByValidator used only when found"})
	addMutant(Mutant{"C03-erc20-rebinding", "C03", "x/skyway/keeper/msg_server.go",
		"if len(d) > 0 {", "if len(d) > 100 {",
		"SetERC20ToTokenDenom|the ERC20 contract is bound only when it has no binding yet"})
	addMutant(Mutant{"C03-relay-report-overwritten", "C03", "x/consensus/keeper/consensus/consensus.go",
		"if msg.GetPublicAccessData() != nil {\n\t\treturn nil", "if msg.GetPublicAccessData() != nil && data == nil {\n\t\treturn nil",
		"Queue.SetPublicAccessData|a relay report is recorded only when none exists"})
	addMutant(Mutant{"C05-checkpoint-id-from-batch", "C05", "x/skyway/keeper/msg_server.go",
		"batch.GetCheckpoint(string(ci.SmartContractUniqueID))", "batch.GetCheckpoint(ci.ChainReferenceID)",
		"ConfirmBatch|GetCheckpoint is given the deployment id"})
	addMutant(Mutant{"C08-local-zone-deadline", "C08", "x/evm/keeper/scheduler_job.go",
		"Deadline:           sdkCtx.BlockTime().Add(10 * time.Minute).Unix(),", "Deadline:           time.Unix(sdkCtx.BlockTime().Unix(), 0).AddDate(0, 0, 1).Unix(),",
		"calendar arithmetic in the node's local time zone"})
	addMutant(Mutant{"C12-snapshot-rewritten-on-size-change", "C12", "x/valset/keeper/keep_alive.go",
		"us.Set([]byte(cUnjailedSnapshotStoreKey), bytes.Join(vals, []byte(\",\")))", "if len(vals) != len(snapshot) {\n\t\tus.Set([]byte(cUnjailedSnapshotStoreKey), bytes.Join(vals, []byte(\",\")))\n\t}",
		"UpdateGracePeriod|the unjailed set of this block is recorded"})
	addMutant(Mutant{"C12-jail-log-key-differs", "C12", "x/valset/keeper/keeper.go",
		"r, err := k.jailLog.Get(ctx, valAddr)", "r, err := k.jailLog.Get(ctx, sdk.ValAddress(cons[:]))",
		"Jail|the jail record is read and written under the same key"})
	addMutant(Mutant{"C13-empty-evidence-fast-path", "C13", "util/libcons/consensus.go",
		"func (c ConsensusChecker) VerifyEvidence(ctx context.Context, evidences []Evidence) (*Result, error) {\n\tresult := newResult()", "func (c ConsensusChecker) VerifyEvidence(ctx context.Context, evidences []Evidence) (*Result, error) {\n\tresult := newResult()\n\tif len(evidences) == 0 {\n\t\treturn result, ErrConsensusNotAchieved\n\t}",
		"VerifyEvidence|every returned result carries the tallied totals"})
	addMutant(Mutant{"C14-relayed-valset-not-pending", "C14", "x/consensus/keeper/concensus_keeper.go",
		"\t\treturn true\n\t})\n\n\treturn msgs, nil\n}\n\n// GetMessagesForRelaying", "\t\treturn msg.GetPublicAccessData() == nil\n\t})\n\n\treturn msgs, nil\n}\n\n// GetMessagesForRelaying",
		"GetPendingValsetUpdates|every queued UpdateValset message counts as pending"})
	addMutant(Mutant{"C14-community-fee-from-estimate", "C14", "x/consensus/keeper/estimate.go",
		"fees.CommunityFee, err = ceilToUint64(multiplicators.CommunityFee.\n\t\tMulInt(math.NewIntFromUint64(fees.RelayerFee)))", "fees.CommunityFee, err = ceilToUint64(multiplicators.CommunityFee.\n\t\tMulInt(math.NewIntFromUint64(estimate)))",
		"CommunityFee is computed from the relayer fee as charged"})
	addMutant(Mutant{"C15-usage-reset-on-reconfiguration", "C15", "x/skyway/keeper/keeper.go",
		"st := k.GetStore(ctx, types.BridgeTransferLimitPrefix)\n\treturn keeperutil.Save(st, k.cdc, []byte(limit.Token), limit)", "k.GetStore(ctx, types.BridgeTransferUsagePrefix).Delete([]byte(limit.Token))\n\tst := k.GetStore(ctx, types.BridgeTransferLimitPrefix)\n\treturn keeperutil.Save(st, k.cdc, []byte(limit.Token), limit)",
		"the usage counter is never reset outside the limit check"})
	addMutant(Mutant{"C16-default-admin", "C16", "x/tokenfactory/keeper/admins.go",
		"metadata := types.DenomAuthorityMetadata{}", "metadata := types.DenomAuthorityMetadata{Admin: denom}",
		"GetAuthorityMetadata|returns the stored record or the empty value"})
	addMutant(Mutant{"C17-requester-from-signers", "C17", "x/scheduler/keeper/msg_server_execute_job.go",
		"msgSrv.Keeper.GetAccount(ctx, creator).GetAddress()", "msgSrv.Keeper.GetAccount(ctx, append(msg.GetSigners(), creator)[0]).GetAddress()",
		"ExecuteJob handler|the requester passed on is the message creator"})
	addMutant(Mutant{"C18-sale-on-parent-context", "C18", "x/skyway/keeper/attestation.go",
		"k.AttestationHandler.Handle(ctx, *att, claim)", "k.AttestationHandler.Handle(goCtx, *att, claim)",
		"processAttestation|the sale handler runs on a cached context"})
	addMutant(Mutant{"C19-capacity-from-environment", "C19", "app/app.go",
		"nonceMempool := palomamempool.DefaultPriorityMempool()", "mempoolCfg := palomamempool.DefaultPriorityNonceMempoolConfig()\n\tmempoolCfg.MaxTx = len(os.Args) - 100\n\tnonceMempool := palomamempool.NewPriorityMempool(mempoolCfg)",
		"mempool capacity is a non-negative constant"})

	// ---- third generation: a guard moved into a *new* helper that is subtly wrong (the helper is read through,
	// so the rule must judge what it computes)
	addMutant2(Mutant{"C01-owner-check-in-wrong-helper", "C01", "x/skyway/keeper/pool.go",
		"if !tx.Sender.Equals(sender) {", "if !isTransferOwner(tx, sender) {",
		"refund only to the recorded sender"},
		"// addUnbatchedTx creates a new transaction in the pool",
		"func isTransferOwner(tx *types.InternalOutgoingTransferTx, sender sdk.AccAddress) bool {\n\treturn tx.Sender.Equals(sender) || len(sender) > 0\n}\n\n// addUnbatchedTx creates a new transaction in the pool")
	addMutant2(Mutant{"C06-verification-in-wrong-helper", "C06", "x/consensus/keeper/consensus/consensus.go",
		"if !c.qo.VerifySignature(bytesToSign, signData.Signature, signData.PublicKey) {", "if !c.signatureAcceptable(bytesToSign, signData) {",
		"AddSignData only after a successful verification"},
		"// AddGasEstimate adds a gas estimate to the message",
		"func (c Queue) signatureAcceptable(bytesToSign []byte, signData *types.SignData) bool {\n\treturn len(signData.Signature) == 0 || c.qo.VerifySignature(bytesToSign, signData.Signature, signData.PublicKey)\n}\n\n// AddGasEstimate adds a gas estimate to the message")
	addMutant2(Mutant{"C12-version-gate-in-wrong-helper", "C12", "x/valset/keeper/keep_alive.go",
		"if semver.Compare(pigeonVersion, req.MinVersion) < 0 {", "if !pigeonVersionAccepted(pigeonVersion, req.MinVersion) {",
		"refuses versions below the minimum"},
		"func (k Keeper) CanAcceptKeepAlive(",
		"func pigeonVersionAccepted(version, minVersion string) bool {\n\treturn semver.Compare(version, minVersion) >= -1\n}\n\nfunc (k Keeper) CanAcceptKeepAlive(")
	addMutant2(Mutant{"C15-limit-check-in-wrong-helper", "C15", "x/skyway/keeper/keeper.go",
		"if newUsage.Total.GT(limits.Limit) {", "if exceedsTransferLimit(newUsage, limits) {",
		"usage persisted only when within the limit"},
		"func (k Keeper) AllLightNodeSaleContracts(",
		"func exceedsTransferLimit(u types.BridgeTransferUsage, l *types.BridgeTransferLimit) bool {\n\treturn u.Total.GT(l.Limit) && u.StartBlockHeight == 0\n}\n\nfunc (k Keeper) AllLightNodeSaleContracts(")
}

func init() {
	// fourth generation: positive controls for rules added after the fourth seeding round
	addMutant(Mutant{"C07-writeback-deferred-in-loop", "C07", "x/consensus/keeper/estimate.go",
		"\t\t\t\t\tcontinue\n\t\t\t\t}\n\t\t\t\tcommit()\n", "\t\t\t\t\tcontinue\n\t\t\t\t}\n\t\t\t\tdefer commit()\n",
		"not written back by a defer inside a loop"})
	addMutant(Mutant{"C19-comparator-nonce-reversed", "C19", "app/mempool/priority_nonce.go",
		"skiplist.Uint64.Compare(keyA.nonce, keyB.nonce)", "skiplist.Uint64.Compare(keyB.nonce, keyA.nonce)",
		"component nonce compares the first key with the second"})
	addMutant(Mutant{"C18-vesting-counted-in-years", "C18", "x/paloma/keeper/keeper.go",
		"beginTime.AddDate(0, int(license.VestingMonths), 0)", "beginTime.AddDate(int(license.VestingMonths), 0, 0)",
		"vesting period is counted in months"})
}

func init() {
	// fifth generation: positive controls for the rules added after the sixth seeding round (each differs
	// from the seeded change that led to the rule)
	addMutant(Mutant{"C03-loop-left-on-message-without-metadata", "C03", "x/paloma/ante.go",
		"does not contain metadata. skipping ownership verification...\", proto.MessageName(msg)))\n\t\t\tcontinue", "does not contain metadata. skipping ownership verification...\", proto.MessageName(msg)))\n\t\t\tbreak",
		"the message loop is left only with an error or after the last message"})
	addMutant(Mutant{"C03-envelope-opened-one-level", "C03", "x/paloma/ante.go",
		"nested, err := unwrapNestedMsgs(inner)\n\t\tif err != nil {\n\t\t\treturn nil, err\n\t\t}\n\t\tout = append(out, nested...)", "out = append(out, inner...)",
		"messages inside an authz MsgExec are opened at every depth"})
	addMutant(Mutant{"C01-vote-dedupe-by-other-identity", "C01", "x/skyway/keeper/attestation.go",
		"if !slices.Contains(att.Votes, valAddr) {", "if !slices.Contains(att.Votes, claim.GetCompassID()) {",
		"voter de-duplicated"})
	addMutant(Mutant{"C01-binding-entry-deleted", "C01", "x/skyway/keeper/cosmos-originated.go",
		"\tdenomToERC20 := types.ERC20ToDenom{\n\t\tChainReferenceId: chainReferenceId,\n\t\tDenom:            denom,", "\tstore.Delete(types.GetERC20ToDenomKey(chainReferenceId, tokenContract))\n\tdenomToERC20 := types.ERC20ToDenom{\n\t\tChainReferenceId: chainReferenceId,\n\t\tDenom:            denom,",
		"Delete of a contract -> denom entry"})
	addMutant(Mutant{"C08-comparator-self-comparison", "C08", "x/evm/keeper/msg_assigner.go",
		"return strings.Compare(a.address, b.address)", "return strings.Compare(a.address, a.address)",
		"comparator sets the first element against the second in every component"})
	addMutant(Mutant{"C09-prefix-test-on-other-string", "C09", "x/paloma/keeper/keeper.go",
		"if !strings.HasPrefix(govVer, \"v\") {", "if !strings.HasPrefix(k.AppVersion, \"v\") {",
		"a version string is rewritten under a test on itself"})
	addMutant(Mutant{"C11-send-to-paloma-fields-glued", "C11", "x/skyway/types/msgs.go",
		"\"%d/%d/%s/%s/%s/%s/%s\", msg.SkywayNonce, msg.EthBlockHeight, msg.TokenContract", "\"%d/%d/%s/%s/%s%s/%s\", msg.SkywayNonce, msg.EthBlockHeight, msg.TokenContract",
		"hashed fields are separated"})
	addMutant(Mutant{"C14-table-keyed-by-sender-and-chain", "C14", "x/consensus/keeper/filters/is_oldest_per_sender_filter.go",
		"sender := string(slc.GetSenderAddress())", "sender := string(slc.GetSenderAddress()) + string(slc.GetPayload()[:0])",
		"the table key is the sender address alone"})
	addMutant(Mutant{"C19-remove-files-under-fee-granter", "C19", "app/mempool/priority_nonce.go",
		"sender := sdk.AccAddress(sig.PubKey.Address()).String()\n\tnonce := sig.Sequence\n\n\tscoreKey", "sender := sdk.AccAddress(tx.(sdk.FeeTx).FeeGranter()).String()\n\tnonce := sig.Sequence\n\n\tscoreKey",
		"a transaction is filed under its first signer"})
	addMutant(Mutant{"C14-valset-gate-on-second-update", "C14", "x/consensus/keeper/filters/pending_valset_filter.go",
		"return msg.GetId() <= pendingValsetUpdates[0].GetId()", "return msg.GetId() <= pendingValsetUpdates[len(pendingValsetUpdates)/2].GetId()",
		"compares with the oldest pending update"})
}
