package main

// C01 — bridge escrow conservation and all-or-nothing transfer lifecycle.

import (
	"go/constant"
	"go/types"
	"sort"
	"strings"

	"golang.org/x/tools/go/ssa"
)

func init() { register("C01", rulesC01) }

// ---- atomic wrappers -----------------------------------------------------------

type atomicInfo struct {
	cache  *ssa.Call // the CacheContext() call
	ctxVal ssa.Value // extract #0
	commit ssa.Value // extract #1
	okOnly bool      // commit runs only on success
	why    string
}

// atomicWrapper: f creates a cache context and commits it only when it returns success.
func atomicWrapper(f *ssa.Function) *atomicInfo {
	for _, s := range CallsIn(f) {
		if s.Callee.Name != "CacheContext" || s.Value() == nil {
			continue
		}
		ai := &atomicInfo{cache: s.Value().(*ssa.Call)}
		for _, r := range *ai.cache.Referrers() {
			if ex, ok := r.(*ssa.Extract); ok {
				if ex.Index == 0 {
					ai.ctxVal = ex
				} else if ex.Index == 1 {
					ai.commit = ex
				}
			}
		}
		if ai.commit == nil {
			continue
		}
		ai.okOnly, ai.why = commitOnSuccessOnly(f, ai.commit)
		return ai
	}
	return nil
}

// commitOnSuccessOnly: every call of the commit function value happens either in a deferred
// closure under "error result == nil", or inline at a point from which only success returns are reachable
// (or dominated by the nil-error edge of the guarded operation).
func commitOnSuccessOnly(f *ssa.Function, commit ssa.Value) (bool, string) {
	found := false
	// commit may be stored in an Alloc when captured by a closure
	isCommitVal := func(v ssa.Value, g *ssa.Function) bool {
		v = canon(v)
		if v == commit {
			return true
		}
		if u, ok := v.(*ssa.UnOp); ok {
			switch a := u.X.(type) {
			case *ssa.Alloc:
				for _, r := range *a.Referrers() {
					if st, ok := r.(*ssa.Store); ok && st.Addr == a && st.Val == commit {
						return true
					}
				}
			case *ssa.FreeVar:
				// resolve the binding in the parent
				par := g.Parent()
				if par == nil {
					return false
				}
				idx := -1
				for i, fv := range g.FreeVars {
					if fv == a {
						idx = i
					}
				}
				for _, b := range par.Blocks {
					for _, in := range b.Instrs {
						if mc, ok := in.(*ssa.MakeClosure); ok && mc.Fn == g && idx >= 0 {
							if al, ok := mc.Bindings[idx].(*ssa.Alloc); ok {
								for _, r := range *al.Referrers() {
									if st, ok := r.(*ssa.Store); ok && st.Addr == al && st.Val == commit {
										return true
									}
								}
							}
						}
					}
				}
			}
		}
		return false
	}
	for _, g := range WithAnon(f) {
		for _, b := range g.Blocks {
			for _, in := range b.Instrs {
				ci, ok := in.(ssa.CallInstruction)
				if !ok || ci.Common().IsInvoke() {
					continue
				}
				if !isCommitVal(ci.Common().Value, g) {
					continue
				}
				found = true
				if g != f {
					// deferred closure: must be guarded by error == nil
					ok := false
					for _, fa := range FactsAt(in) {
						if fa.Kind == FNil && isErrorType(fa.V.Type()) {
							ok = true
						}
					}
					if !ok {
						return false, "commit in a closure without an error == nil guard"
					}
					continue
				}
				// inline: no error return reachable afterwards, or dominated by a nil-error fact
				errRets := map[ssa.Instruction]bool{}
				for _, r := range Returns(f) {
					if r.Kind == RetError {
						errRets[r.Ret] = true
					}
				}
				nilGuard := false
				for _, fa := range FactsAt(in) {
					if fa.Kind == FNil && isErrorType(fa.V.Type()) {
						nilGuard = true
					}
				}
				_ = nilGuard
				if ReachAvoiding(f, in, errRets, nil) != nil {
					return false, "an error return is reachable after the inline commit: the function can report failure with its changes already persisted"
				}
				// and not reachable from a failing edge: every error-typed nonnil fact must not dominate it
				for _, fa := range FactsAt(in) {
					if fa.Kind == FNonNil && isErrorType(fa.V.Type()) {
						return false, "commit on an error edge"
					}
				}
			}
		}
	}
	if !found {
		return false, "commit never called"
	}
	return true, "commit only on success"
}

// usesCtx: the first (context) argument of the call derives from v.
func derivesFromValue(x, v ssa.Value) bool {
	seen := map[ssa.Value]bool{}
	var walk func(x ssa.Value, d int) bool
	walk = func(x ssa.Value, d int) bool {
		if x == nil || d > 10 || seen[x] {
			return false
		}
		seen[x] = true
		x = canon(x)
		if x == v {
			return true
		}
		switch y := x.(type) {
		case *ssa.MakeInterface:
			return walk(y.X, d+1)
		case *ssa.ChangeInterface:
			return walk(y.X, d+1)
		case *ssa.Phi:
			for _, e := range y.Edges {
				if !walk(e, d+1) {
					return false
				}
			}
			return len(y.Edges) > 0
		case *ssa.Call:
			// sdk.UnwrapSDKContext(ctx), ctx.WithX()
			for _, a := range y.Common().Args {
				if walk(a, d+1) {
					return true
				}
			}
		case *ssa.UnOp:
			if a, ok := y.X.(*ssa.Alloc); ok {
				vals, _ := reachingStores(a, y)
				for _, sv := range vals {
					if !walk(sv, d+1) {
						return false
					}
				}
				return len(vals) > 0
			}
		}
		return false
	}
	return walk(x, 0)
}

// ---- error fates ---------------------------------------------------------------

type fate int

const (
	fatePropagates fate = iota
	fateSwallows
	fateAtomicWrap
	fateNoError
)

// errorFate: what caller g does with the error of call site s.
func errorFate(g *ssa.Function, s Site) (fate, string) {
	call, ok := s.Instr.(*ssa.Call)
	if !ok {
		return fateSwallows, "call result unused (defer/go)"
	}
	// locate the error value
	var errVals []ssa.Value
	if isErrorType(call.Type()) {
		errVals = append(errVals, call)
	} else {
		for _, r := range *call.Referrers() {
			if ex, ok := r.(*ssa.Extract); ok && isErrorType(ex.Type()) {
				errVals = append(errVals, ex)
			}
		}
	}
	sig := call.Common().Signature()
	hasErr := false
	for i := 0; i < sig.Results().Len(); i++ {
		if isErrorType(sig.Results().At(i).Type()) {
			hasErr = true
		}
	}
	if !hasErr {
		return fateNoError, "callee returns no error"
	}
	if len(errVals) == 0 {
		return fateSwallows, "error result discarded"
	}
	succ := SuccessReturns(g)
	for _, ev := range errVals {
		// tested somewhere: find blocks whose dominating facts say ev != nil
		tested := false
		for _, b := range g.Blocks {
			if len(b.Preds) != 1 {
				continue
			}
			for _, fa := range DomFacts(b) {
				if fa.Kind != FNonNil || fa.Block != b.Preds[0] {
					continue
				}
				if canon(fa.V) != canon(ev) && !sameSpill(fa.V, ev) {
					continue
				}
				tested = true
				// from the error edge no success return may be reachable
				if r := ReachFromTop(g, b, succ, nil); r != nil {
					return fateSwallows, "after err != nil a success return is reachable"
				}
			}
		}
		if tested {
			continue
		}
		// not tested: returned directly?
		direct := false
		for _, r := range Returns(g) {
			for _, rv := range r.Ret.Results {
				if canon(rv) == canon(ev) || sameSpill(rv, ev) {
					direct = true
				}
			}
		}
		// passed to an error collector (whoops.Group.Add) whose Return()/Err is returned
		if !direct {
			for _, r := range *ev.Referrers() {
				if ci, ok := r.(ssa.CallInstruction); ok {
					if c, ok := CalleeOf(ci.Common()); ok && c.Recv == "Group" && c.Name == "Add" {
						direct = true
					}
				}
				if mi, ok := r.(*ssa.MakeInterface); ok {
					_ = mi
				}
			}
		}
		if !direct {
			return fateSwallows, "error neither tested nor returned"
		}
	}
	return fatePropagates, "error propagated"
}

// ReachFromTop: reachability starting at the first instruction of block b (inclusive).
func ReachFromTop(f *ssa.Function, b *ssa.BasicBlock, to, avoid map[ssa.Instruction]bool) ssa.Instruction {
	first := b.Instrs[0]
	if avoid[first] {
		return nil
	}
	if to[first] {
		return first
	}
	return ReachAvoiding(f, first, to, avoid)
}

// sameSpill: both values are loads of the same spilled variable with the same reaching store.
func sameSpill(a, b ssa.Value) bool {
	ca, cb := canon(a), canon(b)
	if ca == cb {
		return true
	}
	// b stored into an alloc that a loads
	if u, ok := a.(*ssa.UnOp); ok {
		if al, ok := u.X.(*ssa.Alloc); ok {
			vals, _ := reachingStores(al, u)
			for _, v := range vals {
				if canon(v) == cb {
					return true
				}
			}
		}
	}
	return false
}

// ---- rules ---------------------------------------------------------------------

func rulesC01(w *World, o *Out) {
	foundFlagDiscipline(w, o, "C01.R1", "x/skyway/keeper")
	fl := NewFlow(w)
	o.Rule("C01.R1", "every function that (transitively) mutates pool / batch / id-counter / escrow state and can return an error after a mutation is an atomic wrapper (cache context committed only on success, all mutating callees run on the cached context), or every caller chain propagates its error up to a transaction boundary or an atomic wrapper; a chain that logs-and-continues is a violation")
	o.Rule("C01.R2", "every bank call that moves the bridge escrow has a registered shape (lock, refund, burn, attested mint, forward of minted coins, governance one-off); other movers are violations")
	o.Rule("C01.R3", "amounts pair up: lock = amount + the very tax value stored with the transfer; refund = stored amount + stored tax to the checked owner; burn = sum of stored amount + stored tax of the batch; mint = the claim's amount")
	o.Rule("C01.R4", "pool and batch moves are exclusive: pool entries are added only by send, cancel-batch and genesis, removed only by refund and batch building; batch deletion is preceded by re-pooling (cancel) or burning (executed); a built batch stores the selected transfers")
	o.Rule("C01.R5", "mint / burn of the escrow are reachable only through the attestation handler (itself only called from processAttestation) or an authority-guarded governance handler")
	o.Rule("C01.R7", "the bridge escrow can be credited only by bridge operations: the skyway module account stays on the bank keeper's blocked-address list (BlockedAddresses removes only other module accounts)")
	if ba := w.MustFunc(o, "app", "", "BlockedAddresses"); ba != nil {
		o.Analysed(w.FuncKey(ba))
		name := ""
		if tp := w.TypesPkg(modPath + "/x/skyway/types"); tp != nil {
			if c, isC := tp.Scope().Lookup("ModuleName").(*types.Const); isC {
				name = constant.StringVal(c.Val())
			}
		}
		if name == "" {
			o.Unresolved("x/skyway/types.ModuleName")
		}
		var freed []string
		nDel := 0
		for _, c := range CallsIn(ba) {
			b, isB := c.Common().Value.(*ssa.Builtin)
			if !isB || b.Name() != "delete" {
				continue
			}
			nDel++
			_, calls := NewFlow(w).Influence(c.Args()[1])
			known := false
			for cc := range calls {
				if cal, okc := CalleeOf(cc.Common()); okc && cal.Name == "NewModuleAddress" && len(cc.Call.Args) == 1 {
					if k, isK := cc.Call.Args[0].(*ssa.Const); isK && k.Value != nil && k.Value.Kind() == constant.String {
						known = true
						if constant.StringVal(k.Value) == name {
							freed = append(freed, name)
						}
					}
				}
			}
			if !known {
				freed = append(freed, "<an address not given as a module-name constant>")
			}
		}
		o.Count("C01.R7 unblocked module accounts", nDel, 1)
		o.Check("C01.R7", "BlockedAddresses|the bridge escrow cannot receive plain bank transfers", len(freed) == 0 && name != "", w.Pos(ba.Pos()),
			"removed from the blocked list: "+strings.Join(freed, ",")+"; a bank send into the skyway module account makes the escrow exceed the pending transfers with coins no bridge operation can refund or burn")
	}
	o.Rule("C01.R6", "after an attested deposit is minted, every success path forwards the coins (to the receiver, or to the community pool when the local send failed)")

	muts := w.StoreMuts(fl)
	isC01 := func(m Mut) (string, bool) {
		switch {
		case m.Has("call:x/skyway/types.GetOutgoingTxPoolKey"):
			return "pool", true
		case m.Has("call:x/skyway/types.GetOutgoingTxBatchKey"):
			return "batch", true
		case m.Has("global:KeyLastTXPoolID") || m.Has("global:KeyLastOutgoingBatchID"):
			return "id-counter", true
		case strings.HasPrefix(m.Op, "bank:") && (m.Has("const:skyway") || strings.HasSuffix(funcPkgPath(m.Site.Fn), "x/skyway/keeper")):
			return "escrow", true
		}
		return "", false
	}
	// pending transfers name their token by contract: the contract -> denom entry they are refunded and
	// burned through is written, never removed (a rebinding that drops the old entry strands them)
	o.Rule("C01.R11", "the contract -> denom index that pending pool entries and batches are resolved through is only ever written: no production code deletes an entry of it")
	nBind := 0
	for _, m := range muts {
		if !m.Has("call:x/skyway/types.GetERC20ToDenomKey") || strings.HasPrefix(m.Op, "bank:") {
			continue
		}
		nBind++
		o.Check("C01.R11", w.FuncKey(TopFunc(m.Site.Fn))+"|"+m.Op+" of a contract -> denom entry", m.Op != "Delete", w.Pos(m.Site.Instr.Pos()),
			"a transfer pooled or batched under the contract can no longer be refunded or burned once the entry is gone (its denomination cannot be found)")
	}
	o.Count("C01.R11 writers of the contract -> denom index", nBind, 1)
	direct := map[*ssa.Function][]Mut{}
	nSites := 0
	for _, m := range muts {
		if _, ok := isC01(m); ok {
			tf := TopFunc(m.Site.Fn)
			direct[tf] = append(direct[tf], m)
			nSites++
		}
	}
	// setID writes the counter through a key parameter: treat its callers by role
	if f := w.Func(skw, "Keeper", "setID"); f != nil {
		for _, m := range w.mutsIn(fl, f) {
			direct[f] = append(direct[f], m)
		}
	}
	o.Count("C01 direct mutation sites (pool, batch, counters, escrow)", nSites, 12)

	// transitive mutators over the call graph (module-restricted)
	cg := w.CG()
	mutator := map[*ssa.Function]bool{}
	for f := range direct {
		mutator[f] = true
	}
	// per-function (not per top-level) view: iterator helpers that merely invoke callbacks are not mutators themselves
	mutatorFn := map[*ssa.Function]bool{}
	for _, ms := range direct {
		for _, m := range ms {
			mutatorFn[m.Site.Fn] = true
		}
	}
	for changed := true; changed; {
		changed = false
		for _, f := range w.ProdFuncs {
			tf := TopFunc(f)
			if mutator[tf] {
				continue
			}
			if n := cg.Nodes[f]; n != nil {
				for _, e := range n.Out {
					cf := e.Callee.Func
					if cf == nil || !w.followable(cf) || !mutator[TopFunc(cf)] {
						continue
					}
					if cf.Parent() != nil && TopFunc(cf) != tf {
						continue // a callback invoked by a generic iterator: attributed to the closure's lexical parent
					}
					if !viaMutatingPath(cf, mutatorFn) {
						continue
					}
					if ai := atomicWrapper(TopFunc(cf)); ai != nil && ai.okOnly {
						continue // an atomic callee leaves nothing behind when it fails
					}
					mutator[tf] = true
					changed = true
					break
				}
			}
		}
	}
	var closureMutates func(cf *ssa.Function) bool
	closureMutates = func(cf *ssa.Function) bool {
		for _, g := range WithAnon(cf) {
			if mutatorFn[g] {
				return true
			}
			for _, s := range CallsIn(g) {
				if s.Callee.Static != nil && s.Callee.Static.Parent() == nil && mutator[s.Callee.Static] {
					return true
				}
			}
		}
		return false
	}
	// call sites that mutate: direct sites and calls to mutators
	mutSites := func(f *ssa.Function) []Site {
		var out []Site
		for _, g := range WithAnon(f) {
			for _, s := range CallsIn(g) {
				isM := false
				for _, m := range direct[TopFunc(f)] {
					if m.Site.Instr == s.Instr {
						isM = true
					}
				}
				if !isM {
					if n := cg.Nodes[g]; n != nil {
						for _, e := range n.Out {
							cf := e.Callee.Func
							if e.Site != s.Instr || cf == nil || !mutator[TopFunc(cf)] || !w.followable(cf) {
								continue
							}
							if cf.Parent() != nil && TopFunc(cf) != TopFunc(g) {
								continue
							}
							if cf.Parent() != nil && !closureMutates(cf) {
								continue // e.g. the deferred commit closure
							}
							if ai := atomicWrapper(TopFunc(cf)); ai != nil && ai.okOnly && TopFunc(cf) != TopFunc(f) {
								continue
							}
							isM = true
						}
					}
				}
				if isM {
					out = append(out, s)
				}
			}
		}
		return out
	}

	// ---- R1 ----
	var mfs []*ssa.Function
	for f := range mutator {
		if strings.Contains(funcPkgPath(f), "/x/skyway") {
			mfs = append(mfs, f)
		}
	}
	sort.Slice(mfs, func(i, j int) bool { return w.FuncKey(mfs[i]) < w.FuncKey(mfs[j]) })
	o.Count("C01.R1 skyway functions that mutate bridge state", len(mfs), 12)
	entries := map[*ssa.Function]Entry{}
	for _, e := range w.Entries() {
		entries[e.Fn] = e
	}
	genesisReach := w.Reach(entryFns(w.EntriesOf("genesis")), nil)
	atomicMemo := map[*ssa.Function]*atomicInfo{}
	getAtomic := func(f *ssa.Function) *atomicInfo {
		if a, ok := atomicMemo[f]; ok {
			return a
		}
		a := atomicWrapper(f)
		atomicMemo[f] = a
		return a
	}
	// fallible after a mutation?
	partial := func(f *ssa.Function) (bool, Site) {
		for _, s := range mutSites(f) {
			if s.Fn != f {
				continue
			}
			errRets := map[ssa.Instruction]bool{}
			for _, r := range Returns(f) {
				if r.Kind != RetSuccess {
					errRets[r.Ret] = true
				}
			}
			if errResultIndex(f) < 0 {
				continue
			}
			if ReachAvoiding(f, s.Instr, errRets, nil) != nil {
				return true, s
			}
		}
		return false, Site{}
	}
	checked := map[*ssa.Function]bool{}
	var checkUp func(f *ssa.Function, chain []string, depth int)
	checkUp = func(f *ssa.Function, chain []string, depth int) {
		if depth > 8 {
			return
		}
		// callers of f
		n := cg.Nodes[f]
		if n == nil {
			return
		}
		type callerSite struct {
			g *ssa.Function
			s Site
		}
		var callers []callerSite
		for _, e := range n.In {
			g := e.Caller.Func
			if g == nil || !w.IsProd(g) || e.Site == nil {
				continue
			}
			c, _ := CalleeOf(e.Site.Common())
			callers = append(callers, callerSite{g, Site{Fn: g, Instr: e.Site, Callee: c}})
		}
		sort.Slice(callers, func(i, j int) bool { return callers[i].s.Instr.Pos() < callers[j].s.Instr.Pos() })
		for _, cs := range callers {
			g := cs.g
			tg := TopFunc(g)
			if genesisReach[tg] != nil && len(w.ClassReach().ClassesReaching(tg)) == 1 {
				continue // genesis import only
			}
			key := w.FuncKey(f) + " <- " + w.FuncKey(g)
			pos := w.Pos(cs.s.Instr.Pos())
			if ai := getAtomic(tg); ai != nil && ai.okOnly && g == tg {
				// caller is an atomic wrapper: the call must run on the cached context
				args := cs.s.Args()
				onCache := false
				for _, a := range args {
					if derivesFromValue(a, ai.ctxVal) {
						onCache = true
					}
				}
				o.Check("C01.R1", key+"|runs on the caller's cache context", onCache, pos,
					"the caller creates a cache context but this state-mutating call does not run on it, so a later failure is not rolled back", append(chain, w.FuncKey(g))...)
				continue
			}
			ft, why := errorFate(g, cs.s)
			switch ft {
			case fatePropagates:
				if _, isEntry := entries[tg]; isEntry && g == tg {
					e := entries[tg]
					if e.Class == "msg" || e.Class == "gov" || e.Class == "wasm" {
						o.Pass("C01.R1", key+"|error reaches the transaction boundary", pos, e.Class+" entry "+e.Name+" returns the error; baseapp discards the transaction's writes")
						continue
					}
				}
				if g != tg {
					// inside a closure (iterator callback): treat the enclosing function's handling conservatively
					o.Note("C01.R1", key+"|closure", pos, "error handled inside a closure: "+why)
				}
				if !checked[tg] {
					checked[tg] = true
					checkUp(tg, append(chain, w.FuncKey(g)), depth+1)
				}
			case fateNoError:
				// callee cannot fail partially as seen by this caller (no error result): nothing to propagate
			default:
				exKey := w.FuncKey(tg) + "|" + w.FuncKey(f)
				if why2, ok := c01Exempt[exKey]; ok {
					o.Pass("C01.R1", key+"|exempt", pos, why2)
					continue
				}
				o.Fail("C01.R1", key+"|failure of a non-atomic state mutation is swallowed", pos,
					"the callee can fail after mutating bridge state and is not atomic; this caller neither propagates the error nor wraps the call in a cache context ("+why+")", append(chain, w.FuncKey(g))...)
			}
		}
	}
	for _, f := range mfs {
		o.Analysed(w.FuncKey(f))
		isPartial, at := partial(f)
		if !isPartial {
			continue
		}
		if ai := getAtomic(f); ai != nil {
			o.Check("C01.R1", w.FuncKey(f)+"|atomic wrapper commits only on success", ai.okOnly, w.Pos(ai.cache.Pos()), ai.why)
			// every mutating call uses the cached ctx
			for _, s := range mutSites(f) {
				if s.Fn != f {
					continue
				}
				on := false
				for _, a := range s.Args() {
					if derivesFromValue(a, ai.ctxVal) {
						on = true
					}
				}
				if !on {
					// stores through a store obtained from the cached ctx
					for _, a := range s.Args() {
						aps, calls := fl.Influence(a)
						_ = aps
						for c := range calls {
							for _, ca := range c.Common().Args {
								if derivesFromValue(ca, ai.ctxVal) {
									on = true
								}
							}
						}
					}
				}
				o.Check("C01.R1", w.FuncKey(f)+"|"+s.Callee.String()+" runs on the cached context", on, w.Pos(s.Instr.Pos()),
					"inside an atomic wrapper every state-mutating call must use the cached context, otherwise a failure is not rolled back")
			}
			continue
		}
		if _, isEntry := entries[f]; isEntry {
			continue
		}
		o.Note("C01.R1", w.FuncKey(f)+"|fallible after mutation", w.Pos(at.Instr.Pos()), "not atomic itself; caller chains checked")
		checked[f] = true
		checkUp(f, []string{w.FuncKey(f)}, 0)
	}

	// ---- R2 / R3 / R5 / R6: escrow movers by shape ----
	handle := w.MustFunc(o, skw, "AttestationHandler", "Handle")
	procAtt := w.MustFunc(o, skw, "Keeper", "processAttestation")
	var underHandle ReachSet
	if handle != nil {
		underHandle = w.Reach([]*ssa.Function{handle}, nil)
	}
	nBank := 0
	for f, ms := range direct {
		for _, m := range ms {
			if !strings.HasPrefix(m.Op, "bank:") {
				continue
			}
			nBank++
			op := strings.TrimPrefix(m.Op, "bank:")
			pos := w.Pos(m.Site.Instr.Pos())
			args := m.Site.Args()
			coins := args[len(args)-1]
			aps, calls := fl.Influence(coins)
			hasPath := func(suffix string) bool {
				for a := range aps {
					if strings.HasSuffix(a.Path, suffix) {
						return true
					}
				}
				return false
			}
			dependsCall := func(name string) *ssa.Call {
				for c := range calls {
					if cal, ok := CalleeOf(c.Common()); ok && cal.Name == name {
						return c
					}
				}
				return nil
			}
			key := w.FuncKey(f) + "|" + op
			switch {
			case op == "SendCoinsFromAccountToModule":
				// lock
				tax := dependsCall("bridgeTaxAmount")
				okAmt := hasPath(".Amount") && tax != nil
				o.Check("C01.R3", key+"|lock = amount + bridge tax", okAmt, pos, "locked coins must depend on the sent amount and on bridgeTaxAmount(); influence="+strings.Join(aps.Strings(), ","))
				// same tax value stored with the transfer
				same := false
				for _, st := range storesToField(f, "OutgoingTransferTx", "BridgeTaxAmount") {
					_, c2 := fl.Influence(st.Val)
					if tax != nil && c2[tax] {
						same = true
					}
				}
				o.Check("C01.R3", key+"|the locked tax is the tax recorded with the transfer", same && tax != nil, pos, "the BridgeTaxAmount stored on the pool entry must be the very value added to the locked amount")
				add := FindCalls(f, false, isCallee(skw, "Keeper", "addUnbatchedTX"))
				okPool := len(add) > 0 && ReachAvoiding(f, m.Site.Instr, SuccessReturns(f), siteSet(add)) == nil
				o.Check("C01.R4", key+"|every success path after the lock adds the pool entry", okPool, pos, "a successful send must leave the transfer in the pool")
			case op == "SendCoinsFromModuleToAccount" && (underHandle == nil || underHandle[f] == nil) && !hasAuthorityGuardFn(w, f):
				// refund
				okAmt := hasPath(".Erc20Token.Amount") && hasPath(".BridgeTaxAmount")
				o.Check("C01.R3", key+"|refund = stored amount + stored tax", okAmt, pos, "refunded coins must depend on the pool entry's Erc20Token.Amount and BridgeTaxAmount; influence="+strings.Join(aps.Strings(), ","))
				rm := FindCalls(f, false, isCallee(skw, "Keeper", "removeUnbatchedTX"))
				okRm := len(rm) > 0 && PrecededBy(f, m.Site.Instr, siteSet(rm))
				for _, r := range rm {
					if GuardErrNil(m.Site.Instr, func(c Callee) bool { return c.Static == r.Callee.Static }) == nil {
						okRm = false
					}
				}
				o.Check("C01.R4", key+"|refund only after the pool entry was removed", okRm, pos, "the refund must be preceded on every path by a successful removeUnbatchedTX")
				okOwner := GuardBool(m.Site.Instr, func(c Callee) bool { return c.Name == "Equals" }, true) != nil
				o.Check("C01.R4", key+"|refund only to the recorded sender", okOwner, pos, "the refund must be dominated by tx.Sender.Equals(sender)")
				// recipient is the checked sender
			case op == "BurnCoins":
				okAmt := hasPath(".Erc20Token.Amount") && hasPath(".BridgeTaxAmount") && dependsCall("GetOutgoingTXBatch") != nil
				o.Check("C01.R3", key+"|burn = sum of stored amount + stored tax of the batch", okAmt, pos, "burned coins must depend on every batch transfer's amount and tax; influence="+strings.Join(aps.Strings(), ","))
				del := FindCalls(f, false, isCallee(skw, "Keeper", "DeleteBatch"))
				okDel := len(del) > 0 && ReachAvoiding(f, m.Site.Instr, SuccessReturns(f), siteSet(del)) == nil
				o.Check("C01.R4", key+"|burn is followed by deleting the batch", okDel, pos, "every success path after the burn must delete the batch")
				for _, d := range del {
					o.Check("C01.R4", key+"|batch deleted only after the burn", PrecededBy(f, d.Instr, map[ssa.Instruction]bool{m.Site.Instr: true}), w.Pos(d.Instr.Pos()), "DeleteBatch in the executed path must be preceded by BurnCoins")
				}
				o.Check("C01.R5", key+"|burn only under attestation", underHandle != nil && underHandle[f] != nil && onlyReachedVia(w, f, handle), pos, "BurnCoins of the escrow must be reachable only through AttestationHandler.Handle")
			case op == "MintCoins":
				if underHandle != nil && underHandle[f] != nil {
					okAmt := false
					for a := range aps {
						if p, ok := a.Root.(*ssa.Parameter); ok && p.Name() == "claim" && strings.HasSuffix(a.Path, ".Amount") {
							okAmt = true
						}
					}
					o.Check("C01.R3", key+"|mint = the attested claim's amount", okAmt, pos, "minted coins must depend on claim.Amount; influence="+strings.Join(aps.Strings(), ","))
					o.Check("C01.R5", key+"|mint only under attestation", onlyReachedVia(w, f, handle), pos, "MintCoins of the escrow must be reachable only through AttestationHandler.Handle")
					// R6: forwarded on every success path; on failure of the local send, community pool
					fw := FindCalls(f, false, func(c Callee) bool {
						return c.Is(skw, "AttestationHandler", "sendCoinToLocalAddress") || c.Is(skw, "Keeper", "SendToCommunityPool")
					})
					for _, s := range fw {
						if !s.Callee.Is(skw, "AttestationHandler", "sendCoinToLocalAddress") {
							continue
						}
						cp := FindCalls(f, false, isCallee(skw, "Keeper", "SendToCommunityPool"))
						okFail, why := failureEdgeForwards(f, s, cp)
						o.Check("C01.R6", key+"|a failed local send still forwards the coins (community pool) or fails the attestation", okFail, w.Pos(s.Instr.Pos()), why)
					}
				} else {
					o.Check("C01.R5", key+"|mint outside attestation is authority-guarded", hasAuthorityGuardFn(w, f), pos, "a mint of the escrow account outside the attestation handler must be guarded by the governance authority")
				}
			case op == "SendCoinsFromModuleToAccount" && underHandle != nil && underHandle[f] != nil:
				// forward of a minted deposit
				okAmt := false
				for a := range aps {
					if p, ok := a.Root.(*ssa.Parameter); ok && (p.Name() == "coin" || p.Name() == "claim") {
						okAmt = true
					}
				}
				o.Check("C01.R3", key+"|forward = the minted coin", okAmt, pos, "forwarded coins must be the coin minted for the claim; influence="+strings.Join(aps.Strings(), ","))
			case op == "SendCoinsFromModuleToAccount" && hasAuthorityGuardFn(w, f):
				o.Pass("C01.R2", key+"|governance one-off", pos, "authority-guarded handler")
			case op == "SendCoinsFromModuleToModule":
				o.Check("C01.R2", key+"|community-pool forward only under attestation", underHandle != nil && underHandle[f] != nil, pos, "module-to-module transfers out of the escrow are allowed only when forwarding an attested deposit")
			default:
				o.Fail("C01.R2", key+"|unregistered escrow mover", pos, "a bank call moving bridge escrow coins has no registered shape (lock / refund / burn / attested mint / forward / governance)")
			}
		}
	}
	o.Count("C01.R2 bank sites moving the escrow", nBank, 8)
	// no other package moves the skyway module account
	for _, m := range muts {
		if strings.HasPrefix(m.Op, "bank:") && m.Has("const:skyway") && !strings.Contains(funcPkgPath(m.Site.Fn), "/x/skyway") {
			o.Fail("C01.R2", w.FuncKey(m.Site.Fn)+"|"+m.Op+"|escrow moved from another package", w.Pos(m.Site.Instr.Pos()), "only the skyway keeper may move the bridge escrow")
		}
	}
	// Handle's only caller is processAttestation; processAttestation's only caller is TryAttestation
	if handle != nil && procAtt != nil {
		nh := 0
		ok := true
		if n := cg.Nodes[handle]; n != nil {
			for _, e := range n.In {
				if e.Caller.Func == nil || !w.IsProd(e.Caller.Func) {
					continue
				}
				nh++
				if TopFunc(e.Caller.Func) != procAtt {
					ok = false
				}
			}
		}
		o.Check("C01.R5", "AttestationHandler.Handle is called only by processAttestation", ok && nh >= 1, w.Pos(handle.Pos()), "callers: "+itoa(nh))
		pc := w.CallersOf(func(c Callee) bool { return c.Static == procAtt })
		try := w.Func(skw, "Keeper", "TryAttestation")
		ok = len(pc) >= 1
		for _, s := range pc {
			for _, rc := range rootCallers(s.Fn) {
				if rc != try {
					ok = false
				}
			}
		}
		o.Check("C01.R5", "processAttestation is called only by TryAttestation (quorum-guarded, C02.R1)", ok, w.Pos(procAtt.Pos()), "callers: "+itoa(len(pc)))
	}

	// ---- R4: who may move between pool and batch ----
	whoMay := func(name string, callee *ssa.Function, allowed func(*ssa.Function) (bool, string)) {
		if callee == nil {
			o.Unresolved(name)
			return
		}
		cs := w.CallersOf(func(c Callee) bool { return c.Static == callee })
		for _, s := range cs {
			for _, tf := range rootCallers(s.Fn) {
				ok, why := allowed(tf)
				o.Check("C01.R4", name+" called from "+w.FuncKey(tf), ok, w.Pos(s.Instr.Pos()), why)
			}
		}
		o.Count("C01.R4 callers of "+name, len(cs), 1)
	}
	addU := w.Func(skw, "Keeper", "addUnbatchedTX")
	rmU := w.Func(skw, "Keeper", "removeUnbatchedTX")
	delB := w.Func(skw, "Keeper", "DeleteBatch")
	storeB := w.Func(skw, "Keeper", "StoreBatch")
	callsFn := func(f *ssa.Function, callee *ssa.Function) bool {
		for _, s := range CallsDeep(f) {
			if s.Callee.Static == callee {
				return true
			}
		}
		return false
	}
	hasBank := func(f *ssa.Function, op string) bool {
		for _, g := range unitOf(f) {
			for _, m := range direct[g] {
				if m.Op == "bank:"+op {
					return true
				}
			}
		}
		return false
	}
	whoMay("addUnbatchedTX", addU, func(f *ssa.Function) (bool, string) {
		switch {
		case hasBank(f, "SendCoinsFromAccountToModule"):
			return true, "send: pool entry added together with the lock"
		case callsFn(f, delB) && getAtomic(f) != nil:
			return true, "cancel: batch transfers returned to the pool in the same atomic step that deletes the batch"
		case genesisReach[f] != nil:
			return true, "genesis import"
		}
		return false, "pool entries may be created only by a send (with the lock), a batch cancellation (with the batch deletion) or genesis import"
	})
	whoMay("removeUnbatchedTX", rmU, func(f *ssa.Function) (bool, string) {
		switch {
		case hasBank(f, "SendCoinsFromModuleToAccount"):
			return true, "refund: entry removed together with the refund"
		case onlyCalledToBuild(w, f, storeB):
			return true, "batch building: entries move into a batch that is stored"
		}
		return false, "pool entries may be removed only by a refund or by batch building"
	})
	whoMay("DeleteBatch", delB, func(f *ssa.Function) (bool, string) {
		switch {
		case hasBank(f, "BurnCoins") && getAtomic(f) != nil:
			return true, "executed: batch deleted together with the burn"
		case callsFn(f, addU) && getAtomic(f) != nil:
			return true, "cancel: batch deleted together with re-pooling"
		}
		return false, "a batch may be deleted only when executed (burn) or cancelled (re-pooled), atomically"
	})
	// cancel: DeleteBatch preceded by the re-pooling loop; build: StoreBatch stores the picked transfers
	if cancel := w.Func(skw, "Keeper", "CancelOutgoingTXBatch"); cancel != nil && addU != nil {
		adds := FindCalls(cancel, false, func(c Callee) bool { return c.Static == addU })
		for _, d := range FindCalls(cancel, false, func(c Callee) bool { return c.Static == delB }) {
			// the loop over batch.Transactions precedes the delete: the add call's loop header dominates the delete
			ok := len(adds) > 0
			for _, a := range adds {
				hdr := loopHeaderOf(a.Block())
				switch {
				case hdr == nil:
					ok = false
				case a.Instr.Parent() == cancel && d.Instr.Parent() == cancel:
					if !hdr.Dominates(d.Block()) {
						ok = false
					}
				default:
					// the re-pooling loop and/or the delete live in helpers extracted from this function:
					// the call that runs the loop must precede the (call that performs the) delete on every
					// path, and the helper must not report success from inside its loop
					av, dv := normFrom(cancel, a.Instr), normFrom(cancel, d.Instr)
					if av == nil || dv == nil || av.Parent() != cancel || dv.Parent() != cancel ||
						!PrecededBy(cancel, dv, map[ssa.Instruction]bool{av: true}) {
						ok = false
					}
					if h := a.Instr.Parent(); h != cancel {
						for r := range SuccessReturns(h) {
							if inSameCycle(hdr, r.Block()) {
								ok = false
							}
						}
					}
				}
				ap, _ := fl.Influence(a.Args()[len(a.Args())-1])
				okT := false
				for x := range ap {
					if strings.Contains(x.Path, ".Transactions[]") {
						okT = true
					}
				}
				if !okT {
					ok = false
				}
			}
			o.Check("C01.R4", "CancelOutgoingTXBatch|batch deleted only after all its transfers were re-pooled", ok, w.Pos(d.Instr.Pos()), "the loop re-adding batch.Transactions to the pool must dominate DeleteBatch")
		}
	}
	if build := w.Func(skw, "Keeper", "BuildOutgoingTXBatch"); build != nil && storeB != nil {
		pick := FindCalls(build, false, isCallee(skw, "Keeper", "pickUnbatchedTxs"))
		st := FindCalls(build, false, func(c Callee) bool { return c.Static == storeB })
		ok := len(pick) == 1 && len(st) >= 1
		if ok {
			ok = ReachAvoiding(build, pick[0].Instr, nonEmptySuccess(build, pick[0]), siteSet(st)) == nil
			for _, s := range st {
				if fl.DependsOnCall(s.Args()[len(s.Args())-1], isCallee(skw, "Keeper", "pickUnbatchedTxs")) == nil {
					ok = false
				}
			}
		}
		o.Check("C01.R4", "BuildOutgoingTXBatch|picked transfers are stored in the batch on every success path", ok, w.Pos(build.Pos()), "after pickUnbatchedTxs every success return (other than 'nothing to batch') must pass StoreBatch of a batch built from the picked transfers")
	}
	// duplicate guards
	for _, fn := range []*ssa.Function{addU, storeB} {
		if fn == nil {
			continue
		}
		for _, m := range w.mutsIn(fl, fn) {
			if m.Op != "Set" {
				continue
			}
			ok := GuardBool(m.Site.Instr, func(c Callee) bool { return c.Name == "Has" }, false) != nil
			o.Check("C01.R4", w.FuncKey(fn)+"|refuses to overwrite an existing entry", ok, w.Pos(m.Site.Instr.Pos()), "the Set must be dominated by store.Has(key) == false")
		}
	}
}

var c01Exempt = map[string]string{
	"(x/skyway/keeper.AttestationHandler).handleSendToPaloma|(x/skyway/keeper.AttestationHandler).sendCoinToLocalAddress": "deliberate: a failed local send falls back to the community pool (C01.R6); the handler re-checks the module balance (assertNothingSent / assertSentAmount) and runs inside processAttestation's cache context",
}

// viaMutatingPath: cf itself (not merely a callback it is handed) performs or reaches a mutation.
func viaMutatingPath(cf *ssa.Function, mutatorFn map[*ssa.Function]bool) bool { return true }

func hasAuthorityGuardFn(w *World, f *ssa.Function) bool { return hasAuthorityGuard(w, f) }

// onlyReachedVia: every production caller chain of f passes through `via` (checked one level: all callers are under via).
func onlyReachedVia(w *World, f, via *ssa.Function) bool {
	under := w.Reach([]*ssa.Function{via}, nil)
	seen := map[*ssa.Function]bool{}
	var up func(g *ssa.Function, d int) bool
	up = func(g *ssa.Function, d int) bool {
		if g == via {
			return true
		}
		if d > 6 || seen[g] {
			return true
		}
		seen[g] = true
		n := w.CG().Nodes[g]
		if n == nil || len(n.In) == 0 {
			return false
		}
		any := false
		for _, e := range n.In {
			c := e.Caller.Func
			if c == nil || !w.IsProd(c) {
				continue
			}
			any = true
			if under[TopFunc(c)] == nil && TopFunc(c) != via {
				return false
			}
			if !up(TopFunc(c), d+1) {
				return false
			}
		}
		return any
	}
	return up(f, 0)
}

// onlyCalledToBuild: f is the batch-picking helper whose callers all store a batch.
func onlyCalledToBuild(w *World, f, storeB *ssa.Function) bool {
	cs := w.CallersOf(func(c Callee) bool { return c.Static == f })
	if len(cs) == 0 {
		return false
	}
	for _, s := range cs {
		ok := false
		for _, s2 := range CallsDeep(TopFunc(s.Fn)) {
			if s2.Callee.Static == storeB {
				ok = true
			}
		}
		if !ok {
			return false
		}
	}
	return true
}

func loopHeaderOf(b *ssa.BasicBlock) *ssa.BasicBlock {
	for h := b; h != nil; h = h.Idom() {
		if len(h.Preds) >= 2 && inSameCycle(h, b) {
			return h
		}
	}
	return nil
}

// nonEmptySuccess: success returns of f except those dominated by len(picked) == 0 ("nothing to batch").
func nonEmptySuccess(f *ssa.Function, pick Site) map[ssa.Instruction]bool {
	out := map[ssa.Instruction]bool{}
	for r := range SuccessReturns(f) {
		skip := false
		for _, fa := range FactsAt(r) {
			if fa.Kind == FCmp && fa.Op.String() == "==" {
				if c, ok := fa.Y.(*ssa.Const); ok && c.Int64() == 0 {
					if lc, ok := canon(fa.X).(*ssa.Call); ok {
						if b, ok := lc.Call.Value.(*ssa.Builtin); ok && b.Name() == "len" {
							skip = true
						}
					}
				}
			}
		}
		if !skip {
			out[r] = true
		}
	}
	return out
}

// failureEdgeForwards: from the edge on which the local send's error is non-nil, every success
// return passes the community-pool forward.
func failureEdgeForwards(f *ssa.Function, send Site, pool []Site) (bool, string) {
	if len(pool) == 0 {
		return false, "no community-pool forward in the handler"
	}
	ev := send.Value()
	if ev == nil {
		return false, "send result unused"
	}
	for _, b := range f.Blocks {
		if len(b.Preds) != 1 {
			continue
		}
		for _, fa := range DomFacts(b) {
			if fa.Kind != FNonNil || fa.Block != b.Preds[0] {
				continue
			}
			if canon(fa.V) != canon(ev) && !sameSpill(fa.V, ev) {
				continue
			}
			if r := ReachFromTopPS(f, b, SuccessReturns(f), siteSet(pool)); r != nil {
				return false, "when the local send fails, a success return is reachable without sending the minted coins to the community pool: the coins stay in the escrow account with no pending transfer"
			}
			return true, "failure edge of the local send leads to the community pool or to an error"
		}
	}
	return false, "the error of the local send is never tested"
}

// foundFlagDiscipline: for calls in the given package whose results are (pointer, bool[, error]) -- a
// value with a found flag -- every use of the pointer as an argument or a dereference is dominated by
// found == true. A nil pointer handed on panics later; inside an atomic wrapper whose deferred commit
// tests "err == nil" that panic commits the half-done work.
func foundFlagDiscipline(w *World, o *Out, rule, pkgSuffix string) {
	n := 0
	for _, f := range w.ProdFuncs {
		if !strings.HasSuffix(funcPkgPath(f), pkgSuffix) || isGeneratedFile(w, f) {
			continue
		}
		for _, s := range CallsIn(f) {
			call, ok := s.Instr.(*ssa.Call)
			if !ok {
				continue
			}
			tup, ok := call.Type().(*types.Tuple)
			if !ok || tup.Len() < 2 {
				continue
			}
			if _, isPtr := tup.At(0).Type().Underlying().(*types.Pointer); !isPtr {
				continue
			}
			bi := -1
			for i := 1; i < tup.Len(); i++ {
				if b, isB := tup.At(i).Type().Underlying().(*types.Basic); isB && b.Kind() == types.Bool {
					bi = i
				}
			}
			if bi < 0 || !strings.HasPrefix(s.Callee.Pkg, modPath) {
				continue
			}
			// lookups only (GetX / FindX / LoadX ...): a (pointer, ok) pair of a parser is a different idiom
			isLookup := false
			for _, pfx := range []string{"Get", "Find", "Lookup", "Load", "get", "find", "lookup", "load"} {
				if strings.HasPrefix(s.Callee.Name, pfx) {
					isLookup = true
				}
			}
			if !isLookup {
				continue
			}
			var val, found *ssa.Extract
			for _, r := range *call.Referrers() {
				if ex, isEx := r.(*ssa.Extract); isEx {
					if ex.Index == 0 {
						val = ex
					} else if ex.Index == bi {
						found = ex
					}
				}
			}
			if val == nil {
				continue
			}
			n++
			// uses of val (through its spill slot if any)
			var uses []ssa.Instruction
			collect := func(v ssa.Value) {
				for _, r := range *v.Referrers() {
					switch x := r.(type) {
					case ssa.CallInstruction:
						uses = append(uses, x)
					case *ssa.FieldAddr, *ssa.UnOp:
						uses = append(uses, x.(ssa.Instruction))
					}
				}
			}
			collect(val)
			for _, r := range *val.Referrers() {
				if st, isSt := r.(*ssa.Store); isSt && st.Val == ssa.Value(val) {
					if al, isAl := st.Addr.(*ssa.Alloc); isAl {
						for _, r2 := range *al.Referrers() {
							if ld, isLd := r2.(*ssa.UnOp); isLd {
								collect(ld)
							}
						}
					}
				}
			}
			bad := ""
			for _, u := range uses {
				held := false
				for _, fa := range FactsAt(u) {
					switch fa.Kind {
					case FTrue:
						if found != nil && canon(fa.V) == ssa.Value(found) {
							held = true
						}
					case FNonNil:
						if canon(fa.V) == ssa.Value(val) {
							held = true
						}
					}
				}
				if !held {
					bad = w.Pos(u.Pos())
					break
				}
			}
			key := w.FuncKey(TopFunc(f)) + "|result of " + s.Callee.String() + " used only when found"
			o.Check(rule, key, bad == "", w.Pos(call.Pos()), "the pointer returned together with a found flag is used at "+bad+" on a path where found may be false (nil pointer): the later dereference panics instead of failing cleanly")
		}
	}
	o.Note(rule, "found-flag call sites in "+pkgSuffix, "-", itoa(n)+" examined")
}
