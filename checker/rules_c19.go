package main

// C19 — mempool (thin): the priority-class table, index co-mutation, cursor commit order, wiring.
// The behavioural core (exactly-once, nonce order, priority interleaving of Select().Next()
// over arbitrary insert/remove histories) is a data-structure property over histories and is
// NOT decided by static analysis; see DESIGN.md.

import (
	"fmt"
	"go/constant"
	"go/token"
	"go/types"
	"math"
	"os"
	"sort"
	"strings"

	"golang.org/x/tools/go/ssa"
)

func init() { register("C19", rulesC19) }

// fieldMapUpdates: MapUpdate instructions on the map held in field `name` of some struct.
func fieldMapUpdates(f *ssa.Function, name string) []*ssa.MapUpdate {
	var out []*ssa.MapUpdate
	for _, b := range f.Blocks {
		for _, in := range b.Instrs {
			if mu, ok := in.(*ssa.MapUpdate); ok {
				if n, _ := loadedField(mu.Map); n == name {
					out = append(out, mu)
				}
			}
		}
	}
	return out
}

// fieldMethodCalls: calls of method `method` on the value held in struct field `field` (or derived from a lookup in it).
func fieldMethodCalls(fl *Flow, f *ssa.Function, field, method string) []Site {
	var out []Site
	for _, s := range CallsIn(f) {
		if s.Callee.Name != method || len(s.Args()) == 0 {
			continue
		}
		recv := s.Args()[0]
		if n, _ := loadedField(recv); n == field {
			out = append(out, s)
			continue
		}
		aps, _ := fl.Influence(recv)
		for a := range aps {
			if strings.Contains(a.Path, "."+field) {
				out = append(out, s)
				break
			}
		}
	}
	return out
}

func deletesOnField(f *ssa.Function, field string) []Site {
	var out []Site
	for _, s := range CallsIn(f) {
		if b, ok := s.Common().Value.(*ssa.Builtin); ok && b.Name() == "delete" {
			if n, _ := loadedField(s.Args()[0]); n == field {
				out = append(out, s)
			}
		}
	}
	return out
}

func rulesC19(w *World, o *Out) {
	fl := NewFlow(w)
	o.Rule("C19.R1", "the default priority function ranks single-message transactions of the consensus, scheduler, evm and valset message packages in that strictly decreasing order above everything else, only when the transaction has exactly one message, and each prefix is the proto package of that module's Msg service")
	o.Rule("C19.R2", "Insert, Remove and the tie re-ordering keep the four indices in step: every success path of Insert updates priority counts, the sender index, the score map and the priority index; Remove undoes all four, addressing the priority index with the full stored key (priority and weight); re-ordering pairs each removal with a re-insertion; the iterator commits a sender's cursor only on the path that yields that transaction")
	o.Rule("C19.R3", "the application installs this mempool for both the base app and the proposal handler")

	// ---- R1 ----
	ndp := w.MustFunc(o, "app/mempool", "", "NewDefaultTxPriority")
	if ndp != nil {
		var getP *ssa.Function
		for _, an := range ndp.AnonFuncs {
			for _, s := range CallsIn(an) {
				if s.Callee.Pkg == "strings" && s.Callee.Name == "HasPrefix" {
					getP = an
				}
			}
		}
		if getP == nil {
			// the priority function written as a named function: whatever is stored into GetTxPriority
			for _, b := range ndp.Blocks {
				for _, in := range b.Instrs {
					if st, isSt := in.(*ssa.Store); isSt {
						if fa, isFA := st.Addr.(*ssa.FieldAddr); isFA && fieldName(fa.X.Type(), fa.Field) == "GetTxPriority" {
							switch v := st.Val.(type) {
							case *ssa.Function:
								getP = v
							case *ssa.MakeClosure:
								getP, _ = v.Fn.(*ssa.Function)
							}
						}
					}
				}
			}
		}
		if getP == nil {
			o.Unresolved("priority closure of NewDefaultTxPriority")
		} else {
			o.Analysed(w.FuncKey(getP))
			type class struct {
				prefix string
				val    int64
				pos    token.Pos
			}
			var classes []class
			for _, s := range CallsIn(getP) {
				if s.Callee.Pkg != "strings" || s.Callee.Name != "HasPrefix" {
					continue
				}
				c, ok := s.Args()[1].(*ssa.Const)
				if !ok || c.Value.Kind() != constant.String {
					// table-driven form: the prefix is a field of the element of a package-level table being ranged
					// over, and the true edge returns another field of that same element
					if rows, okT := prefixTableRows(s); okT {
						okOne := false
						for _, f := range FactsAt(s.Instr) {
							if f.Kind == FCmp && f.Op == token.EQL {
								if k, okK := f.Y.(*ssa.Const); okK && k.Int64() == 1 {
									if lc, okL := canon(f.Resolve(f.X)).(*ssa.Call); okL {
										if b, okB := lc.Call.Value.(*ssa.Builtin); okB && b.Name() == "len" {
											okOne = true
										}
									}
								}
							}
						}
						for _, r := range rows {
							classes = append(classes, class{r.prefix, r.val, s.Instr.Pos()})
							o.Check("C19.R1", "priority table|"+r.prefix+" only for single-message transactions", okOne, w.Pos(s.Instr.Pos()), "class priority must be dominated by len(msgs) == 1")
						}
						continue
					}
					o.Fail("C19.R1", "priority table|non-constant prefix", w.Pos(s.Instr.Pos()), "class prefixes must be constants")
					continue
				}
				// the constant returned on the true edge
				blk := s.Block()
				iff, isIf := blk.Instrs[len(blk.Instrs)-1].(*ssa.If)
				if !isIf || canon(iff.Cond) != ssa.Value(s.Value()) {
					continue
				}
				tb := blk.Succs[0]
				if r, ok := tb.Instrs[len(tb.Instrs)-1].(*ssa.Return); ok {
					if k, ok := r.Results[0].(*ssa.Const); ok {
						classes = append(classes, class{constant.StringVal(c.Value), k.Int64(), s.Instr.Pos()})
					}
				}
				// only for single-message transactions
				okOne := false
				for _, f := range FactsAt(s.Instr) {
					if f.Kind == FCmp && f.Op == token.EQL {
						if k, ok := f.Y.(*ssa.Const); ok && k.Int64() == 1 {
							if lc, ok := canon(f.X).(*ssa.Call); ok {
								if b, ok := lc.Call.Value.(*ssa.Builtin); ok && b.Name() == "len" {
									okOne = true
								}
							}
						}
					}
				}
				o.Check("C19.R1", "priority table|"+constant.StringVal(c.Value)+" only for single-message transactions", okOne, w.Pos(s.Instr.Pos()), "class priority must be dominated by len(msgs) == 1")
			}
			o.Count("C19.R1 priority classes", len(classes), 4)
			wantOrder := []string{"consensus", "scheduler", "evm", "valset"}
			byMod := map[string]class{}
			for _, c := range classes {
				parts := strings.Split(strings.Trim(c.prefix, "/."), ".")
				byMod[parts[len(parts)-1]] = c
			}
			okOrder := len(classes) == 4
			prev := int64(0)
			for i, m := range wantOrder {
				c, ok := byMod[m]
				if !ok {
					okOrder = false
					continue
				}
				if i > 0 && !(c.val < prev) {
					okOrder = false
				}
				prev = c.val
			}
			o.Check("C19.R1", "priority table|consensus > scheduler > evm > valset", okOrder, w.Pos(getP.Pos()), "class constants must be strictly decreasing in that order")
			// top class is the maximum, lowest class above any fee-based priority? (fee priorities are bounded by int64; classes are MaxInt64-k)
			for _, m := range wantOrder {
				c, ok := byMod[m]
				if !ok {
					continue
				}
				// agreement with the generated service name
				want := "/palomachain.paloma." + m + "."
				svc := false
				if p := w.ByPath[modPath+"/x/"+m+"/types"]; p != nil {
					if sp := w.Prog.Package(p.Types); sp != nil {
						if init := sp.Func("init"); init != nil {
							for _, b := range init.Blocks {
								for _, in := range b.Instrs {
									if st, ok := in.(*ssa.Store); ok {
										if k, ok := st.Val.(*ssa.Const); ok && k.Value != nil && k.Value.Kind() == constant.String &&
											constant.StringVal(k.Value) == "palomachain.paloma."+m+".Msg" {
											svc = true
										}
									}
								}
							}
						}
					}
				}
				o.Check("C19.R1", "priority table|prefix of "+m+" is that module's Msg proto package", c.prefix == want && svc, w.Pos(c.pos), "prefix "+c.prefix+" must equal "+want+" and the generated service must be named palomachain.paloma."+m+".Msg")
			}
			// fallback is the context priority
			okFb := false
			for _, r := range Returns(getP) {
				if _, isC := r.Ret.Results[0].(*ssa.Const); !isC {
					if fl.DependsOnCall(r.Ret.Results[0], isCallee("", "", "Priority")) != nil {
						okFb = true
					}
				}
			}
			o.Check("C19.R1", "priority table|other transactions keep their CheckTx priority", okFb, w.Pos(getP.Pos()), "the default must be ctx.Priority()")
		}
	}

	// the class constants sit at the very top of the int64 range, one apart: only an exact comparator tells them apart
	if ndp != nil {
		var cmpFn *ssa.Function
		for _, b := range ndp.Blocks {
			for _, in := range b.Instrs {
				if st, isSt := in.(*ssa.Store); isSt {
					if fa, isFA := st.Addr.(*ssa.FieldAddr); isFA && fieldName(fa.X.Type(), fa.Field) == "Compare" {
						switch v := st.Val.(type) {
						case *ssa.Function:
							cmpFn = v
						case *ssa.MakeClosure:
							cmpFn, _ = v.Fn.(*ssa.Function)
						}
					}
				}
			}
		}
		if cmpFn == nil {
			o.Unresolved("Compare function of NewDefaultTxPriority")
		} else {
			o.Analysed(w.FuncKey(cmpFn))
			exact := true
			why := ""
			nCalls := 0
			for _, f := range unitFuncs(cmpFn) {
				for _, b := range f.Blocks {
					for _, in := range b.Instrs {
						switch x := in.(type) {
						case *ssa.Convert:
							if bt, isB := x.Type().Underlying().(*types.Basic); isB && bt.Info()&types.IsFloat != 0 {
								exact, why = false, "converts a priority to floating point"
							}
						case *ssa.Call:
							cal, okc := CalleeOf(x.Common())
							if !okc {
								continue
							}
							nCalls++
							if cal.Pkg == "github.com/huandu/skiplist" && cal.Name == "Compare" {
								want := constant.MakeUnknown()
								if sp := w.TypesPkg("github.com/huandu/skiplist"); sp != nil {
									if c, isC := sp.Scope().Lookup("Int64").(*types.Const); isC {
										want = c.Val()
									}
								}
								k, isK := x.Call.Args[0].(*ssa.Const)
								if !isK || k.Value == nil || want.Kind() == constant.Unknown || !constant.Compare(k.Value, token.EQL, want) {
									exact, why = false, "uses a skiplist comparator other than skiplist.Int64 (the generic integer kinds compare through float64)"
								}
							} else if cal.Pkg != "cmp" {
								exact, why = false, "calls "+cal.String()
							}
						}
					}
				}
			}
			o.Check("C19.R1", "priority comparator|exact on int64", exact, w.Pos(cmpFn.Pos()), "MaxInt64, MaxInt64-1, MaxInt64-2 and MaxInt64-3 all round to 2^63 as float64; a comparator that is not exact on int64 makes the four classes compare equal. "+why)
		}
	}
	// the index comparator orders by (priority, weight, sender, nonce), every component in the same direction:
	// each component comparison takes its first operand from the first key and its second from the second key
	if sc := w.MustFunc(o, "app/mempool", "", "skiplistComparable"); sc != nil {
		n := 0
		for _, g := range sc.AnonFuncs {
			if len(g.Params) != 2 {
				continue
			}
			o.Analysed(w.FuncKey(g))
			var cmps []*ssa.Call
			for _, blk := range g.Blocks {
				for _, in := range blk.Instrs {
					call, isCall := in.(*ssa.Call)
					if !isCall || len(call.Call.Args) < 2 {
						continue
					}
					isCmp := false
					if cal, okc := CalleeOf(call.Common()); okc && cal.Name == "Compare" {
						isCmp = true
					}
					if nm, _ := loadedField(call.Call.Value); nm == "Compare" {
						isCmp = true // the configured priority comparator (a function-valued field)
					}
					if isCmp {
						cmps = append(cmps, call)
					}
				}
			}
			for _, call := range cmps {
				c := struct{ Instr *ssa.Call }{call}
				args := call.Call.Args
				a, b := args[len(args)-2], args[len(args)-1]
				side := func(v ssa.Value) int {
					x, _ := fl.Influence(v)
					r := 0
					for ap := range x {
						if ap.Root == ssa.Value(g.Params[0]) {
							r |= 1
						}
						if ap.Root == ssa.Value(g.Params[1]) {
							r |= 2
						}
					}
					return r
				}
				n++
				nm, _ := loadedField(a)
				o.Check("C19.R2", "skiplistComparable|component "+nm+" compares the first key with the second", side(a) == 1 && side(b) == 2, w.Pos(c.Instr.Pos()), "a component compared in the opposite direction sorts ties the other way round; the iterator assumes a sender's own index entry follows the entries it defers to, and never selects the transaction otherwise")
			}
		}
		o.Count("C19.R2 component comparisons in the index comparator", n, 4)
	}
	// what ordinary transactions get as their CheckTx priority stays below the four reserved classes: the fee
	// checker wired into the ante handler returns a constant
	if fs := w.MustFunc(o, "x/paloma", "", "TxFeeSkipper"); fs != nil {
		o.Analysed(w.FuncKey(fs))
		for _, r := range Returns(fs) {
			if len(r.Ret.Results) < 2 {
				continue
			}
			k, isK := r.Ret.Results[1].(*ssa.Const)
			ok := isK && k.Value != nil && k.Int64() < math.MaxInt64-3 && k.Int64() >= 0
			o.Check("C19.R1", "TxFeeSkipper|ordinary transactions get a constant priority below the reserved classes", ok, w.Pos(r.Ret.Pos()), "the CheckTx priority is the mempool's fallback; derived from the (never charged) declared fee it can reach MaxInt64 and outrank scheduler, evm and valset transactions")
		}
	}
	// ---- R2 ----
	ins := w.MustFunc(o, "app/mempool", "PriorityNonceMempool", "Insert")
	rem := w.MustFunc(o, "app/mempool", "PriorityNonceMempool", "Remove")
	reo := w.MustFunc(o, "app/mempool", "PriorityNonceMempool", "reorderPriorityTies")
	if ins != nil {
		o.Analysed(w.FuncKey(ins))
		// "real" success returns: those after the early exits (capacity / MaxTx<0)
		type step struct {
			name  string
			sites map[ssa.Instruction]bool
		}
		mk := func(ms []*ssa.MapUpdate) map[ssa.Instruction]bool {
			m := map[ssa.Instruction]bool{}
			for _, x := range ms {
				m[x] = true
			}
			return m
		}
		steps := []step{
			{"priority index Set", siteSet(fieldMethodCalls(fl, ins, "priorityIndex", "Set"))},
			{"sender index Set", siteSet(FindCalls(ins, false, func(c Callee) bool { return c.Name == "Set" && c.Recv == "SkipList" }))},
			{"score map update", mk(fieldMapUpdates(ins, "scores"))},
			{"priority count update", mk(fieldMapUpdates(ins, "priorityCounts"))},
		}
		// anchor: the priority-index Set; every success return that passes it must pass all others, and vice versa:
		// any success return passing ANY of the steps passes ALL of them.
		for _, a := range steps {
			for _, b := range steps {
				if a.name == b.name || len(a.sites) == 0 {
					continue
				}
				ok := len(b.sites) > 0
				for in := range a.sites {
					// from `in` to success return avoiding b, and entry to `in` avoiding b
					if ReachAvoiding(ins, in, SuccessReturns(ins), b.sites) != nil && ReachAvoiding(ins, nil, map[ssa.Instruction]bool{in: true}, b.sites) != nil {
						ok = false
					}
				}
				o.Check("C19.R2", "Insert|"+a.name+" implies "+b.name, ok, w.Pos(ins.Pos()), "a successful Insert that performs one index update must perform the other")
			}
		}
		for _, st := range steps {
			o.Check("C19.R2", "Insert|has "+st.name, len(st.sites) > 0, w.Pos(ins.Pos()), "index update missing")
		}
	}
	// the account a transaction is filed under is its first signer in Insert and in Remove alike: any other
	// identity (the fee payer) lets transactions of different signers with equal sequence numbers share a key
	for _, fn := range []*ssa.Function{ins, rem} {
		if fn == nil {
			continue
		}
		sts := storesToField(fn, "txMeta", "sender")
		fname := strings.SplitN(fn.Name(), "[", 2)[0]
		o.Count("C19.R2 "+fname+" index keys built", len(sts), 1)
		for i, st := range sts {
			_, calls := fl.Influence(st.Val)
			var odd []string
			hasAddr := false
			for c := range calls {
				cal, ok := CalleeOf(c.Common())
				if !ok {
					continue
				}
				switch cal.Name {
				case "Address":
					hasAddr = true
				case "GetSignaturesV2", "String", "AccAddress", "Bytes":
				default:
					odd = append(odd, cal.String())
				}
			}
			sort.Strings(odd)
			o.Check("C19.R2", fname+"|a transaction is filed under its first signer"+ordSuffix(i), hasAddr && len(odd) == 0, w.Pos(st.Pos()),
				"the sender of the index key must be the address of the first signature's public key and nothing else; also computed from: "+strings.Join(odd, ", "))
		}
	}
	if rem != nil {
		o.Analysed(w.FuncKey(rem))
		pr := fieldMethodCalls(fl, rem, "priorityIndex", "Remove")
		sr := FindCalls(rem, false, func(c Callee) bool { return c.Name == "Remove" && c.Recv == "SkipList" })
		ds := deletesOnField(rem, "scores")
		pc := fieldMapUpdates(rem, "priorityCounts")
		o.Check("C19.R2", "Remove|undoes all four indices", len(pr) >= 1 && len(sr) >= 2 && len(ds) >= 1 && len(pc) >= 1, w.Pos(rem.Pos()),
			"Remove must update the priority index, the sender index, the score map and the priority counts")
		all := map[ssa.Instruction]bool{}
		for _, s := range sr {
			all[s.Instr] = true
		}
		for _, s := range ds {
			all[s.Instr] = true
		}
		for _, m := range pc {
			all[m] = true
		}
		// every success return passes each of them
		okAll := true
		for in := range all {
			if ReachAvoiding(rem, nil, SuccessReturns(rem), map[ssa.Instruction]bool{in: true}) != nil {
				okAll = false
			}
		}
		o.Check("C19.R2", "Remove|every successful removal updates every index", okAll, w.Pos(rem.Pos()), "a success return must pass all index updates")
		// the key used on the priority index carries priority AND weight from the stored score
		for _, s := range pr {
			key := s.Args()[1]
			if mi, ok := key.(*ssa.MakeInterface); ok {
				key = mi.X
			}
			got := map[string]bool{}
			if u, ok := key.(*ssa.UnOp); ok {
				if al, ok := u.X.(*ssa.Alloc); ok {
					for _, r := range *al.Referrers() {
						if fa, ok := r.(*ssa.FieldAddr); ok {
							for _, r2 := range *fa.Referrers() {
								if st, ok := r2.(*ssa.Store); ok && st.Addr == ssa.Value(fa) {
									n := fieldName(fa.X.Type(), fa.Field)
									// value must come from the score lookup for priority / weight
									if n == "priority" || n == "weight" {
										if sn, base := loadedField(st.Val); sn == n && base != nil {
											got[n] = true
										} else if ff, ok := st.Val.(*ssa.Field); ok && fieldName(ff.X.Type(), ff.Field) == n {
											got[n] = true
										}
									} else {
										got[n] = true
									}
								}
							}
						}
						if st, ok := r.(*ssa.Store); ok && st.Addr == ssa.Value(al) {
							// copied from another key value: follow once
							if u2, ok := st.Val.(*ssa.UnOp); ok {
								if al2, ok := u2.X.(*ssa.Alloc); ok {
									for _, r3 := range *al2.Referrers() {
										if fa, ok := r3.(*ssa.FieldAddr); ok {
											for _, r4 := range *fa.Referrers() {
												if st4, ok := r4.(*ssa.Store); ok && st4.Addr == ssa.Value(fa) && st4.Block().Dominates(st.Block()) {
													got["copied:"+fieldName(fa.X.Type(), fa.Field)] = true
												}
											}
										}
									}
								}
							}
						}
					}
				}
			}
			var miss []string
			for _, n := range []string{"nonce", "priority", "sender", "weight"} {
				if !got[n] && !((n == "nonce" || n == "sender") && got["copied:"+n]) {
					miss = append(miss, n)
				}
			}
			sort.Strings(miss)
			o.Check("C19.R2", "Remove|priority index addressed with the full stored key", len(miss) == 0, w.Pos(s.Instr.Pos()),
				"the key removed from the priority index must carry nonce, sender and the stored priority and weight; missing: "+strings.Join(miss, ",")+" (a key without the weight misses entries re-ordered by Select, leaving a ghost transaction)")
		}
	}
	if reo != nil {
		o.Analysed(w.FuncKey(reo))
		pr := fieldMethodCalls(fl, reo, "priorityIndex", "Remove")
		ps := fieldMethodCalls(fl, reo, "priorityIndex", "Set")
		ds := deletesOnField(reo, "scores")
		su := fieldMapUpdates(reo, "scores")
		ok := len(pr) == 1 && len(ps) == 1 && len(ds) == 1 && len(su) == 1
		if ok {
			ok = pr[0].Block() == ps[0].Block() && ds[0].Block() == su[0].Block() && pr[0].Block() == ds[0].Block()
		}
		o.Check("C19.R2", "reorderPriorityTies|each removal paired with a re-insertion in the same step", ok, w.Pos(reo.Pos()), "Remove/Set on the priority index and delete/assign on the score map must happen together for each re-ordered key")
	}
	nxt := w.MustFunc(o, "app/mempool", "PriorityNonceIterator", "Next")
	if nxt != nil {
		o.Analysed(w.FuncKey(nxt))
		commits := map[ssa.Instruction]bool{}
		for _, mu := range fieldMapUpdates(nxt, "senderCursors") {
			commits[mu] = true
		}
		for _, s := range CallsIn(nxt) {
			if s.Callee.Static != nil && w.IsProd(s.Callee.Static) && s.Callee.Static != nxt {
				if len(fieldMapUpdates(s.Callee.Static, "senderCursors")) > 0 {
					commits[s.Instr] = true
				}
			}
		}
		defer_ := siteSet(FindCalls(nxt, false, func(c Callee) bool { return c.Name == "iteratePriority" }))
		o.Check("C19.R2", "Next|cursor commit exists", len(commits) >= 1 && len(defer_) >= 1, w.Pos(nxt.Pos()), "the iterator must record the sender cursor when it yields a transaction")
		bad := false
		for c := range commits {
			if ReachAvoiding(nxt, c, defer_, nil) != nil {
				bad = true
			}
		}
		o.Check("C19.R2", "Next|a sender's cursor is committed only when its transaction is yielded", !bad, w.Pos(nxt.Pos()),
			"after storing the cursor the iterator must not fall back to iteratePriority: a deferred sender would resume after the skipped transaction, which is then never yielded")
	}

	// ---- R3 ----
	nApp := 0
	for _, f := range w.ProdFuncs {
		if !strings.HasSuffix(funcPkgPath(f), "/app") {
			continue
		}
		for _, s := range CallsIn(f) {
			if s.Callee.Name == "SetMempool" {
				nApp++
				arg := s.Args()[len(s.Args())-1]
				ok := fl.DependsOnCall(arg, func(c Callee) bool { return c.Pkg == modPath+"/app/mempool" }) != nil
				o.Check("C19.R3", "app|base app uses the Paloma priority-nonce mempool", ok, w.Pos(s.Instr.Pos()), "SetMempool must receive the mempool built by app/mempool")
			}
			if s.Callee.Name == "NewDefaultProposalHandler" {
				arg := s.Args()[0]
				ok := fl.DependsOnCall(arg, func(c Callee) bool { return c.Pkg == modPath+"/app/mempool" }) != nil
				o.Check("C19.R3", "app|proposal handler selects from the same mempool", ok, w.Pos(s.Instr.Pos()), "the proposal handler must be built over the app/mempool instance")
			}
		}
	}
	o.Count("C19.R3 SetMempool sites", nApp, 1)
	// the pool is unbounded and never silently drops: Insert treats MaxTx < 0 as "accept and discard", so
	// the capacity must not be fed from configuration (the stock app.toml default for mempool.max-txs is -1)
	nCfg := 0
	for _, f := range w.ProdFuncs {
		p := funcPkgPath(f)
		if !strings.HasSuffix(p, "/app") && !strings.Contains(p, "/cmd/") {
			continue
		}
		for _, st := range storesToField(f, "PriorityNonceMempoolConfig", "MaxTx") {
			nCfg++
			c, isC := canon(st.Val).(*ssa.Const)
			ok := isC && c.Value != nil && c.Int64() >= 0
			o.Check("C19.R3", w.FuncKey(TopFunc(f))+"|mempool capacity is a non-negative constant", ok, w.Pos(st.Pos()),
				"with MaxTx < 0 Insert returns nil without storing the transaction: it is reported as admitted, CountTx stays 0 and Select never yields it; a capacity read from node configuration can be negative")
		}
	}
	o.Note("C19.R3", "app|explicit MaxTx assignments", "-", "assignments found: "+itoa(nCfg)+" (none = default config, unbounded)")

	// ---- iterator bound ----
	if ip := w.MustFunc(o, "app/mempool", "PriorityNonceIterator", "iteratePriority"); ip != nil {
		o.Analysed(w.FuncKey(ip))
		sts := storesToField(ip, "PriorityNonceIterator", "nextPriority")
		o.Count("C19.R2 assignments of the iterator's priority bound", len(sts), 2)
		for i, st := range sts {
			nm, _ := loadedField(st.Val)
			if nm == "MinValue" {
				okNil := false
				for _, fa := range FactsAt(st) {
					if fa.Kind == FNil {
						if c, okc := canon(fa.V).(*ssa.Call); okc {
							if cal, ok2 := CalleeOf(c.Common()); ok2 && cal.Name == "Next" {
								okNil = true
							}
						}
					}
				}
				o.Check("C19.R2", "iteratePriority|the bound falls back to MinValue only when no entry follows"+ordSuffix(i), okNil, w.Pos(st.Pos()),
					"the priority bound of the sender being iterated must be the priority of the next index entry whenever one exists")
				continue
			}
			only := true
			for _, fa := range FactsAt(st) {
				if fa.Kind != FNil && fa.Kind != FNonNil {
					only = false
				}
			}
			o.Check("C19.R2", "iteratePriority|the bound is the next entry's priority whoever owns it"+ordSuffix(i), nm == "priority" && only, w.Pos(st.Pos()),
				"a sender's lower-priority next transaction must wait for any higher-priority entry that follows in the index, including an entry of the same sender (otherwise a sender with queued high-class transactions overtakes other senders with its low-class one)")
		}
	}
	_ = types.Typ
}

type prefixRow struct {
	prefix string
	val    int64
}

// prefixTableRows: for strings.HasPrefix(x, e.P) with e the element of a package-level slice literal being
// ranged over and `return e.V, ...` on the call's true edge: the (P, V) constants of every row of the literal.
func prefixTableRows(s Site) (rows0 []prefixRow, ok0 bool) {
	if os.Getenv("PCDUMP") == "c19table" {
		defer func() { fmt.Fprintf(os.Stderr, "C19TABLE %v %v arg=%T %v\n", ok0, rows0, s.Args()[1], s.Args()[1]) }()
	}
	fld := func(v ssa.Value) (*ssa.FieldAddr, bool) {
		u, ok := v.(*ssa.UnOp)
		if !ok {
			return nil, false
		}
		fa, ok := u.X.(*ssa.FieldAddr)
		return fa, ok
	}
	pfa, ok := fld(s.Args()[1])
	if !ok {
		return nil, false
	}
	// element: a local copy of tbl[i] (or tbl[i] itself)
	var elemAddr *ssa.IndexAddr
	switch x := pfa.X.(type) {
	case *ssa.Alloc:
		for _, r := range *x.Referrers() {
			if st, isSt := r.(*ssa.Store); isSt && st.Addr == ssa.Value(x) {
				if u, isU := st.Val.(*ssa.UnOp); isU {
					elemAddr, _ = u.X.(*ssa.IndexAddr)
				}
			}
		}
	case *ssa.IndexAddr:
		elemAddr = x
	}
	if elemAddr == nil {
		return nil, false
	}
	tl, isL := elemAddr.X.(*ssa.UnOp)
	if !isL {
		return nil, false
	}
	g, isG := tl.X.(*ssa.Global)
	if !isG {
		return nil, false
	}
	// the value field returned on the true edge
	blk := s.Block()
	iff, isIf := blk.Instrs[len(blk.Instrs)-1].(*ssa.If)
	if !isIf || canon(iff.Cond) != ssa.Value(s.Value()) {
		return nil, false
	}
	tb := blk.Succs[0]
	ret, isR := tb.Instrs[len(tb.Instrs)-1].(*ssa.Return)
	if !isR || len(ret.Results) == 0 {
		return nil, false
	}
	vfa, ok := fld(ret.Results[0])
	if !ok || vfa.X != pfa.X {
		return nil, false
	}
	// rows of the literal in the package initialiser
	init := g.Pkg.Func("init")
	if init == nil {
		return nil, false
	}
	var arr ssa.Value
	stores := 0
	for _, b := range init.Blocks {
		for _, in := range b.Instrs {
			if st, isSt := in.(*ssa.Store); isSt && st.Addr == ssa.Value(g) {
				stores++
				if sl, isSl := st.Val.(*ssa.Slice); isSl {
					arr = sl.X
				}
			}
		}
	}
	if arr == nil || stores != 1 {
		return nil, false
	}
	// the table must not be written anywhere else
	for _, mem := range g.Pkg.Members {
		mf, isF := mem.(*ssa.Function)
		if !isF || mf == init {
			continue
		}
		for _, f := range WithAnon(mf) {
			for _, b := range f.Blocks {
				for _, in := range b.Instrs {
					if st, isSt := in.(*ssa.Store); isSt && baseOf(st.Addr) == ssa.Value(g) {
						return nil, false
					}
				}
			}
		}
	}
	var rows []prefixRow
	for _, r := range *arr.Referrers() {
		ia, isIA := r.(*ssa.IndexAddr)
		if !isIA {
			continue
		}
		row := prefixRow{}
		gotP, gotV := false, false
		takeField := func(fa *ssa.FieldAddr) {
			for _, r4 := range *fa.Referrers() {
				if fs, isFS := r4.(*ssa.Store); isFS {
					if k, isK := fs.Val.(*ssa.Const); isK && k.Value != nil {
						if fa.Field == pfa.Field && k.Value.Kind() == constant.String {
							row.prefix, gotP = constant.StringVal(k.Value), true
						}
						if fa.Field == vfa.Field && k.Value.Kind() == constant.Int {
							row.val, gotV = k.Int64(), true
						}
					}
				}
			}
		}
		for _, r2 := range *ia.Referrers() {
			if fa, isFA := r2.(*ssa.FieldAddr); isFA {
				takeField(fa) // the row written in place
				continue
			}
			st, isSt := r2.(*ssa.Store)
			if !isSt {
				continue
			}
			u, isU := st.Val.(*ssa.UnOp)
			if !isU {
				continue
			}
			lit, isA := u.X.(*ssa.Alloc)
			if !isA {
				continue
			}
			for _, r3 := range *lit.Referrers() {
				if fa, isFA := r3.(*ssa.FieldAddr); isFA {
					takeField(fa)
				}
			}
		}
		if !gotP || !gotV {
			if os.Getenv("PCDUMP") == "c19table" {
				fmt.Fprintf(os.Stderr, "C19ROW %v %v %v refs=%d\n", ia, gotP, gotV, len(*ia.Referrers()))
				for _, r2 := range *ia.Referrers() {
					fmt.Fprintf(os.Stderr, "  ref %T %v\n", r2, r2)
				}
			}
			return nil, false
		}
		rows = append(rows, row)
	}
	sort.Slice(rows, func(i, j int) bool { return rows[i].prefix < rows[j].prefix })
	return rows, len(rows) > 0
}
