package main

// C02 — oracle safety: >66 % power, one vote per validator, applied once, in order.

import (
	"fmt"
	"go/token"
	"go/types"
	"math/big"
	"strings"

	"golang.org/x/tools/go/ssa"
)

func init() { register("C02", rulesC02) }

const skw = "x/skyway/keeper"

func isMathArith(v ssa.Value) bool {
	if c, ok := v.(*ssa.Call); ok {
		if cal, ok := CalleeOf(c.Common()); ok && cal.Pkg == "cosmossdk.io/math" {
			switch cal.Name {
			case "NewInt", "NewIntFromUint64", "Mul", "MulRaw", "Quo", "QuoRaw", "ZeroInt", "OneInt",
				"LegacyNewDec", "LegacyNewDecFromInt", "MulInt", "MulInt64", "QuoInt", "QuoInt64", "NewIntFromBigInt":
				return true
			}
		}
	}
	return false
}

// leafByCalls builds a Normer leaf classifier: a value is symbol S when its backward
// slice contains a call matched by S's predicate and none matched by the other symbols'.
func leafByCalls(fl *Flow, syms map[string]func(Callee) bool) func(ssa.Value) string {
	return func(v ssa.Value) string {
		switch x := v.(type) {
		case *ssa.Const:
			return ""
		case *ssa.UnOp:
			if _, ok := x.X.(*ssa.Global); ok {
				return ""
			}
		case *ssa.BinOp:
			if x.Op == token.MUL || x.Op == token.QUO {
				return ""
			}
		}
		if isMathArith(v) {
			return ""
		}
		_, calls := fl.Influence(v)
		var hit []string
		for name, pred := range syms {
			for c := range calls {
				if cal, ok := CalleeOf(c.Common()); ok && pred(cal) {
					hit = append(hit, name)
					break
				}
			}
		}
		if len(hit) == 1 {
			return hit[0]
		}
		if len(hit) > 1 {
			return "mixed(" + strings.Join(hit, "+") + ")"
		}
		return ""
	}
}

func rulesC02(w *World, o *Out) {
	fl := NewFlow(w)
	o.Rule("C02.R1", "TryAttestation: the cursor update, Observed=true and processAttestation are dominated by !att.Observed, by power > 66/100·total (strict, threshold var written only by its initialiser, power from GetLastValidatorPower of att.Votes, total from GetLastTotalPower) and by claim nonce == lastObserved+1; the cursor update precedes the effect on every path")
	o.Rule("C02.R2", "Attest: appending a vote is dominated by the per-validator contiguity test and every success path after it stores the validator's nonce; a membership comparison over the existing votes executes before the append (or the tally de-duplicates)")
	o.Rule("C02.R3", "writers of the observed-nonce cursor either refuse to go backwards (guarded by a comparison with the stored cursor) or are reachable only from governance / genesis / wiring-time listeners; per-validator cursor writers likewise or guarded by stored < new")
	o.Rule("C02.R4", "attestationTally: TryAttestation only under nonce == lastObserved+1 with the cursor re-read inside the innermost loop; iteration over the sorted key slice of GetAttestationMapping")

	try := w.MustFunc(o, skw, "Keeper", "TryAttestation")
	attest := w.MustFunc(o, skw, "Keeper", "Attest")
	if try == nil || attest == nil {
		return
	}
	o.Analysed(w.FuncKey(try))
	o.Analysed(w.FuncKey(attest))

	// ---- R1 -------------------------------------------------------------------
	type eff struct {
		name string
		in   ssa.Instruction
	}
	var effects []eff
	setLast := FindCalls(try, false, isCallee(skw, "Keeper", "setLastObservedSkywayNonce"))
	proc := FindCalls(try, false, isCallee(skw, "Keeper", "processAttestation"))
	for _, s := range setLast {
		effects = append(effects, eff{"call setLastObservedSkywayNonce", s.Instr})
	}
	for _, s := range proc {
		effects = append(effects, eff{"call processAttestation", s.Instr})
	}
	for _, st := range storesToField(try, "Attestation", "Observed") {
		effects = append(effects, eff{"store Attestation.Observed", st})
	}
	o.Count("C02.R1 effect sites in TryAttestation", len(effects), 3)
	nm := &Normer{w: w, Leaf: leafByCalls(fl, map[string]func(Callee) bool{
		"power": isCallee("", "", "GetLastValidatorPower"),
		"total": isCallee("", "", "GetLastTotalPower"),
	})}
	want := big.NewRat(66, 100)
	for _, e := range effects {
		pos := w.Pos(e.in.Pos())
		facts := FactsAt(e.in)
		// (a) not yet observed
		okA := false
		for _, f := range facts {
			if f.Kind == FFalse {
				if n, base := loadedField(f.V); n == "Observed" && base != nil {
					okA = true
				}
			}
		}
		o.Check("C02.R1", "TryAttestation|"+e.name+"|guard !Observed", okA, pos, "effect must be dominated by the false edge of att.Observed")
		// (b) quorum
		okB, detail := false, "no dominating power comparison found"
		_ = detail
		for _, f := range facts {
			if f.Kind != FTrue && f.Kind != FFalse {
				continue
			}
			rel := nm.RelOf(f.V)
			if !rel.OK {
				continue
			}
			op, ratio, ok := rel.Canon("power", "total")
			if ok && !rel.FloorExact() {
				detail = "a truncating division makes the comparison differ from the exact ratio"
				continue
			}
			if !ok {
				detail = "comparison not between summed voter power and total power: " + rel.L.String() + " vs " + rel.R.String()
				continue
			}
			if f.Kind == FFalse {
				op = negOp(op)
			}
			if op == token.GTR && ratio.Cmp(want) == 0 {
				okB = true
				detail = "dominated by power > 66/100·total (" + rel.L.String() + " " + rel.Op.String() + " " + rel.R.String() + ")"
				break
			} else {
				detail = "normal form is power " + op.String() + " " + ratio.RatString() + "·total, want power > 66/100·total"
			}
		}
		o.Check("C02.R1", "TryAttestation|"+e.name+"|guard power > 66/100 total", okB, pos, detail)
		// (c) consecutive nonce
		okC := false
		for _, f := range facts {
			if f.Kind != FCmp || f.Op != token.EQL {
				continue
			}
			for _, pair := range [][2]ssa.Value{{f.X, f.Y}, {f.Y, f.X}} {
				a, b := pair[0], pair[1]
				if fl.DependsOnCall(a, isCallee("", "", "GetSkywayNonce")) == nil {
					continue
				}
				bo, ok := canon(b).(*ssa.BinOp)
				if !ok || bo.Op != token.ADD {
					continue
				}
				var other ssa.Value
				if c, ok := bo.Y.(*ssa.Const); ok && c.Int64() == 1 {
					other = bo.X
				} else if c, ok := bo.X.(*ssa.Const); ok && c.Int64() == 1 {
					other = bo.Y
				}
				if other != nil && fl.DependsOnCall(other, isCallee(skw, "Keeper", "GetLastObservedSkywayNonce")) != nil {
					okC = true
				}
			}
		}
		o.Check("C02.R1", "TryAttestation|"+e.name+"|guard nonce == lastObserved+1", okC, pos, "effect must be dominated by claim.GetSkywayNonce() == GetLastObservedSkywayNonce()+1")
	}
	// (d) order: cursor first, checked, then effect
	for _, p := range proc {
		ok := PrecededBy(try, p.Instr, siteSet(setLast)) && GuardErrNil(p.Instr, isCallee(skw, "Keeper", "setLastObservedSkywayNonce")) != nil
		o.Check("C02.R1", "TryAttestation|processAttestation preceded by checked setLastObservedSkywayNonce", ok, w.Pos(p.Instr.Pos()),
			"every path to processAttestation must pass a setLastObservedSkywayNonce call whose error was checked")
	}
	// (e) summed powers come from att.Votes
	gp := FindCalls(try, false, isCallee("", "", "GetLastValidatorPower"))
	o.Count("C02.R1 GetLastValidatorPower sites", len(gp), 1)
	for _, s := range gp {
		args := s.Args()
		aps, _ := fl.Influence(args[len(args)-1])
		ok := false
		for _, p := range aps.ParamPaths("att") {
			if strings.HasPrefix(p, ".Votes") {
				ok = true
			}
		}
		o.Check("C02.R1", "TryAttestation|GetLastValidatorPower argument from att.Votes", ok, w.Pos(s.Instr.Pos()), "voter whose power is summed must be an element of att.Votes; influence="+strings.Join(aps.Strings(), ","))
	}

	// ---- R2 -------------------------------------------------------------------
	var voteStores []*ssa.Store
	for _, st := range storesToField(attest, "Attestation", "Votes") {
		// only growth of the list (append), not the empty initialisation of a new attestation
		if c, ok := canon(st.Val).(*ssa.Call); ok {
			if b, ok := c.Call.Value.(*ssa.Builtin); ok && b.Name() == "append" {
				voteStores = append(voteStores, st)
			}
		}
	}
	o.Count("C02.R2 vote append sites in Attest", len(voteStores), 1)
	setByVal := FindCalls(attest, false, isCallee(skw, "Keeper", "SetLastSkywayNonceByValidator"))
	for _, st := range voteStores {
		pos := w.Pos(st.Pos())
		okG := false
		for _, f := range FactsAt(st) {
			if f.Kind != FCmp || f.Op != token.EQL {
				continue
			}
			for _, pair := range [][2]ssa.Value{{f.X, f.Y}, {f.Y, f.X}} {
				if fl.DependsOnCall(pair[0], isCallee("", "", "GetSkywayNonce")) != nil &&
					fl.DependsOnCall(pair[1], isCallee(skw, "Keeper", "GetLastSkywayNonceByValidator")) != nil {
					if bo, ok := canon(pair[1]).(*ssa.BinOp); ok && bo.Op == token.ADD {
						okG = true
					}
				}
			}
		}
		// informational since the membership test (below) exists: contiguity is then not needed for "counted at most once"
		o.Note("C02.R2", "Attest|append vote|guard nonce == validatorLast+1", pos, fmt.Sprintf("vote append dominated by claim nonce == GetLastSkywayNonceByValidator()+1: %v", okG))
		bad := ReachAvoiding(attest, st, SuccessReturns(attest), siteSet(setByVal))
		o.Note("C02.R2", "Attest|append vote|success path stores validator nonce", pos,
			fmt.Sprintf("every success return after the append passes SetLastSkywayNonceByValidator: %v", bad == nil && len(setByVal) > 0))
		for _, s := range setByVal {
			args := s.Args()
			ok := fl.DependsOnCall(args[len(args)-1], isCallee("", "", "GetSkywayNonce")) != nil
			o.Note("C02.R2", "Attest|SetLastSkywayNonceByValidator stores the claim nonce", w.Pos(s.Instr.Pos()), fmt.Sprintf("stored value is claim.GetSkywayNonce(): %v", ok))
		}
		// (b) membership comparison before the append
		okM, how := membershipBefore(w, fl, attest, st)
		if !okM {
			okM, how = tallyDedupes(fl, try)
		}
		o.Check("C02.R2", "Attest|append vote|voter de-duplicated", okM, pos,
			"a validator whose per-validator cursor was lowered (overrideNonce) can vote twice on the same attestation: no membership test over att.Votes precedes the append and the tally does not de-duplicate. "+how)
	}

	// ---- R3 -------------------------------------------------------------------
	cr := w.ClassReach()
	muts := w.StoreMuts(fl)
	nObs, nVal := 0, 0
	for _, m := range muts {
		isObs := m.Has("global:LastObservedEventNonceKey")
		isVal := m.Has("global:LastEventNonceByValidatorKey") || m.Has("call:x/skyway/types.GetLastEventNonceByValidatorKey")
		if !isObs && !isVal {
			continue
		}
		if m.Op != "Set" && m.Op != "Delete" && m.Op != "Save" {
			continue
		}
		top := TopFunc(m.Site.Fn)
		o.Analysed(w.FuncKey(top))
		which := "observed-nonce cursor"
		if isVal && !isObs {
			which = "per-validator cursor"
			nVal++
		} else {
			nObs++
		}
		pos := w.Pos(m.Site.Instr.Pos())
		if !isObs {
			// With votes de-duplicated per attestation (R2), rewinding a validator's own cursor cannot
			// make its power count twice; these writers are reported for information only.
			args := m.Site.Args()
			o.Note("C02.R3", w.FuncKey(top)+"|writes per-validator cursor", pos, fmt.Sprintf("monotone-guarded: %v; entry classes: %s",
				monotoneWrite(fl, m.Site.Instr, args[len(args)-1], false), strings.Join(cr.ClassesReaching(top), ",")))
			continue
		}
		// shape (i): monotone guard — a comparison new >= stored (or >) holds on the way to the write
		args := m.Site.Args()
		mono := monotoneWrite(fl, m.Site.Instr, args[len(args)-1], isObs)
		// shape (ii): per-validator vote bookkeeping in Attest (guarded by contiguity, see R2)
		classes := cr.ClassesReaching(top)
		if top == attest || callerIs(w, top, attest) {
			o.Pass("C02.R3", w.FuncKey(top)+"|writes "+which+"|vote bookkeeping", pos, "written by the vote path (contiguity-guarded, R2)")
			continue
		}
		if mono {
			o.Pass("C02.R3", w.FuncKey(top)+"|writes "+which+"|monotone", pos, "write dominated by an ordering comparison against the stored cursor")
			continue
		}
		bad := []string{}
		for _, c := range classes {
			if c == "msg" || c == "abci" || c == "ante" || c == "wasm" || c == "hook" || c == "query" {
				// allowed only if every msg path is a governance-authority handler; handled by C03.R4; here: msg reachable only through authority-guarded handlers
				if c == "msg" && onlyAuthorityHandlers(w, cr, top) {
					continue
				}
				if c == "abci" && onlyViaEventbus(w, cr, top) {
					continue
				}
				bad = append(bad, c)
			}
		}
		o.Check("C02.R3", w.FuncKey(top)+"|writes "+which+"|unguarded writer only from governance/genesis/listener", len(bad) == 0, pos,
			"a cursor writer without a monotonicity guard is reachable from entry classes "+strings.Join(bad, ",")+" (all classes: "+strings.Join(classes, ",")+")")
	}
	// the periodic catch-up may only raise a validator's cursor: a validator ahead of the observed cursor (it has a
	// vote pending) that is set back could vote again, for a different claim, at a nonce it already voted on --
	// vote de-duplication is per attestation, not per nonce
	if cu := w.MustFunc(o, skw, "Keeper", "UpdateValidatorNoncesToLatest"); cu != nil {
		o.Analysed(w.FuncKey(cu))
		nSel := 0
		for _, it := range FindCalls(cu, false, isCallee(skw, "Keeper", "IterateValidatorLastEventNonces")) {
			args := it.Args()
			mc, isMC := args[len(args)-1].(*ssa.MakeClosure)
			if !isMC {
				continue
			}
			cb, _ := mc.Fn.(*ssa.Function)
			if cb == nil || len(cb.Params) < 2 {
				continue
			}
			nonceP := cb.Params[len(cb.Params)-1]
			for _, b := range cb.Blocks {
				for _, in := range b.Instrs {
					sel := false
					switch x := in.(type) {
					case ssa.CallInstruction:
						if cal, okc := CalleeOf(x.Common()); okc && cal.Name == "Set" {
							sel = true
						}
						if bi, isB := x.Common().Value.(*ssa.Builtin); isB && bi.Name() == "append" {
							sel = true
						}
					case *ssa.MapUpdate:
						sel = true
					}
					if !sel {
						continue
					}
					nSel++
					raises := false
					for _, f := range FactsAt(in) {
						if f.Kind != FCmp {
							continue
						}
						x, y := canon(f.X), canon(f.Y)
						if (f.Op == token.GTR && y == ssa.Value(nonceP) && x != ssa.Value(nonceP)) || (f.Op == token.LSS && x == ssa.Value(nonceP) && y != ssa.Value(nonceP)) {
							raises = true
						}
					}
					o.Check("C02.R3", "UpdateValidatorNoncesToLatest|a validator's cursor is only ever raised", raises, w.Pos(in.Pos()), "the catch-up must select a validator only under lastObserved > its nonce; one that is ahead (has voted on a pending event) keeps its cursor, otherwise it can vote a second, different claim at the same nonce")
				}
			}
		}
		o.Count("C02.R3 catch-up selections", nSel, 1)
	}
	o.Count("C02.R3 observed-cursor write sites", nObs, 2)
	o.Count("C02.R3 per-validator-cursor write sites (informational)", nVal, 0)

	// ---- R4 -------------------------------------------------------------------
	tally := w.MustFunc(o, "x/skyway", "", "attestationTally")
	if tally != nil {
		o.Analysed(w.FuncKey(tally))
		ts := FindCalls(tally, true, isCallee(skw, "Keeper", "TryAttestation"))
		o.Count("C02.R4 TryAttestation sites in tally", len(ts), 1)
		for _, s := range ts {
			ok := false
			var reread *ssa.Call
			for _, f := range FactsAt(s.Instr) {
				if f.Kind != FCmp || f.Op != token.EQL {
					continue
				}
				for _, pair := range [][2]ssa.Value{{f.X, f.Y}, {f.Y, f.X}} {
					bo, isAdd := canon(pair[1]).(*ssa.BinOp)
					if !isAdd || bo.Op != token.ADD {
						continue
					}
					if c := fl.DependsOnCall(pair[1], isCallee(skw, "Keeper", "GetLastObservedSkywayNonce")); c != nil {
						ok = true
						reread = c
					}
				}
			}
			o.Check("C02.R4", "attestationTally|TryAttestation|guard nonce == lastObserved+1", ok, w.Pos(s.Instr.Pos()), "tally must only try attestations at lastObserved+1")
			if reread != nil {
				// the cursor read must sit in the same innermost loop as the TryAttestation call:
				// its block must be re-executed on every iteration, i.e. lie on a cycle with the call's block.
				o.Check("C02.R4", "attestationTally|cursor re-read each iteration", inSameCycle(reread.Block(), s.Instr.Block()), w.Pos(reread.Pos()),
					"GetLastObservedSkywayNonce must be re-read inside the loop that calls TryAttestation")
			}
		}
		// keys come from GetAttestationMapping result #1 and that function sorts them
		gm := w.MustFunc(o, skw, "Keeper", "GetAttestationMapping")
		if gm != nil {
			sorts := FindCalls(gm, false, func(c Callee) bool { return (c.Pkg == "sort" || c.Pkg == "slices") && strings.HasPrefix(c.Name, "S") })
			o.Check("C02.R4", "GetAttestationMapping|ordered keys are sorted", len(sorts) > 0, w.Pos(gm.Pos()), "the key slice built from the map must be sorted (see also C08.R2)")
			cmp := FindCalls(gm, true, isCallee("", "", "GetCompassID"))
			okC := false
			for _, c := range cmp {
				if fl.DependsOnCall(c.Value(), isCallee("", "", "GetCompassID")) != nil {
					okC = true
				}
			}
			lc := FindCalls(gm, true, isCallee(skw, "Keeper", "GetLatestCompassID"))
			o.Check("C02.R4", "GetAttestationMapping|filters claims of other bridge deployments", okC && len(lc) > 0, w.Pos(gm.Pos()), "claims whose compass id differs from GetLatestCompassID must be skipped")
		}
	}
}

// monotoneWrite: some dominating or refusing comparison relates the value being written
// ("new") to the stored cursor ("stored": a read of the cursor through its getter, or the
// value handed to an iterator callback) with orientation new >= stored / new > stored.
func monotoneWrite(fl *Flow, site ssa.Instruction, newVal ssa.Value, observed bool) bool {
	newAPs, newCalls := fl.Influence(newVal)
	overlapsNew := func(v ssa.Value) bool {
		aps, _ := fl.Influence(v)
		for a := range aps {
			switch a.Root.(type) {
			case *ssa.Parameter, *ssa.FreeVar:
				if newAPs[a] {
					return true
				}
			}
		}
		// same call instance feeding both
		_, calls := fl.Influence(v)
		for c := range calls {
			if newCalls[c] {
				if cal, ok := CalleeOf(c.Common()); ok && strings.HasPrefix(cal.Name, "Get") {
					return true
				}
			}
		}
		return false
	}
	isStored := func(v ssa.Value) bool {
		if isClosureParam(v) {
			return true
		}
		if observed {
			return fl.DependsOnCall(v, isCallee(skw, "Keeper", "GetLastObservedSkywayNonce")) != nil
		}
		return fl.DependsOnCall(v, isCallee(skw, "Keeper", "GetLastSkywayNonceByValidator")) != nil
	}
	facts := append(FactsAt(site), RefusingFacts(site)...)
	for _, f := range facts {
		if f.Kind != FCmp {
			continue
		}
		op := f.Op
		x, y := f.X, f.Y
		// orient as new OP stored
		if overlapsNew(y) && isStored(x) && !(overlapsNew(x) && isStored(y)) {
			x, y = y, x
			op = map[token.Token]token.Token{token.GTR: token.LSS, token.GEQ: token.LEQ, token.LSS: token.GTR, token.LEQ: token.GEQ, token.EQL: token.EQL, token.NEQ: token.NEQ}[op]
		}
		if !overlapsNew(x) || !isStored(y) {
			continue
		}
		if op == token.GEQ || op == token.GTR {
			return true
		}
	}
	return false
}

func isClosureParam(v ssa.Value) bool {
	p, ok := canon(v).(*ssa.Parameter)
	return ok && p.Parent() != nil && p.Parent().Parent() != nil
}

func callerIs(w *World, f, caller *ssa.Function) bool {
	for _, s := range CallsDeep(caller) {
		if s.Callee.Static == f {
			return true
		}
	}
	return false
}

// inSameCycle: a and b lie on a common CFG cycle (b reachable from a and a from b).
func inSameCycle(a, b *ssa.BasicBlock) bool {
	reach := func(from, to *ssa.BasicBlock) bool {
		seen := map[*ssa.BasicBlock]bool{}
		work := append([]*ssa.BasicBlock{}, from.Succs...)
		for len(work) > 0 {
			x := work[len(work)-1]
			work = work[:len(work)-1]
			if x == to {
				return true
			}
			if seen[x] {
				continue
			}
			seen[x] = true
			work = append(work, x.Succs...)
		}
		return false
	}
	if a == b {
		return reach(a, a)
	}
	return reach(a, b) && reach(b, a)
}

// membershipBefore: some comparison between an element of the Votes field and another
// value (string ==, slices.Contains/Index, a helper taking the votes) executes on every
// path before the append.
func membershipBefore(w *World, fl *Flow, f *ssa.Function, app ssa.Instruction) (bool, string) {
	cands := map[ssa.Instruction]bool{}
	for _, b := range f.Blocks {
		for _, in := range b.Instrs {
			switch x := in.(type) {
			case *ssa.BinOp:
				if x.Op != token.EQL && x.Op != token.NEQ {
					continue
				}
				for _, side := range []ssa.Value{x.X, x.Y} {
					aps, _ := fl.Influence(side)
					for a := range aps {
						if strings.Contains(a.Path, ".Votes[]") {
							cands[in] = true
						}
					}
				}
			case *ssa.Call:
				cal, ok := CalleeOf(x.Common())
				if !ok {
					continue
				}
				if (cal.Pkg == "slices" && (cal.Name == "Contains" || strings.HasPrefix(cal.Name, "Index"))) || cal.Name == "Contains" {
					for _, a := range x.Common().Args {
						aps, _ := fl.Influence(a)
						for ap := range aps {
							if strings.HasSuffix(ap.Path, ".Votes") || strings.Contains(ap.Path, ".Votes[") {
								cands[in] = true
							}
						}
					}
				}
			}
		}
	}
	if len(cands) == 0 {
		return false, "no comparison over .Votes found in " + w.FuncKey(f)
	}
	if ReachAvoiding(f, nil, map[ssa.Instruction]bool{app: true}, cands) != nil {
		return false, "a path reaches the append without the membership comparison"
	}
	// a boolean membership call (slices.Contains) must be *false* on every edge into the append,
	// not merely evaluated before it (`!Contains(..) || other` lets the other disjunct through)
	var calls []*ssa.Call
	for in := range cands {
		if c, ok := in.(*ssa.Call); ok && isBoolType(c.Type()) {
			calls = append(calls, c)
		}
	}
	if len(calls) > 0 {
		isNeg := func(fa Fact) bool {
			if fa.Kind != FFalse {
				return false
			}
			for _, c := range calls {
				if canon(fa.V) == ssa.Value(c) {
					return true
				}
			}
			return false
		}
		if !factOnEveryEdge(app, isNeg) {
			return false, "the membership test does not govern the append on every path (another disjunct admits a repeated voter)"
		}
	}
	// the identity asked about is the identity appended: a test for some other spelling of the voter
	// (the orchestrator account instead of the operator address) never matches a stored vote
	if st, ok := app.(*ssa.Store); ok {
		if ac, ok := canon(st.Val).(*ssa.Call); ok && len(ac.Call.Args) == 2 {
			leaves := map[ssa.Value]bool{}
			for _, l := range coinLeaves(ac.Call.Args[1]) {
				leaves[canon(l)] = true
			}
			for in := range cands {
				var needles []ssa.Value
				switch x := in.(type) {
				case *ssa.Call:
					if len(x.Call.Args) == 2 {
						needles = append(needles, x.Call.Args[1])
					}
				case *ssa.BinOp:
					for _, side := range []ssa.Value{x.X, x.Y} {
						aps, _ := fl.Influence(side)
						isVotes := false
						for a := range aps {
							if strings.Contains(a.Path, ".Votes[]") {
								isVotes = true
							}
						}
						if !isVotes {
							needles = append(needles, side)
						}
					}
				}
				for _, n := range needles {
					if !leaves[canon(n)] {
						return false, "the membership test over the votes asks about a value other than the voter that is appended"
					}
				}
			}
		}
	}
	return true, "membership comparison precedes the append"
}

// tallyDedupes: the summation loop of TryAttestation skips repeated voters (seen-set).
func tallyDedupes(fl *Flow, try *ssa.Function) (bool, string) {
	adds := FindCalls(try, false, func(c Callee) bool { return c.Pkg == "cosmossdk.io/math" && c.Name == "Add" })
	for _, a := range adds {
		for _, f := range FactsAt(a.Instr) {
			if f.Kind == FFalse || f.Kind == FTrue {
				if ex, ok := canon(f.V).(*ssa.Extract); ok {
					if _, ok := ex.Tuple.(*ssa.Lookup); ok {
						return true, "summation guarded by a seen-set lookup"
					}
				}
				if c, ok := canon(f.V).(*ssa.Call); ok {
					if cal, ok := CalleeOf(c.Common()); ok && cal.Name == "Contains" {
						return true, "summation guarded by Contains"
					}
				}
			}
		}
	}
	return false, "TryAttestation sums every element of att.Votes"
}

// onlyAuthorityHandlers: every Msg handler that reaches f compares a request field with the keeper authority
// (structural test shared with C03.R4).
func onlyAuthorityHandlers(w *World, cr *ClassReach, f *ssa.Function) bool {
	any := false
	for _, e := range w.EntriesOf("msg") {
		rs := w.Reach([]*ssa.Function{e.Fn}, nil)
		if rs[f] == nil {
			continue
		}
		any = true
		if !hasAuthorityGuard(w, e.Fn) {
			return false
		}
	}
	return any
}

// hasAuthorityGuard: the handler returns an error unless a request string equals the keeper's authority.
// authorityGuardByFacts: every success return of h is dominated by `x == keeper authority`, directly or
// through a guard helper (boolean or error-returning) whose accepting paths establish it.
func authorityGuardByFacts(h *ssa.Function) bool {
	rets := SuccessReturns(h)
	if len(rets) == 0 {
		return false
	}
	for r := range rets {
		held := false
		for _, fa := range FactsAt(r) {
			if fa.Kind == FCmp && fa.Op == token.EQL && (isAuthorityValue(fa.X) || isAuthorityValue(fa.Y)) {
				held = true
			}
		}
		if !held {
			return false
		}
	}
	return true
}

func hasAuthorityGuard(w *World, h *ssa.Function) bool {
	if authorityGuardByFacts(h) {
		return true
	}
	for _, b := range h.Blocks {
		if len(b.Instrs) == 0 {
			continue
		}
		iff, ok := b.Instrs[len(b.Instrs)-1].(*ssa.If)
		if !ok {
			continue
		}
		bo, ok := canon(iff.Cond).(*ssa.BinOp)
		if !ok || (bo.Op != token.NEQ && bo.Op != token.EQL) {
			continue
		}
		for _, side := range []ssa.Value{bo.X, bo.Y} {
			if isAuthorityValue(side) {
				return true
			}
		}
	}
	return false
}

func isAuthorityValue(v ssa.Value) bool {
	v = canon(v)
	if n, _ := loadedField(v); n == "authority" {
		return true
	}
	if c, ok := v.(*ssa.Call); ok {
		if cal, ok := CalleeOf(c.Common()); ok && cal.Name == "GetAuthority" && !strings.HasPrefix(cal.Recv, "Msg") {
			return true
		}
	}
	return false
}

// onlyViaEventbus: every ABCI path to f passes through an eventbus Publish (a listener registered at wiring time).
func onlyViaEventbus(w *World, cr *ClassReach, f *ssa.Function) bool {
	rs := w.Reach(entryFns(w.EntriesOf("abci")), func(g *ssa.Function) bool {
		return strings.HasSuffix(funcPkgPath(g), "/util/eventbus")
	})
	return rs[f] == nil
}

func isBoolType(t types.Type) bool {
	b, ok := t.Underlying().(*types.Basic)
	return ok && b.Kind() == types.Bool
}

// factOnEveryEdge: a fact satisfying pred dominates `in`, or holds on every incoming edge of its block.
func factOnEveryEdge(in ssa.Instruction, pred func(Fact) bool) bool {
	for _, fa := range FactsAt(in) {
		if pred(fa) || helperEveryPath(fa, pred) {
			return true
		}
	}
	pp := FactsPerPred(in.Block())
	if len(pp) < 2 {
		return false
	}
	for _, fs := range pp {
		ok := false
		for _, fa := range fs {
			if pred(fa) || helperEveryPath(fa, pred) {
				ok = true
			}
		}
		if !ok {
			return false
		}
	}
	return true
}
