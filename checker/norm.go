package main

// norm.go — normal form of threshold formulas: a comparison between two monomials
// c·∏symbols built from sdkmath.Int / LegacyDec / native integer arithmetic.

import (
	"go/constant"
	"go/token"
	"go/types"
	"math/big"
	"sort"
	"strings"

	"golang.org/x/tools/go/ssa"
)

type Mono struct {
	Coef    *big.Rat
	Syms    []string
	OK      bool
	Why     string
	Floored bool // an integer division was applied to a symbolic operand (result truncated)
	Scaled  bool // ... and the truncated value was multiplied / divided again afterwards: k·floor(x) is never floor(k·x)
}

func monoConst(r *big.Rat) Mono { return Mono{Coef: r, OK: true} }

func (m Mono) mul(o Mono) Mono {
	if !m.OK || !o.OK {
		return Mono{Why: m.Why + o.Why}
	}
	s := append(append([]string{}, m.Syms...), o.Syms...)
	sort.Strings(s)
	scaled := m.Scaled || o.Scaled || (m.Floored && !isOne(o)) || (o.Floored && !isOne(m))
	return Mono{Coef: new(big.Rat).Mul(m.Coef, o.Coef), Syms: s, OK: true, Floored: m.Floored || o.Floored, Scaled: scaled}
}

func isOne(m Mono) bool { return m.OK && len(m.Syms) == 0 && m.Coef.Cmp(big.NewRat(1, 1)) == 0 }

func (m Mono) div(o Mono) Mono {
	if !m.OK || !o.OK || len(o.Syms) > 0 || o.Coef.Sign() == 0 {
		return Mono{Why: "division by a non-constant"}
	}
	return Mono{Coef: new(big.Rat).Quo(m.Coef, o.Coef), Syms: m.Syms, OK: true, Floored: m.Floored, Scaled: m.Scaled || (m.Floored && !isOne(o))}
}

// floorDiv: integer division (truncating) — exact only when the dividend is a constant.
func (m Mono) floorDiv(o Mono) Mono {
	r := m.div(o)
	if r.OK && len(m.Syms) > 0 {
		r.Floored = true
	}
	return r
}

func (m Mono) String() string {
	if !m.OK {
		return "?(" + m.Why + ")"
	}
	return m.Coef.RatString() + "·" + strings.Join(m.Syms, "·")
}

type Normer struct {
	w    *World
	Leaf func(v ssa.Value) string // "" = not a recognised leaf
}

func constRat(c *ssa.Const) (*big.Rat, bool) {
	if c.Value == nil {
		return nil, false
	}
	switch c.Value.Kind() {
	case constant.Int:
		if i, ok := constant.Int64Val(c.Value); ok {
			return new(big.Rat).SetInt64(i), true
		}
		if u, ok := constant.Uint64Val(c.Value); ok {
			return new(big.Rat).SetUint64(u), true
		}
	case constant.Float:
		f, _ := constant.Float64Val(c.Value)
		r := new(big.Rat)
		if r.SetFloat64(f) != nil {
			return r, true
		}
	}
	return nil, false
}

// globalInit returns the single value stored to a package-level variable by its
// package initialiser, and whether any production function other than init writes it.
func (w *World) globalInit(g *ssa.Global) (ssa.Value, int) {
	var val ssa.Value
	writers := 0
	if init := g.Pkg.Func("init"); init != nil {
		for _, b := range init.Blocks {
			for _, in := range b.Instrs {
				if st, ok := in.(*ssa.Store); ok && st.Addr == g {
					val = st.Val
				}
			}
		}
	}
	for _, f := range w.ProdFuncs {
		for _, b := range f.Blocks {
			for _, in := range b.Instrs {
				switch x := in.(type) {
				case *ssa.Store:
					if x.Addr == g {
						writers++
					}
				}
			}
		}
	}
	return val, writers
}

func (n *Normer) Eval(v ssa.Value) Mono {
	return n.eval(v, nil, 0)
}

// nenv binds the parameters of an inlined helper to the argument values of its call; parent is the
// environment of the calling context (helpers calling helpers).
type nenv struct {
	m      map[*ssa.Parameter]ssa.Value
	parent *nenv
}

// inlineableHelper: a small module function with one result and exactly one return statement, whose
// body the normaliser may read in place of the call (an arithmetic or comparison helper).
func inlineableHelper(c *ssa.CallCommon) (*ssa.Function, *ssa.Return) {
	h := c.StaticCallee()
	if h == nil || h.Blocks == nil || h.Parent() != nil || !strings.HasPrefix(funcPkgPath(h), modPath) {
		return nil, nil
	}
	if h.Signature.Results().Len() != 1 || len(h.Params) != len(c.Args) {
		return nil, nil
	}
	var ret *ssa.Return
	n := 0
	for _, b := range h.Blocks {
		n += len(b.Instrs)
		for _, in := range b.Instrs {
			if r, ok := in.(*ssa.Return); ok {
				if ret != nil {
					return nil, nil
				}
				ret = r
			}
		}
	}
	if ret == nil || n > 60 {
		return nil, nil
	}
	return h, ret
}

func bindEnv(h *ssa.Function, args []ssa.Value, parent *nenv) *nenv {
	e := &nenv{m: map[*ssa.Parameter]ssa.Value{}, parent: parent}
	for i, p := range h.Params {
		e.m[p] = args[i]
	}
	return e
}

func (n *Normer) eval(v ssa.Value, env *nenv, d int) Mono {
	if d > 14 {
		return Mono{Why: "too deep"}
	}
	v = canon(v)
	if p, ok := v.(*ssa.Parameter); ok && env != nil {
		if a, ok := env.m[p]; ok {
			return n.eval(a, env.parent, d+1)
		}
	}
	if n.Leaf != nil {
		if s := n.Leaf(v); s != "" {
			return Mono{Coef: big.NewRat(1, 1), Syms: []string{s}, OK: true}
		}
	}
	switch x := v.(type) {
	case *ssa.Const:
		if r, ok := constRat(x); ok {
			return monoConst(r)
		}
	case *ssa.BinOp:
		switch x.Op {
		case token.MUL:
			return n.eval(x.X, env, d+1).mul(n.eval(x.Y, env, d+1))
		case token.QUO:
			if bt, ok := x.Type().Underlying().(*types.Basic); ok && bt.Info()&types.IsInteger != 0 {
				return n.eval(x.X, env, d+1).floorDiv(n.eval(x.Y, env, d+1))
			}
			return n.eval(x.X, env, d+1).div(n.eval(x.Y, env, d+1))
		}
	case *ssa.UnOp:
		if x.Op == token.MUL {
			if g, ok := x.X.(*ssa.Global); ok {
				iv, writers := n.w.globalInit(g)
				if iv != nil && writers == 0 {
					return n.eval(iv, nil, d+1)
				}
				return Mono{Why: "global " + g.Name() + " has other writers or no initialiser"}
			}
		}
	case *ssa.Call:
		cal, ok := CalleeOf(x.Common())
		if !ok {
			break
		}
		args := x.Common().Args
		if cal.Pkg == "cosmossdk.io/math" {
			switch cal.Name {
			case "NewInt", "NewIntFromUint64", "NewUint", "LegacyNewDec", "LegacyNewDecFromInt", "NewIntFromBigInt", "LegacyNewDecFromBigInt":
				if len(args) == 1 {
					return n.eval(args[0], env, d+1)
				}
			case "ZeroInt", "LegacyZeroDec":
				return monoConst(big.NewRat(0, 1))
			case "OneInt", "LegacyOneDec":
				return monoConst(big.NewRat(1, 1))
			case "Mul", "MulRaw", "MulInt", "MulInt64":
				if len(args) == 2 {
					return n.eval(args[0], env, d+1).mul(n.eval(args[1], env, d+1))
				}
			case "Quo", "QuoRaw", "QuoInt", "QuoInt64":
				if len(args) == 2 {
					if cal.Recv == "Int" || cal.Recv == "Uint" {
						return n.eval(args[0], env, d+1).floorDiv(n.eval(args[1], env, d+1))
					}
					return n.eval(args[0], env, d+1).div(n.eval(args[1], env, d+1))
				}
			}
		}
		// an arithmetic helper of the module: read its single return expression with the parameters bound
		if h, ret := inlineableHelper(x.Common()); h != nil {
			return n.eval(ret.Results[0], bindEnv(h, args, env), d+1)
		}
	}
	return Mono{Why: "unrecognised term " + valDesc(v)}
}

// Rel is "L Op R".
type Rel struct {
	L, R Mono
	Op   token.Token // GTR GEQ LSS LEQ
	OK   bool
}

var cmpMethods = map[string]token.Token{"GT": token.GTR, "GTE": token.GEQ, "LT": token.LSS, "LTE": token.LEQ}

// RelOf reads a boolean value as a comparison (method call GT/GTE/LT/LTE or native operator).
func (n *Normer) RelOf(cond ssa.Value) Rel {
	return n.relOf(cond, nil, 0)
}

func (n *Normer) relOf(cond ssa.Value, env *nenv, d int) Rel {
	if d > 6 {
		return Rel{}
	}
	cond = canon(cond)
	if p, ok := cond.(*ssa.Parameter); ok && env != nil {
		if a, ok := env.m[p]; ok {
			return n.relOf(a, env.parent, d+1)
		}
	}
	switch x := cond.(type) {
	case *ssa.Call:
		cal, ok := CalleeOf(x.Common())
		if ok && cal.Pkg == "cosmossdk.io/math" {
			if op, ok := cmpMethods[cal.Name]; ok && len(x.Common().Args) == 2 {
				l, r := n.eval(x.Common().Args[0], env, 0), n.eval(x.Common().Args[1], env, 0)
				return Rel{L: l, R: r, Op: op, OK: l.OK && r.OK}
			}
		}
		// a comparison extracted into a helper of the module
		if h, ret := inlineableHelper(x.Common()); h != nil {
			return n.relOf(ret.Results[0], bindEnv(h, x.Common().Args, env), d+1)
		}
	case *ssa.BinOp:
		switch x.Op {
		case token.GTR, token.GEQ, token.LSS, token.LEQ:
			l, r := n.eval(x.X, env, 0), n.eval(x.Y, env, 0)
			return Rel{L: l, R: r, Op: x.Op, OK: l.OK && r.OK}
		}
	}
	return Rel{}
}

// Canon orients the relation so that symbol `left` is on the left side and returns
// the operator and the ratio R.coef/L.coef, i.e.  left  op  ratio·right.
// FloorExact reports whether truncating divisions inside the relation leave it equivalent to the
// exact rational comparison (for integer operands): L > floor(R), L <= floor(R), floor(L) < R, floor(L) >= R are exact.
func (r Rel) FloorExact() bool {
	if r.L.Scaled || r.R.Scaled {
		return false
	}
	if r.R.Floored && (r.Op == token.LSS || r.Op == token.GEQ) {
		return false
	}
	if r.L.Floored && (r.Op == token.GTR || r.Op == token.LEQ) {
		return false
	}
	return true
}

func (r Rel) Canon(left, right string) (token.Token, *big.Rat, bool) {
	if !r.OK {
		return token.ILLEGAL, nil, false
	}
	l, rr, op := r.L, r.R, r.Op
	if len(l.Syms) == 1 && l.Syms[0] == right && len(rr.Syms) == 1 && rr.Syms[0] == left {
		l, rr = rr, l
		op = map[token.Token]token.Token{token.GTR: token.LSS, token.GEQ: token.LEQ, token.LSS: token.GTR, token.LEQ: token.GEQ}[op]
	}
	if len(l.Syms) != 1 || l.Syms[0] != left || len(rr.Syms) != 1 || rr.Syms[0] != right {
		return token.ILLEGAL, nil, false
	}
	if l.Coef.Sign() <= 0 || rr.Coef.Sign() <= 0 {
		return token.ILLEGAL, nil, false
	}
	return op, new(big.Rat).Quo(rr.Coef, l.Coef), true
}
