package main

// C06 — every stored signature is valid for the message as it currently stands.

import (
	"go/token"
	"sort"
	"strings"

	"golang.org/x/tools/go/ssa"
)

func init() { register("C06", rulesC06) }

const cqp = "x/consensus/keeper/consensus"

func rulesC06(w *World, o *Out) {
	fl := NewFlow(w)
	o.Rule("C06.R1", "a signature is stored only after the queue's verification function accepted it over the bytes-to-sign of the message just loaded, and after the duplicate-key / duplicate-validator scan; a batch confirmation is stored only after the external-signature check and when none exists for that validator")
	o.Rule("C06.R2", "the public key recorded with a signature comes from the validator's registered chain account (GetSigningKey of the acting validator) and the recorded validator is the acting validator")
	o.Rule("C06.R3", "every production function that changes something covered by the signing bytes of an existing queued message (Msg, GasEstimate) clears the collected signatures, or runs only after the estimate election cleared them; every rewrite of a stored batch deletes its confirmations on all success paths; functions that change a signed field without clearing must be unreachable")

	as := w.MustFunc(o, cqp, "Queue", "AddSignature")
	if as != nil {
		o.Analysed(w.FuncKey(as))
		adds := FindCalls(as, false, func(c Callee) bool { return c.Name == "AddSignData" })
		saves := FindCalls(as, false, isCallee(cqp, "Queue", "save"))
		o.Count("C06.R1 AddSignData sites", len(adds), 1)
		// the verification call: dynamic call of the queue option VerifySignature
		isVerify := func(v ssa.Value) *ssa.Call {
			c, ok := canon(v).(*ssa.Call)
			if !ok {
				return nil
			}
			if n, _ := loadedField(c.Call.Value); n == "VerifySignature" {
				return c
			}
			return nil
		}
		for _, site := range append(adds, saves...) {
			var vc *ssa.Call
			for _, f := range FactsAt(site.Instr) {
				if f.Kind == FTrue {
					if c := isVerify(f.V); c != nil {
						vc = c
					}
				}
			}
			ok := vc != nil
			d := "must be dominated by VerifySignature(...) == true"
			if ok {
				// bytes verified are GetBytesToSign of the loaded message; signature and key from the submitted sign data
				a0 := vc.Call.Args[0]
				gb := fl.DependsOnCall(a0, isCallee("", "", "GetBytesToSign"))
				gm := fl.DependsOnCall(a0, isCallee(cqp, "Queue", "GetMsgByID"))
				sig, _ := fl.Influence(vc.Call.Args[1])
				key, _ := fl.Influence(vc.Call.Args[2])
				okSig, okKey := false, false
				for a := range sig {
					if strings.HasSuffix(a.Path, ".Signature") {
						okSig = true
					}
				}
				for a := range key {
					if strings.HasSuffix(a.Path, ".PublicKey") {
						okKey = true
					}
				}
				ok = gb != nil && gm != nil && okSig && okKey
				d = "verification must be over GetBytesToSign of the message loaded by GetMsgByID, with the submitted signature and public key"
			}
			o.Check("C06.R1", "AddSignature|"+site.Callee.Name+" only after a successful verification", ok, w.Pos(site.Instr.Pos()), d)
		}
		// duplicate scan precedes the store
		var cmps []ssa.Instruction
		for _, s := range CallsIn(as) {
			if (s.Callee.Pkg == "bytes" && s.Callee.Name == "Equal") || s.Callee.Name == "Equals" {
				aps := APSet{}
				for _, a := range s.Args() {
					x, _ := fl.Influence(a)
					aps.add(x, "")
				}
				el, nw := false, false
				for a := range aps {
					if strings.Contains(a.Path, ".SignData[]") || fl.DependsOnCall(s.Args()[0], isCallee("", "", "GetSignData")) != nil || fl.DependsOnCall(s.Args()[len(s.Args())-1], isCallee("", "", "GetSignData")) != nil {
						el = true
					}
					if p, ok := a.Root.(*ssa.Parameter); ok && p.Name() == "signData" {
						nw = true
					}
				}
				if el && nw {
					// true edge must not reach the store
					blk := s.Block()
					if iff, ok := blk.Instrs[len(blk.Instrs)-1].(*ssa.If); ok && canon(iff.Cond) == ssa.Value(s.Value()) {
						reach := false
						for _, a := range adds {
							if ReachFromTop(as, blk.Succs[0], map[ssa.Instruction]bool{a.Instr: true}, nil) != nil {
								reach = true
							}
						}
						if !reach {
							cmps = append(cmps, s.Instr)
						}
					}
				}
			}
		}
		// each refusing comparison is applied to *every* existing entry: no path through one iteration of
		// the scan reaches the next iteration without evaluating it (`if other validator { continue }` in
		// front of the key comparison lets a second validator reuse the key)
		everyElem, skipWhy := true, ""
		for _, c := range cmps {
			h := loopHeaderOf(c.Block())
			if h == nil {
				everyElem, skipWhy = false, "a refusing comparison is not inside the scan loop"
				continue
			}
			latches := map[ssa.Instruction]bool{}
			for _, p := range h.Preds {
				if h.Dominates(p) && len(p.Instrs) > 0 {
					latches[p.Instrs[len(p.Instrs)-1]] = true
				}
			}
			if bad := ReachAvoiding(as, nil, latches, map[ssa.Instruction]bool{c: true}); bad != nil {
				everyElem, skipWhy = false, "an iteration of the scan can move on to the next entry without the comparison at "+w.Pos(c.Pos())
			}
		}
		o.Check("C06.R1", "AddSignature|duplicate key and duplicate validator are refused", len(cmps) >= 2 && everyElem, w.Pos(as.Pos()),
			"a scan over the existing SignData comparing PublicKey and ValAddress with the new entry must refuse duplicates (found "+itoa(len(cmps))+" refusing comparisons) "+skipWhy)
		for _, a := range adds {
			hdrOK := false
			for _, c := range cmps {
				if h := loopHeaderOf(c.Block()); h != nil && h.Dominates(a.Block()) {
					hdrOK = true
				}
			}
			o.Check("C06.R1", "AddSignature|duplicate scan precedes the store", hdrOK, w.Pos(a.Instr.Pos()), "the loop scanning existing signatures must dominate AddSignData")
		}
	}
	// every other production caller of AddSignData must be the verified path
	for _, s := range w.CallersOf(func(c Callee) bool { return c.Name == "AddSignData" }) {
		if TopFunc(s.Fn) == as || isGeneratedFile(w, s.Fn) {
			continue
		}
		ok := false
		for _, f := range FactsAt(s.Instr) {
			if f.Kind == FTrue {
				if c, isC := canon(f.V).(*ssa.Call); isC {
					if n, _ := loadedField(c.Call.Value); n == "VerifySignature" {
						ok = true
					}
				}
			}
		}
		o.Check("C06.R1", w.FuncKey(TopFunc(s.Fn))+"|adds a signature without verifying it", ok, w.Pos(s.Instr.Pos()),
			"signatures may only be attached to a queued message right after VerifySignature accepted them over the message's current bytes; re-attaching earlier signatures keeps them across later changes of the signed content")
	}
	// direct writers of the SignData field other than the adder and the clearing election
	for _, f := range w.ProdFuncs {
		if f.Parent() != nil || isGeneratedFile(w, f) {
			continue
		}
		for _, st := range storesToField(f, "QueuedSignedMessage", "SignData") {
			if _, isAlloc := baseOf(st.Addr).(*ssa.Alloc); isAlloc {
				continue
			}
			if isNilConst(st.Val) {
				continue // clearing
			}
			if f.Name() == "AddSignData" {
				continue
			}
			o.Fail("C06.R1", w.FuncKey(f)+"|assigns SignData directly", w.Pos(st.Pos()), "the signature list of an existing message may only grow through AddSignData (after verification) or be cleared")
		}
	}
	// ConfirmBatch
	cb := w.MustFunc(o, skw, "msgServer", "ConfirmBatch")
	if cb != nil {
		o.Analysed(w.FuncKey(cb))
		sets := FindCalls(cb, false, isCallee(skw, "Keeper", "SetBatchConfirm"))
		o.Count("C06.R1 SetBatchConfirm sites in ConfirmBatch", len(sets), 1)
		for _, s := range sets {
			ok1 := GuardErrNil(s.Instr, isCallee(skw, "msgServer", "confirmHandlerCommon")) != nil
			ok2 := false
			for _, f := range FactsAt(s.Instr) {
				if f.Kind == FNil && !isErrorType(f.V.Type()) {
					for _, c := range callsBehind(f.V) {
						if cal, ok := CalleeOf(c.Common()); ok && cal.Name == "GetBatchConfirm" {
							ok2 = true
						}
					}
				}
			}
			o.Check("C06.R1", "ConfirmBatch|stored only after the signature check", ok1, w.Pos(s.Instr.Pos()), "SetBatchConfirm must be dominated by confirmHandlerCommon == nil")
			o.Check("C06.R1", "ConfirmBatch|at most one confirmation per validator", ok2, w.Pos(s.Instr.Pos()), "SetBatchConfirm must be dominated by GetBatchConfirm(...) == nil")
		}
		// the validator whose registered key verifies the signature is the validator the confirmation is stored for
		// (SetBatchConfirm keys by msg.Orchestrator)
		req := cb.Params[len(cb.Params)-1]
		for _, ch := range FindCalls(cb, false, isCallee(skw, "msgServer", "confirmHandlerCommon")) {
			args := ch.Args()
			okO := false
			var other []string
			if len(args) >= 4 {
				x, _ := NewFlow(w).Influence(args[len(args)-4])
				for ap := range x {
					if ap.Root != ssa.Value(req) {
						continue
					}
					if ap.Path == ".Orchestrator" {
						okO = true
					} else {
						other = append(other, ap.Path)
					}
				}
			}
			sort.Strings(other)
			o.Check("C06.R1", "ConfirmBatch|the key checked is that of the validator the confirmation is stored for", okO && len(other) == 0, w.Pos(ch.Instr.Pos()), "confirmHandlerCommon must be given msg.Orchestrator, the identity SetBatchConfirm and GetBatchConfirm key by; verifying against another account's key ("+strings.Join(other, ",")+") records a confirmation for a validator whose key did not sign")
		}
		// GetBatchConfirm and SetBatchConfirm address the same key
		gbc := w.Func(skw, "Keeper", "GetBatchConfirm")
		sbc := w.Func(skw, "Keeper", "SetBatchConfirm")
		if gbc != nil && sbc != nil {
			k1 := FindCalls(gbc, false, isCallee("x/skyway/types", "", "GetBatchConfirmKey"))
			k2 := FindCalls(sbc, false, isCallee("x/skyway/types", "", "GetBatchConfirmKey"))
			o.Check("C06.R1", "batch confirms|lookup and store use the same key builder", len(k1) > 0 && len(k2) > 0, w.Pos(sbc.Pos()), "GetBatchConfirm and SetBatchConfirm must both address GetBatchConfirmKey(token, nonce, validator)")
		}
	}

	// ---- R2 ----
	ams := w.MustFunc(o, "x/consensus/keeper", "Keeper", "AddMessageSignature")
	if ams != nil {
		o.Analysed(w.FuncKey(ams))
		valAddr := ams.Params[2]
		nPk := 0
		for _, g0 := range unitFuncs(ams) {
			g := g0
			for _, st := range storesToField(g, "SignData", "PublicKey") {
				if st.Parent() != g {
					continue
				}
				nPk++
				c := fl.DependsOnCall(st.Val, isCallee("", "", "GetSigningKey"))
				ok := c != nil
				if ok {
					// the key is looked up for the acting validator
					args := c.Common().Args
					okV := false
					for _, a := range args {
						aps, _ := fl.Influence(a)
						for ap := range aps {
							if ap.Root == ssa.Value(valAddr) {
								okV = true
							}
						}
					}
					// the stored value is the lookup's result itself (possibly unwrapped by whoops.Must), not a mix with submitted data
					direct := false
					v := canon(st.Val)
					for i := 0; i < 3; i++ {
						switch x := v.(type) {
						case *ssa.Extract:
							if x.Tuple == ssa.Value(c) {
								direct = true
							}
						case *ssa.Call:
							if x == c {
								direct = true
							} else if cal, okc := CalleeOf(x.Common()); okc && cal.Pkg == "github.com/VolumeFi/whoops" && cal.Name == "Must" && len(x.Call.Args) > 0 {
								v = canon(x.Call.Args[0])
								continue
							}
						}
						break
					}
					ok = direct
					ok = ok && okV
				}
				o.Check("C06.R2", "AddMessageSignature|public key from the validator's registered chain account", ok, w.Pos(st.Pos()), "SignData.PublicKey must be the result of valset.GetSigningKey(valAddr, chain, signedBy)")
			}
			for _, st := range storesToField(g, "SignData", "ValAddress") {
				if st.Parent() != g {
					continue
				}
				aps, _ := fl.Influence(st.Val)
				ok := len(aps) > 0
				for ap := range aps {
					if ap.Root != ssa.Value(valAddr) {
						if _, isP := ap.Root.(*ssa.Parameter); isP {
							ok = false
						}
					}
				}
				o.Check("C06.R2", "AddMessageSignature|recorded validator is the acting validator", ok, w.Pos(st.Pos()), "SignData.ValAddress must be the valAddr parameter")
			}
		}
		o.Count("C06.R2 PublicKey assignments", nPk, 1)
	}

	// ---- R3 ----
	runtime := w.Reach(entryFns(w.EntriesOf("msg", "abci", "ante", "gov", "wasm", "hook")), nil)
	nW := 0
	for _, f := range w.ProdFuncs {
		if f.Parent() != nil || isGeneratedFile(w, f) {
			continue
		}
		for _, field := range []string{"Msg", "GasEstimate"} {
			for _, st := range storesToField(f, "QueuedSignedMessage", field) {
				if _, isAlloc := baseOf(st.Addr).(*ssa.Alloc); isAlloc {
					continue // a new message
				}
				nW++
				key := w.FuncKey(f) + "|writes " + field + " of an existing queued message"
				pos := w.Pos(st.Pos())
				// (a) clears SignData in the same function on every path to a return after the store
				clears := map[ssa.Instruction]bool{}
				for _, s2 := range storesToField(f, "QueuedSignedMessage", "SignData") {
					if isNilConst(s2.Val) {
						clears[s2] = true
					}
				}
				cleared := len(clears) > 0
				if cleared {
					rets := map[ssa.Instruction]bool{}
					for _, r := range Returns(f) {
						rets[r.Ret] = true
					}
					// store then clear, or clear then store: no return reachable from entry that passes the store but no clear
					if ReachAvoiding(f, st, rets, clears) != nil && !PrecededBy(f, st, clears) {
						cleared = false
					}
				}
				if cleared {
					o.Pass("C06.R3", key, pos, "collected signatures are cleared in the same function")
					continue
				}
				if runtime[f] == nil {
					o.Note("C06.R3", key+"|dormant", pos, "changes a signed field without clearing the signatures, but is unreachable from every runtime entry point; becomes a violation when wired in")
					continue
				}
				if field == "GasEstimate" {
					// electing an estimate changes the bytes to sign: the writer itself must drop the signatures
					// collected over the old bytes (the replacement rule below relies on exactly that)
					o.Fail("C06.R3", key, pos, "sets the elected gas estimate of a queued message (which changes its bytes to sign) without clearing the signatures collected so far", w.Path(runtime, f)...)
					continue
				}
				// (b) replacement path: the store is conditioned on a caller-supplied id; every caller that supplies one has elected the estimate first
				ok, why := replaceAfterElection(w, fl, f)
				o.Check("C06.R3", key+"|only after the election cleared the signatures", ok, pos, why, w.Path(runtime, f)...)
			}
		}
	}
	o.Count("C06.R3 writers of signed fields of existing queued messages", nW, 3)
	// ReassignValidator reachability (changes the relayer inside Msg)
	if rv := w.Func(cqp, "Queue", "ReassignValidator"); rv != nil {
		o.Check("C06.R3", "ReassignValidator|unreachable while it keeps old signatures", runtime[rv] == nil, w.Pos(rv.Pos()),
			"ReassignValidator rewrites the signed relayer address without clearing SignData; it must stay unreachable from runtime entry points", w.Path(runtime, rv)...)
	}
	// skyway: rewriting a stored batch deletes its confirmations
	muts := w.StoreMuts(fl)
	nB := 0
	storeB := w.Func(skw, "Keeper", "StoreBatch")
	genesis := w.Reach(entryFns(w.EntriesOf("genesis")), nil)
	for _, m := range muts {
		if !m.Has("call:x/skyway/types.GetOutgoingTxBatchKey") || m.Op != "Set" {
			continue
		}
		f := TopFunc(m.Site.Fn)
		if f == storeB {
			continue // refuses to overwrite (C01.R4)
		}
		if genesis[f] != nil && runtime[f] == nil {
			continue
		}
		nB++
		del := FindCalls(f, false, isCallee(skw, "Keeper", "DeleteBatchConfirms"))
		ok := len(del) > 0 && ReachAvoiding(f, m.Site.Instr, SuccessReturns(f), siteSet(del)) == nil
		o.Check("C06.R3", w.FuncKey(f)+"|rewriting a stored batch deletes its confirmations", ok, w.Pos(m.Site.Instr.Pos()), "every success path after overwriting a batch must pass DeleteBatchConfirms")
		if ai := atomicWrapper(f); ai != nil {
			for _, d := range del {
				onCache := false
				for _, a := range d.Args() {
					if derivesFromValue(a, ai.ctxVal) {
						onCache = true
					}
				}
				if !onCache {
					continue
				}
				// the deletion runs on the cache context: it must not come after the (inline) commit
				late := false
				for _, s := range CallsIn(f) {
					if s.Common().IsInvoke() {
						continue
					}
					if canon(s.Common().Value) == ai.commit {
						if ReachAvoiding(f, s.Instr, map[ssa.Instruction]bool{d.Instr: true}, nil) != nil {
							late = true
						}
					}
				}
				o.Check("C06.R3", w.FuncKey(f)+"|confirmations are deleted before the cache context is committed", !late, w.Pos(d.Instr.Pos()),
					"DeleteBatchConfirms runs on the cached context after it was already committed, so the deletion is discarded and confirmations of the old checkpoint stay")
			}
		}
	}
	o.Count("C06.R3 batch rewrite sites", nB, 1)
}

// replaceAfterElection: f is Queue.Put-like; each production call site that passes options with a non-zero
// MsgIDToReplace lies in a function (or its unique caller) where a SetElectedGasEstimate call on the queue precedes it.
func replaceAfterElection(w *World, fl *Flow, put *ssa.Function) (bool, string) {
	n := 0
	for _, g := range w.ProdFuncs {
		for _, st := range storesToField(g, "PutOptions", "MsgIDToReplace") {
			if st.Parent() != g {
				continue
			}
			if c, ok := st.Val.(*ssa.Const); ok && c.Uint64() == 0 {
				continue
			}
			n++
			// find the Put call in g
			puts := FindCalls(g, false, func(c Callee) bool { return c.Name == "Put" })
			if len(puts) == 0 {
				return false, "options with MsgIDToReplace built in " + w.FuncKey(g) + " but no Put call found there"
			}
			isSet := func(c Callee) bool {
				return c.Name == "SetElectedGasEstimate" && (c.Iface || c.Recv == "Queue" || c.Recv == "BatchQueue")
			}
			sets := FindCalls(g, false, isSet)
			okHere := len(sets) > 0
			for _, p := range puts {
				if !PrecededBy(g, p.Instr, siteSet(sets)) {
					okHere = false
				}
			}
			if okHere {
				continue
			}
			// unique caller
			callers := w.CallersOf(func(c Callee) bool { return c.Static == g })
			if len(callers) == 0 {
				return false, w.FuncKey(g) + " replaces a message without a preceding estimate election and has no caller"
			}
			for _, cs := range callers {
				cf := cs.Fn
				sets := FindCalls(cf, false, isSet)
				if len(sets) == 0 || !PrecededBy(cf, cs.Instr, siteSet(sets)) {
					return false, "message replaced in " + w.FuncKey(g) + " (called from " + w.FuncKey(cf) + ") without a preceding SetElectedGasEstimate that clears the signatures"
				}
				// same message id
				for _, s := range sets {
					if GuardErrNil(cs.Instr, isSet) == nil {
						return false, "the election's error is not checked before the replacement in " + w.FuncKey(cf)
					}
					_ = s
				}
			}
		}
	}
	if n == 0 {
		return false, "no production site sets MsgIDToReplace, yet the replacement branch exists"
	}
	return true, "every replacement follows a checked SetElectedGasEstimate (which clears SignData)"
}

var _ = token.ADD
