package main

// guards.go — P3 (GuardedBy) and P4 (MustPassThrough) on go/ssa: dominating
// branch edges, normalised condition facts, store→load forwarding for spilled
// variables, return classification, instruction-level reachability.

import (
	"go/ast"
	"go/constant"
	"go/token"
	"go/types"
	"strings"

	"golang.org/x/tools/go/ssa"
)

// ---- canonical values (store→load forwarding) --------------------------------

// stripConv removes representation-only conversions.
func stripConv(v ssa.Value) ssa.Value {
	for {
		switch x := v.(type) {
		case *ssa.ChangeInterface:
			v = x.X
		case *ssa.ChangeType:
			v = x.X
		case *ssa.MakeInterface:
			v = x.X
		case *ssa.Convert:
			v = x.X
		default:
			return v
		}
	}
}

func instrIndex(b *ssa.BasicBlock, in ssa.Instruction) int {
	for i, x := range b.Instrs {
		if x == in {
			return i
		}
	}
	return -1
}

// reachingStores returns the values that may be stored in alloc when control
// reaches instruction `at` (a load). unknown=true when some path reaches the
// function entry without a store (zero value) or the address escapes to a call.
func reachingStores(alloc ssa.Value, at ssa.Instruction) (vals []ssa.Value, zero bool) {
	seenVal := map[ssa.Value]bool{}
	scan := func(b *ssa.BasicBlock, from int) bool {
		for i := from; i >= 0; i-- {
			if st, ok := b.Instrs[i].(*ssa.Store); ok && st.Addr == alloc {
				if !seenVal[st.Val] {
					seenVal[st.Val] = true
					vals = append(vals, st.Val)
				}
				return true
			}
		}
		return false
	}
	b := at.Block()
	var work []*ssa.BasicBlock
	if !scan(b, instrIndex(b, at)-1) {
		if len(b.Preds) == 0 {
			zero = true
		}
		work = append(work, b.Preds...)
	}
	seen := map[*ssa.BasicBlock]bool{}
	for len(work) > 0 {
		pb := work[len(work)-1]
		work = work[:len(work)-1]
		if seen[pb] {
			continue
		}
		seen[pb] = true
		if scan(pb, len(pb.Instrs)-1) {
			continue
		}
		if len(pb.Preds) == 0 {
			zero = true
		}
		work = append(work, pb.Preds...)
	}
	// stores made by nested closures into the captured variable (flow-insensitive)
	if a, ok := alloc.(*ssa.Alloc); ok {
		for _, ref := range *a.Referrers() {
			if mc, ok := ref.(*ssa.MakeClosure); ok {
				fn := mc.Fn.(*ssa.Function)
				for i, bnd := range mc.Bindings {
					if bnd != alloc {
						continue
					}
					fv := fn.FreeVars[i]
					for _, r2 := range *fv.Referrers() {
						if st, ok := r2.(*ssa.Store); ok && st.Addr == fv && !seenVal[st.Val] {
							seenVal[st.Val] = true
							vals = append(vals, st.Val)
						}
					}
				}
			}
		}
	}
	return
}

// canon follows representation changes and unique store→load forwarding so that
// two reads of the same spilled variable with the same reaching definition compare equal.
func canon(v ssa.Value) ssa.Value { return canonX(v, true) }

// canonLocal is canon without crossing helper boundaries: the value as the function itself holds it.
func canonLocal(v ssa.Value) ssa.Value { return canonX(v, false) }

func canonX(v ssa.Value, cross bool) ssa.Value {
	for i := 0; i < 20; i++ {
		v = stripConv(v)
		// values crossing the boundary of a helper introduced after the reference tree (see world.go):
		// a parameter of a helper with one call site is the argument passed there; the result of a helper
		// with one success return is the value returned there
		if cross && len(newFuncs) > 0 {
			if nv := throughNewHelper(v); nv != nil {
				v = nv
				continue
			}
		}
		u, ok := v.(*ssa.UnOp)
		if !ok || u.Op != token.MUL {
			return v
		}
		switch a := u.X.(type) {
		case *ssa.Alloc:
			vals, zero := reachingStores(a, u)
			if len(vals) == 1 && !zero {
				v = vals[0]
				continue
			}
			return v
		case *ssa.FreeVar:
			return v
		default:
			return v
		}
	}
	return v
}

func throughNewHelper(v ssa.Value) ssa.Value {
	switch x := v.(type) {
	case *ssa.Parameter:
		h := x.Parent()
		if !isNewHelper(h) || len(ctxSites[h]) != 1 {
			return nil
		}
		args := ctxSites[h][0].Common().Args
		for i, p := range h.Params {
			if p == x && i < len(args) {
				return args[i]
			}
		}
	case *ssa.Extract:
		c, ok := x.Tuple.(*ssa.Call)
		if !ok {
			return nil
		}
		if isErrorType(x.Type()) || isBoolType(x.Type()) {
			return nil // error / boolean results stay attached to their call: guard facts are keyed by it
		}
		if r := singleSuccessReturn(c.Call.StaticCallee()); r != nil && x.Index < len(r.Results) {
			return r.Results[x.Index]
		}
	case *ssa.Call:
		if _, isTuple := x.Type().(*types.Tuple); isTuple {
			return nil
		}
		if isErrorType(x.Type()) || isBoolType(x.Type()) {
			return nil // error / boolean results stay attached to their call: guard facts are keyed by it
		}
		if r := singleSuccessReturn(x.Call.StaticCallee()); r != nil && len(r.Results) == 1 {
			return r.Results[0]
		}
	}
	return nil
}

var singleRetMemo = map[*ssa.Function]*ssa.Return{}

// singleSuccessReturn: the only return of a new helper that can report success (nil for other functions).
func singleSuccessReturn(h *ssa.Function) *ssa.Return {
	if !isNewHelper(h) {
		return nil
	}
	if r, ok := singleRetMemo[h]; ok {
		return r
	}
	singleRetMemo[h] = nil
	var only *ssa.Return
	n := 0
	// a lookup-style helper without an error result reports failure through a trailing false
	res := h.Signature.Results()
	foundStyle := errResultIndex(h) < 0 && res.Len() >= 2 && isBoolType(res.At(res.Len()-1).Type())
	for _, r := range Returns(h) {
		if r.Kind == RetError {
			continue
		}
		if foundStyle && len(r.Ret.Results) == res.Len() {
			if bv, isC := boolConst(r.Ret.Results[res.Len()-1]); isC && !bv {
				continue
			}
		}
		n++
		only = r.Ret
	}
	if n != 1 {
		only = nil
	}
	singleRetMemo[h] = only
	return only
}

// ---- facts -------------------------------------------------------------------

type FactKind int

const (
	FNil    FactKind = iota // V == nil holds
	FNonNil                 // V != nil holds
	FTrue                   // bool V is true
	FFalse                  // bool V is false
	FCmp                    // X Op Y holds
)

type Fact struct {
	Kind  FactKind
	V     ssa.Value // canonical subject (FNil/FNonNil/FTrue/FFalse)
	Op    token.Token
	X, Y  ssa.Value // canonical operands (FCmp)
	If    *ssa.If
	Block *ssa.BasicBlock // block of the If
	Bind  *ssa.CallCommon // for a fact read out of a guard helper: the call whose arguments bind the helper's parameters
}

// Resolve maps a value that is a parameter of the guard helper this fact was read from onto the argument
// passed at the guarding call (identity of "the thing that was checked" across the helper boundary).
func (f Fact) Resolve(v ssa.Value) ssa.Value {
	v = canon(v)
	// a value parameter spilled to a local slot (its fields are addressed through the slot)
	if al, isAl := v.(*ssa.Alloc); isAl && f.Bind != nil {
		var only ssa.Value
		n := 0
		for _, r := range *al.Referrers() {
			if st, isSt := r.(*ssa.Store); isSt && st.Addr == ssa.Value(al) {
				n++
				only = st.Val
			}
		}
		if n == 1 {
			if _, isP := only.(*ssa.Parameter); isP {
				v = only
			}
		}
	}
	p, ok := v.(*ssa.Parameter)
	if !ok || f.Bind == nil {
		return v
	}
	h := f.Bind.StaticCallee()
	if h == nil || p.Parent() != h {
		return v
	}
	for i, q := range h.Params {
		if q == p && i < len(f.Bind.Args) {
			return canon(f.Bind.Args[i])
		}
	}
	return v
}

func isNilConst(v ssa.Value) bool {
	c, ok := v.(*ssa.Const)
	return ok && c.Value == nil && !isBasicNonPointer(c.Type())
}

func isBasicNonPointer(t types.Type) bool {
	_, ok := t.Underlying().(*types.Basic)
	return ok
}

func boolConst(v ssa.Value) (bool, bool) {
	c, ok := v.(*ssa.Const)
	if !ok || c.Value == nil || c.Value.Kind() != constant.Bool {
		return false, false
	}
	return constant.BoolVal(c.Value), true
}

func negOp(op token.Token) token.Token {
	switch op {
	case token.EQL:
		return token.NEQ
	case token.NEQ:
		return token.EQL
	case token.LSS:
		return token.GEQ
	case token.GEQ:
		return token.LSS
	case token.GTR:
		return token.LEQ
	case token.LEQ:
		return token.GTR
	}
	return token.ILLEGAL
}

// factOf normalises "cond is <branch>" into one atomic fact.
func factOf(cond ssa.Value, branch bool) Fact {
	for {
		cond = canon(cond)
		if u, ok := cond.(*ssa.UnOp); ok && u.Op == token.NOT {
			cond = u.X
			branch = !branch
			continue
		}
		break
	}
	if b, ok := cond.(*ssa.BinOp); ok {
		op := b.Op
		if !branch {
			op = negOp(op)
		}
		x, y := canon(b.X), canon(b.Y)
		switch b.Op {
		case token.EQL, token.NEQ:
			if isNilConst(y) || isNilConst(x) {
				s := x
				if isNilConst(x) {
					s = y
				}
				if op == token.EQL {
					return Fact{Kind: FNil, V: s}
				}
				return Fact{Kind: FNonNil, V: s}
			}
			if bv, ok := boolConst(y); ok {
				if (op == token.EQL) == bv {
					return Fact{Kind: FTrue, V: x}
				}
				return Fact{Kind: FFalse, V: x}
			}
			return Fact{Kind: FCmp, Op: op, X: x, Y: y}
		case token.LSS, token.GEQ, token.GTR, token.LEQ:
			return Fact{Kind: FCmp, Op: op, X: x, Y: y}
		}
	}
	if branch {
		return Fact{Kind: FTrue, V: cond}
	}
	return Fact{Kind: FFalse, V: cond}
}

// DomFacts returns the facts established by every branch edge that dominates block b.
func DomFacts(b *ssa.BasicBlock) []Fact {
	var out []Fact
	for a := b; a != nil; a = a.Idom() {
		if len(a.Preds) != 1 {
			continue
		}
		p := a.Preds[0]
		if len(p.Instrs) == 0 {
			continue
		}
		iff, ok := p.Instrs[len(p.Instrs)-1].(*ssa.If)
		if !ok || p.Succs[0] == p.Succs[1] {
			continue
		}
		f := factOf(iff.Cond, p.Succs[0] == a)
		f.If = iff
		f.Block = p
		out = append(out, f)
		out = append(out, expandHelperFact(f, 0)...)
	}
	out = append(out, contextFacts(b.Parent(), 0)...)
	return out
}

// ---- contextual facts ------------------------------------------------------------
//
// A block of code moved into a helper keeps the guards of the place it was moved from: the facts that
// dominate *every* static call site of a helper hold on entry to it. Only functions whose call sites are
// all visible qualify: top-level module functions that are never used as a value, are not exported
// methods (interface satisfaction, SDK entry points) and whose name is not an invoked interface method.

var (
	ctxSites   map[*ssa.Function][]ssa.CallInstruction
	ctxEscapes map[*ssa.Function]bool
	ctxMemo    map[*ssa.Function][]Fact
	ctxBusy    map[*ssa.Function]bool
)

func buildCtxIndex(w *World) {
	ctxSites = map[*ssa.Function][]ssa.CallInstruction{}
	ctxEscapes = map[*ssa.Function]bool{}
	ctxMemo = map[*ssa.Function][]Fact{}
	ctxBusy = map[*ssa.Function]bool{}
	helperFactsMemo = map[helperKey][]Fact{}
	invoked := map[string]bool{}
	for _, f := range w.ProdFuncs {
		for _, b := range f.Blocks {
			for _, in := range b.Instrs {
				var callee *ssa.Function
				if ci, ok := in.(ssa.CallInstruction); ok {
					if ci.Common().IsInvoke() {
						invoked[ci.Common().Method.Name()] = true
					} else if h := ci.Common().StaticCallee(); h != nil {
						callee = h
						ctxSites[h] = append(ctxSites[h], ci)
					}
				}
				for _, op := range in.Operands(nil) {
					if op == nil || *op == nil {
						continue
					}
					if fn, ok := (*op).(*ssa.Function); ok && fn != callee {
						ctxEscapes[fn] = true
					}
					if mc, ok := (*op).(*ssa.MakeClosure); ok {
						if fn, ok := mc.Fn.(*ssa.Function); ok {
							ctxEscapes[fn] = true
						}
					}
				}
			}
		}
	}
	for _, f := range w.ProdFuncs {
		if f.Parent() != nil || f.Synthetic != "" {
			ctxEscapes[f] = true
			continue
		}
		if f.Signature.Recv() != nil && (ast.IsExported(f.Name()) || invoked[f.Name()]) {
			ctxEscapes[f] = true
		}
		if f.Name() == "init" || f.Name() == "main" {
			ctxEscapes[f] = true
		}
	}
}

func contextFacts(h *ssa.Function, depth int) []Fact {
	if h == nil || depth > 3 || ctxSites == nil || ctxEscapes[h] || ctxBusy[h] {
		return nil
	}
	if r, ok := ctxMemo[h]; ok {
		return r
	}
	sites := ctxSites[h]
	if len(sites) == 0 {
		return nil
	}
	ctxBusy[h] = true
	defer delete(ctxBusy, h)
	var result []Fact
	for i, c := range sites {
		fs := domFactsCtx(c.Block(), depth+1)
		if i == 0 {
			result = fs
			continue
		}
		var keep []Fact
		for _, a := range result {
			for _, x := range fs {
				if sameFact(a, x) {
					keep = append(keep, a)
					break
				}
			}
		}
		result = keep
	}
	if depth == 0 {
		ctxMemo[h] = result
	}
	return result
}

// domFactsCtx: DomFacts of a call-site block, with the caller's own context bounded by depth.
func domFactsCtx(b *ssa.BasicBlock, depth int) []Fact {
	out := domFactsRaw(b, 0)
	for i := range out {
		_ = i
	}
	return append(out, contextFacts(b.Parent(), depth)...)
}

// ---- guard helpers ---------------------------------------------------------------
//
// A condition extracted into a small boolean helper of the module (`if k.isExempt(x) {`) is read in
// place: the facts that hold on *every* path of the helper returning the branch's value are implied at
// the branch. The values inside those facts are the helper's own SSA values, so rules that match a
// guard by what is tested (callee, field, constant) see through the helper, while rules that need the
// identity of a caller value do not (they keep reporting "not recognised").

type helperKey struct {
	h    *ssa.Function
	idx  int
	want bool // bool result: the value; error result: true = nil error
}

var helperFactsMemo = map[helperKey][]Fact{}

func expandHelperFact(f Fact, depth int) []Fact {
	if depth > 2 {
		return nil
	}
	var call *ssa.Call
	idx := 0
	want := false
	switch f.Kind {
	case FTrue, FFalse:
		switch x := canon(f.V).(type) {
		case *ssa.Call:
			call = x
		case *ssa.Extract:
			c, ok := x.Tuple.(*ssa.Call)
			if !ok {
				return nil
			}
			call, idx = c, x.Index
		default:
			return nil
		}
		want = f.Kind == FTrue
	case FNil:
		// `err == nil` for the error result of a helper
		switch x := canon(f.V).(type) {
		case *ssa.Call:
			call = x
		case *ssa.Extract:
			c, ok := x.Tuple.(*ssa.Call)
			if !ok {
				return nil
			}
			call, idx = c, x.Index
		default:
			return nil
		}
		want = true
	default:
		return nil
	}
	h := call.Call.StaticCallee()
	// slices.ContainsFunc(xs, pred) == true: pred returned true for some element
	if h != nil && f.Kind == FTrue && funcPkgPath(h) == "slices" && strings.HasPrefix(h.Name(), "ContainsFunc") && len(call.Call.Args) == 2 {
		var pf *ssa.Function
		switch x := call.Call.Args[1].(type) {
		case *ssa.MakeClosure:
			pf, _ = x.Fn.(*ssa.Function)
		case *ssa.Function:
			pf = x
		}
		if pf != nil && pf.Blocks != nil && pf.Signature.Results().Len() == 1 {
			return withSite(helperFacts(pf, 0, true, false, depth), f)
		}
		return nil
	}
	if h == nil || h.Blocks == nil || h.Parent() != nil || !strings.HasPrefix(funcPkgPath(h), modPath) {
		return nil
	}
	res := h.Signature.Results()
	if idx >= res.Len() {
		return nil
	}
	isErr := false
	if f.Kind == FNil {
		if !isErrorType(res.At(idx).Type()) {
			return nil
		}
		isErr = true
	} else {
		if bt, ok := res.At(idx).Type().Underlying().(*types.Basic); !ok || bt.Kind() != types.Bool {
			return nil
		}
		if _, isTuple := call.Type().(*types.Tuple); !isTuple && res.Len() != 1 {
			return nil
		}
	}
	key := helperKey{h, idx, want}
	if r, ok := helperFactsMemo[key]; ok {
		return withSite(r, f)
	}
	r := helperFacts(h, idx, want, isErr, depth)
	if depth == 0 {
		helperFactsMemo[key] = r // deeper expansions are cut short by the depth bound: not reusable
	}
	return withSite(r, f)
}

func withSite(fs []Fact, at Fact) []Fact {
	out := make([]Fact, len(fs))
	var bind *ssa.CallCommon
	switch x := canon(at.V).(type) {
	case *ssa.Call:
		bind = x.Common()
	case *ssa.Extract:
		if c, ok := x.Tuple.(*ssa.Call); ok {
			bind = c.Common()
		}
	}
	for i, x := range fs {
		x.If, x.Block = at.If, at.Block
		if x.Bind == nil {
			x.Bind = bind
		}
		out[i] = x
	}
	return out
}

func sameFact(a, b Fact) bool {
	return a.Kind == b.Kind && a.Op == b.Op && a.V == b.V && a.X == b.X && a.Y == b.Y
}

// helperFacts: facts implied by "h returned want": the intersection, over every return of h whose value
// can be want, of the facts dominating that return (for a returned φ of the return block: per incoming
// edge, the facts dominating the predecessor plus its branch edge). Dominance-based, hence loop-safe.
func helperFacts(h *ssa.Function, idx int, want bool, isErr bool, depth int) []Fact {
	var result []Fact
	first := true
	merge := func(pf []Fact) {
		if first {
			result, first = pf, false
			return
		}
		var keep []Fact
		for _, a := range result {
			for _, c := range pf {
				if sameFact(a, c) {
					keep = append(keep, a)
					break
				}
			}
		}
		result = keep
	}
	consider := func(v ssa.Value, facts []Fact, at *ssa.BasicBlock) {
		if isErr {
			switch classifyErrVal(v, at, 0) {
			case RetSuccess:
				merge(facts)
			case RetError:
				// this return reports failure: not a path on which the caller saw nil
			default:
				rf := Fact{Kind: FNil, V: canon(v)}
				pf := append(append([]Fact{}, facts...), rf)
				pf = append(pf, expandHelperFact(rf, depth+1)...)
				merge(pf)
			}
			return
		}
		if bv, ok := boolConst(canon(v)); ok {
			if bv == want {
				merge(facts)
			}
			return
		}
		rf := factOf(v, want)
		pf := append(append([]Fact{}, facts...), rf)
		pf = append(pf, expandHelperFact(rf, depth+1)...)
		merge(pf)
	}
	nRet := 0
	for _, b := range h.Blocks {
		if len(b.Instrs) == 0 {
			continue
		}
		r, ok := b.Instrs[len(b.Instrs)-1].(*ssa.Return)
		if !ok {
			continue
		}
		nRet++
		if idx >= len(r.Results) {
			return nil
		}
		v := r.Results[idx]
		if ph, isPhi := v.(*ssa.Phi); isPhi && ph.Block() == b {
			pp := factsPerPredRaw(b, depth)
			for i := range b.Preds {
				consider(ph.Edges[i], pp[i], b.Preds[i])
			}
			continue
		}
		consider(v, domFactsRaw(b, depth), b)
	}
	if nRet == 0 || first {
		return nil
	}
	return result
}

// helperEveryPath: the branch fact f is "helper h returned v"; reports whether on *every* return of h that
// delivers v some fact satisfying pred holds (a disjunction spread over the helper's returns, e.g.
// `return err == nil || errors.Is(err, A) || errors.Is(err, B)` written as a switch).
func helperEveryPath(f Fact, pred func(Fact) bool) bool {
	var call *ssa.Call
	idx := 0
	switch x := canon(f.V).(type) {
	case *ssa.Call:
		call = x
	case *ssa.Extract:
		c, ok := x.Tuple.(*ssa.Call)
		if !ok {
			return false
		}
		call, idx = c, x.Index
	default:
		return false
	}
	h := call.Call.StaticCallee()
	if h == nil || h.Blocks == nil || h.Parent() != nil || !strings.HasPrefix(funcPkgPath(h), modPath) {
		return false
	}
	isErr := f.Kind == FNil
	if f.Kind != FNil && f.Kind != FTrue && f.Kind != FFalse {
		return false
	}
	want := f.Kind != FFalse
	any := false
	okAll := true
	consider := func(v ssa.Value, facts []Fact, at *ssa.BasicBlock) {
		if isErr {
			switch classifyErrVal(v, at, 0) {
			case RetError:
				return
			case RetSuccess:
			default:
				facts = append(append([]Fact{}, facts...), Fact{Kind: FNil, V: canon(v)})
			}
		} else if bv, ok := boolConst(canon(v)); ok {
			if bv != want {
				return
			}
		} else {
			rf := factOf(v, want)
			facts = append(append([]Fact{}, facts...), rf)
			facts = append(facts, expandHelperFact(rf, 1)...)
		}
		any = true
		for _, fa := range facts {
			if pred(fa) {
				return
			}
		}
		okAll = false
	}
	for _, b := range h.Blocks {
		if len(b.Instrs) == 0 {
			continue
		}
		r, ok := b.Instrs[len(b.Instrs)-1].(*ssa.Return)
		if !ok || idx >= len(r.Results) {
			continue
		}
		v := r.Results[idx]
		if ph, isPhi := v.(*ssa.Phi); isPhi && ph.Block() == b {
			pp := factsPerPredRaw(b, 1)
			for i := range b.Preds {
				consider(ph.Edges[i], pp[i], b.Preds[i])
			}
			continue
		}
		consider(v, domFactsRaw(b, 1), b)
	}
	return any && okAll
}

// holdsOnAllPaths: on every path from the function entry to block b some branch edge establishes a fact
// satisfying pred (directly, through a guard helper's implied facts, or on every accepting path of a guard
// helper). Joins are followed edge by edge; a loop back edge is answered conservatively (false).
func holdsOnAllPaths(b *ssa.BasicBlock, pred func(Fact) bool) bool {
	return holdsOnAllPathsRec(b, pred, map[*ssa.BasicBlock]bool{}, 0)
}

func holdsOnAllPathsRec(b *ssa.BasicBlock, pred func(Fact) bool, seen map[*ssa.BasicBlock]bool, depth int) bool {
	if seen[b] || depth > 64 || len(b.Preds) == 0 {
		return false
	}
	seen[b] = true
	defer delete(seen, b)
	for _, p := range b.Preds {
		ok := false
		if len(p.Instrs) > 0 {
			if iff, isIf := p.Instrs[len(p.Instrs)-1].(*ssa.If); isIf && p.Succs[0] != p.Succs[1] {
				f := factOf(iff.Cond, p.Succs[0] == b)
				if pred(f) || helperEveryPath(f, pred) {
					ok = true
				} else {
					for _, x := range expandHelperFact(f, 0) {
						if pred(x) {
							ok = true
						}
					}
				}
			}
		}
		if !ok && !holdsOnAllPathsRec(p, pred, seen, depth+1) {
			return false
		}
	}
	return true
}

// domFactsRaw / factsPerPredRaw: like DomFacts / FactsPerPred, with nested helper expansion bounded by depth.
func domFactsRaw(b *ssa.BasicBlock, depth int) []Fact {
	var out []Fact
	for a := b; a != nil; a = a.Idom() {
		if len(a.Preds) != 1 {
			continue
		}
		p := a.Preds[0]
		if len(p.Instrs) == 0 {
			continue
		}
		iff, ok := p.Instrs[len(p.Instrs)-1].(*ssa.If)
		if !ok || p.Succs[0] == p.Succs[1] {
			continue
		}
		f := factOf(iff.Cond, p.Succs[0] == a)
		out = append(out, f)
		out = append(out, expandHelperFact(f, depth+1)...)
	}
	return out
}

func factsPerPredRaw(b *ssa.BasicBlock, depth int) [][]Fact {
	var out [][]Fact
	for _, p := range b.Preds {
		fs := domFactsRaw(p, depth)
		if len(p.Instrs) > 0 {
			if iff, ok := p.Instrs[len(p.Instrs)-1].(*ssa.If); ok && p.Succs[0] != p.Succs[1] {
				f := factOf(iff.Cond, p.Succs[0] == b)
				fs = append(fs, f)
				fs = append(fs, expandHelperFact(f, depth+1)...)
			}
		}
		out = append(out, fs)
	}
	return out
}

// FactsAt: facts dominating an instruction.
func FactsAt(in ssa.Instruction) []Fact { return DomFacts(in.Block()) }

// ---- tracing a value back to calls ---------------------------------------------

// callsBehind returns the calls a value may directly be the result of (through
// Extract, conversions, store forwarding and φ).
func callsBehind(v ssa.Value) []*ssa.Call {
	var out []*ssa.Call
	seen := map[ssa.Value]bool{}
	var walk func(v ssa.Value, d int)
	walk = func(v ssa.Value, d int) {
		if d > 12 || v == nil {
			return
		}
		v = canon(v)
		if seen[v] {
			return
		}
		seen[v] = true
		switch x := v.(type) {
		case *ssa.Call:
			out = append(out, x)
		case *ssa.Extract:
			walk(x.Tuple, d+1)
		case *ssa.Phi:
			for _, e := range x.Edges {
				walk(e, d+1)
			}
		case *ssa.UnOp:
			if x.Op == token.MUL {
				if a, ok := x.X.(*ssa.Alloc); ok {
					vals, _ := reachingStores(a, x)
					for _, sv := range vals {
						walk(sv, d+1)
					}
				}
			}
		case *ssa.TypeAssert:
			walk(x.X, d+1)
		}
	}
	walk(v, 0)
	return out
}

// factCallee: does the fact's subject come from a call matching pred?
func factFromCall(f Fact, pred func(Callee) bool) *ssa.Call {
	for _, c := range callsBehind(f.V) {
		if cal, ok := CalleeOf(c.Common()); ok && pred(cal) {
			return c
		}
	}
	return nil
}

// extractIndex returns the tuple index when v is Extract (after canon), else -1.
func extractIndex(v ssa.Value) int {
	if e, ok := canon(v).(*ssa.Extract); ok {
		return e.Index
	}
	return -1
}

// GuardErrNil: instruction is dominated by "error result of a call matching pred is nil".
// Returns the guarding call or nil.
func GuardErrNil(in ssa.Instruction, pred func(Callee) bool) *ssa.Call {
	for _, f := range FactsAt(in) {
		if f.Kind != FNil {
			continue
		}
		if !isErrorType(f.V.Type()) {
			continue
		}
		if c := factFromCall(f, pred); c != nil {
			return c
		}
	}
	return nil
}

// GuardBool: instruction is dominated by "a bool result of a call matching pred == want".
// GuardBoolFact is GuardBool returning the fact as well (for Fact.Resolve).
func GuardBoolFact(in ssa.Instruction, pred func(Callee) bool, want bool) (*ssa.Call, Fact) {
	for _, f := range FactsAt(in) {
		if (f.Kind == FTrue && want) || (f.Kind == FFalse && !want) {
			if c := factFromCall(f, pred); c != nil {
				return c, f
			}
		}
	}
	return nil, Fact{}
}

func GuardBool(in ssa.Instruction, pred func(Callee) bool, want bool) *ssa.Call {
	for _, f := range FactsAt(in) {
		if (f.Kind == FTrue && want) || (f.Kind == FFalse && !want) {
			if c := factFromCall(f, pred); c != nil {
				return c
			}
		}
	}
	return nil
}

func isErrorType(t types.Type) bool {
	n, ok := t.(*types.Named)
	if ok && n.Obj().Pkg() == nil && n.Obj().Name() == "error" {
		return true
	}
	if types.IsInterface(t) {
		if types.Implements(t, errorIface()) && t.Underlying().(*types.Interface).NumMethods() == 1 {
			return true
		}
	}
	return false
}

var _errIface *types.Interface

func errorIface() *types.Interface {
	if _errIface == nil {
		_errIface = types.Universe.Lookup("error").Type().Underlying().(*types.Interface)
	}
	return _errIface
}

// ---- returns -------------------------------------------------------------------

type RetKind int

const (
	RetUnknown RetKind = iota
	RetSuccess
	RetError
)

// errResultIndex returns the index of the last result of type error, or -1.
func errResultIndex(f *ssa.Function) int {
	res := f.Signature.Results()
	for i := res.Len() - 1; i >= 0; i-- {
		if isErrorType(res.At(i).Type()) {
			return i
		}
	}
	return -1
}

var errCtorPkgs = map[string]bool{
	"fmt": true, "errors": true, "cosmossdk.io/errors": true,
	"github.com/VolumeFi/whoops": true, "github.com/cosmos/cosmos-sdk/types/errors": true,
}

func classifyErrVal(v ssa.Value, at *ssa.BasicBlock, depth int) RetKind {
	if depth > 6 {
		return RetUnknown
	}
	v0 := v
	v = stripConv(v)
	if isNilConst(v) || isNilConst(v0) {
		return RetSuccess
	}
	if c, ok := v.(*ssa.Const); ok && c.Value != nil {
		return RetError // constant error value (e.g. liberr.Error string constant)
	}
	// spilled: classify each reaching store
	if u, ok := v.(*ssa.UnOp); ok && u.Op == token.MUL {
		switch a := u.X.(type) {
		case *ssa.Alloc:
			vals, zero := reachingStores(a, u)
			if len(vals) == 0 {
				if zero {
					return RetSuccess
				}
				return RetUnknown
			}
			k := RetKind(-1)
			if zero {
				k = RetSuccess
			}
			for _, sv := range vals {
				kk := classifyErrVal(sv, at, depth+1)
				if k == -1 {
					k = kk
				} else if k != kk {
					return RetUnknown
				}
			}
			if k == RetUnknown || k == -1 {
				break
			}
			return k
		case *ssa.Global:
			return RetError // package-level error variable
		}
	}
	cv := canon(v)
	// facts dominating the return block about this very value
	for _, f := range DomFacts(at) {
		if f.V == nil {
			continue
		}
		if f.V == cv || f.V == v {
			if f.Kind == FNonNil {
				return RetError
			}
			if f.Kind == FNil {
				return RetSuccess
			}
		}
	}
	switch x := cv.(type) {
	case *ssa.Call:
		if cal, ok := CalleeOf(x.Common()); ok {
			if errCtorPkgs[cal.Pkg] || cal.Recv == "Error" && cal.Pkg == modPath+"/util/liberr" {
				return RetError
			}
			if cal.Name == "Wrap" || cal.Name == "Wrapf" || cal.Name == "Errorf" || cal.Name == "New" && cal.Pkg == "errors" {
				return RetError
			}
		}
		// an error-translating helper introduced after the reference tree (e.g. notFoundAs(err, ErrX)):
		// its result is what each of its returns yields, a parameter standing for the argument passed here
		if h := x.Call.StaticCallee(); h != nil && isNewHelper(h) && len(h.Blocks) > 0 && h.Signature.Results().Len() == 1 {
			k := RetKind(-1)
			for _, b := range h.Blocks {
				r, isR := b.Instrs[len(b.Instrs)-1].(*ssa.Return)
				if !isR || len(r.Results) != 1 {
					continue
				}
				var kk RetKind
				if q, isP := stripConv(r.Results[0]).(*ssa.Parameter); isP {
					kk = RetUnknown
					for i, hp := range h.Params {
						if hp == q && i < len(x.Call.Args) {
							kk = classifyErrVal(x.Call.Args[i], x.Block(), depth+1)
						}
					}
				} else {
					kk = classifyErrVal(r.Results[0], b, depth+1)
				}
				if k == -1 {
					k = kk
				} else if k != kk {
					k = RetUnknown
				}
			}
			if k == RetError || k == RetSuccess {
				return k
			}
		}
	case *ssa.Phi:
		k := RetKind(-1)
		for _, e := range x.Edges {
			kk := classifyErrVal(e, at, depth+1)
			if k == -1 {
				k = kk
			} else if k != kk {
				return RetUnknown
			}
		}
		if k >= 0 {
			return k
		}
	case *ssa.MakeInterface:
		return RetError
	case *ssa.Alloc:
		return RetError
	}
	if u, ok := cv.(*ssa.UnOp); ok && u.Op == token.MUL {
		if _, ok := u.X.(*ssa.Global); ok {
			return RetError
		}
	}
	return RetUnknown
}

// Returns lists the Return instructions of f with their classification w.r.t. the error result.
type RetInfo struct {
	Ret  *ssa.Return
	Kind RetKind
}

func Returns(f *ssa.Function) []RetInfo {
	idx := errResultIndex(f)
	var out []RetInfo
	for _, b := range f.Blocks {
		if len(b.Instrs) == 0 {
			continue
		}
		r, ok := b.Instrs[len(b.Instrs)-1].(*ssa.Return)
		if !ok {
			continue
		}
		k := RetSuccess
		if idx >= 0 && idx < len(r.Results) {
			k = classifyErrVal(r.Results[idx], b, 0)
		}
		out = append(out, RetInfo{r, k})
	}
	return out
}

// ---- instruction-level reachability (P4) -------------------------------------

// ReachAvoiding reports whether some CFG path starting just after `from`
// (or at function entry when from == nil) reaches an instruction in `to`
// without executing any instruction in `avoid`. It returns the reached target.
func ReachAvoiding(f *ssa.Function, from ssa.Instruction, to map[ssa.Instruction]bool, avoid map[ssa.Instruction]bool) ssa.Instruction {
	return reachAvoidingRaw(f, normFrom(f, from), normTo(f, to), normAvoid(f, avoid))
}

func reachAvoidingRaw(f *ssa.Function, from ssa.Instruction, to map[ssa.Instruction]bool, avoid map[ssa.Instruction]bool) ssa.Instruction {
	if len(f.Blocks) == 0 {
		return nil
	}
	if from != nil && from.Parent() != f {
		// an instruction of another function that could not be mapped into f: nothing can be said about
		// paths "after" it; be conservative and start from the function entry
		from = nil
	}
	seen := map[*ssa.BasicBlock]bool{}
	type pos struct {
		b *ssa.BasicBlock
		i int
	}
	var work []pos
	if from == nil {
		work = append(work, pos{f.Blocks[0], 0})
	} else {
		work = append(work, pos{from.Block(), instrIndex(from.Block(), from) + 1})
	}
	firstBlock := work[0].b
	firstStart := work[0].i
	for len(work) > 0 {
		p := work[len(work)-1]
		work = work[:len(work)-1]
		if p.i == 0 {
			if seen[p.b] {
				continue
			}
			seen[p.b] = true
		}
		blocked := false
		for i := p.i; i < len(p.b.Instrs); i++ {
			in := p.b.Instrs[i]
			if avoid[in] {
				blocked = true
				break
			}
			if to[in] {
				return in
			}
		}
		if blocked {
			continue
		}
		for _, s := range p.b.Succs {
			if s == firstBlock && firstStart > 0 && !seen[s] {
				// re-entering the start block from its top (loop)
				work = append(work, pos{s, 0})
				continue
			}
			work = append(work, pos{s, 0})
		}
	}
	return nil
}

func instrSet[T ssa.Instruction](xs []T) map[ssa.Instruction]bool {
	m := map[ssa.Instruction]bool{}
	for _, x := range xs {
		m[x] = true
	}
	return m
}

func siteSet(ss []Site) map[ssa.Instruction]bool {
	m := map[ssa.Instruction]bool{}
	for _, s := range ss {
		m[s.Instr] = true
	}
	return m
}

// SuccessReturns returns the Return instructions that may be success returns
// (RetSuccess or RetUnknown).
func SuccessReturns(f *ssa.Function) map[ssa.Instruction]bool {
	m := map[ssa.Instruction]bool{}
	for _, r := range Returns(f) {
		if r.Kind != RetError {
			m[r.Ret] = true
		}
	}
	return m
}

// Precedes: every path from entry to `site` passes through an instruction in `before`.
func PrecededBy(f *ssa.Function, site ssa.Instruction, before map[ssa.Instruction]bool) bool {
	return ReachAvoiding(f, nil, map[ssa.Instruction]bool{site: true}, before) == nil
}

// ---- soft guards ---------------------------------------------------------------

// RefusingFacts: for every If in target's function one of whose edges cannot reach
// `target` while the other can, the fact that holds on the passing edge. This is the
// "there is a check that refuses" shape; weaker than dominance (other paths may bypass
// the check) and used only where the code's own guard is a disjunction.
func RefusingFacts(target ssa.Instruction) []Fact {
	f := target.Parent()
	var out []Fact
	tset := map[ssa.Instruction]bool{target: true}
	reachFrom := func(b *ssa.BasicBlock) bool {
		if len(b.Instrs) == 0 {
			return false
		}
		if b.Instrs[0] == target {
			return true
		}
		// reach from the top of block b
		seen := map[*ssa.BasicBlock]bool{}
		work := []*ssa.BasicBlock{b}
		for len(work) > 0 {
			x := work[len(work)-1]
			work = work[:len(work)-1]
			if seen[x] {
				continue
			}
			seen[x] = true
			for _, in := range x.Instrs {
				if tset[in] {
					return true
				}
			}
			work = append(work, x.Succs...)
		}
		return false
	}
	for _, b := range f.Blocks {
		if len(b.Instrs) == 0 {
			continue
		}
		iff, ok := b.Instrs[len(b.Instrs)-1].(*ssa.If)
		if !ok || b.Succs[0] == b.Succs[1] {
			continue
		}
		r0, r1 := reachFrom(b.Succs[0]), reachFrom(b.Succs[1])
		if r0 == r1 {
			continue
		}
		fa := factOf(iff.Cond, r0)
		fa.If = iff
		fa.Block = b
		out = append(out, fa)
		out = append(out, expandHelperFact(fa, 0)...)
	}
	return out
}

// ---- path-sensitive reachability over boolean φ constants ----------------------

// ReachFromTopPS is ReachFromTop with a light path sensitivity: along each explored path the
// constant values taken by boolean φ-nodes are tracked, and an If whose condition is such a φ
// (possibly negated) only follows the matching successor. This removes the infeasible paths
// created by flag variables (`invalid = true ... if invalid {...}`).
func ReachFromTopPS(f *ssa.Function, start *ssa.BasicBlock, to, avoid map[ssa.Instruction]bool) ssa.Instruction {
	to, avoid = normTo(f, to), normAvoid(f, avoid)
	type state struct {
		b   *ssa.BasicBlock
		env string
	}
	type item struct {
		b    *ssa.BasicBlock
		pred *ssa.BasicBlock
		env  map[ssa.Value]bool
	}
	encode := func(env map[ssa.Value]bool) string {
		var ks []string
		for k, v := range env {
			s := k.Name()
			if v {
				s += "=T"
			} else {
				s += "=F"
			}
			ks = append(ks, s)
		}
		sortStrings(ks)
		out := ""
		for _, k := range ks {
			out += k + ";"
		}
		return out
	}
	seen := map[state]bool{}
	work := []item{{b: start, env: map[ssa.Value]bool{}}}
	steps := 0
	for len(work) > 0 {
		it := work[len(work)-1]
		work = work[:len(work)-1]
		steps++
		if steps > 20000 {
			// give up on precision: fall back to the path-insensitive answer
			return ReachFromTop(f, start, to, avoid)
		}
		env := map[ssa.Value]bool{}
		for k, v := range it.env {
			env[k] = v
		}
		// φ-nodes take the value of the incoming edge
		if it.pred != nil {
			idx := -1
			for i, p := range it.b.Preds {
				if p == it.pred {
					idx = i
				}
			}
			for _, in := range it.b.Instrs {
				phi, ok := in.(*ssa.Phi)
				if !ok {
					break
				}
				delete(env, phi)
				if idx < 0 {
					continue
				}
				e := phi.Edges[idx]
				if bv, ok := boolConst(e); ok {
					env[phi] = bv
				} else if kv, ok := it.env[e]; ok {
					env[phi] = kv
				}
			}
		}
		st := state{it.b, encode(env)}
		if seen[st] {
			continue
		}
		seen[st] = true
		blocked := false
		for _, in := range it.b.Instrs {
			if avoid[in] {
				blocked = true
				break
			}
			if to[in] {
				return in
			}
		}
		if blocked {
			continue
		}
		succs := it.b.Succs
		if iff, ok := it.b.Instrs[len(it.b.Instrs)-1].(*ssa.If); ok && len(succs) == 2 {
			cond := iff.Cond
			neg := false
			for {
				if u, ok := cond.(*ssa.UnOp); ok && u.Op == token.NOT {
					cond = u.X
					neg = !neg
					continue
				}
				break
			}
			if v, ok := env[cond]; ok {
				if neg {
					v = !v
				}
				if v {
					succs = succs[:1]
				} else {
					succs = succs[1:]
				}
			} else if bv, ok := boolConst(cond); ok {
				if neg {
					bv = !bv
				}
				if bv {
					succs = succs[:1]
				} else {
					succs = succs[1:]
				}
			} else {
				// learn the branch condition itself when it is a φ or plain bool value
				for i, s := range succs {
					e2 := map[ssa.Value]bool{}
					for k, v := range env {
						e2[k] = v
					}
					val := i == 0
					if neg {
						val = !val
					}
					if _, isPhi := cond.(*ssa.Phi); isPhi {
						e2[cond] = val
					}
					work = append(work, item{b: s, pred: it.b, env: e2})
				}
				continue
			}
		}
		for _, s := range succs {
			work = append(work, item{b: s, pred: it.b, env: env})
		}
	}
	return nil
}

func sortStrings(s []string) {
	for i := 1; i < len(s); i++ {
		for j := i; j > 0 && s[j] < s[j-1]; j-- {
			s[j], s[j-1] = s[j-1], s[j]
		}
	}
}

// FactsPerPred: for a join block, the facts that hold on each incoming edge
// (facts dominating the predecessor plus the predecessor's own branch edge).
func FactsPerPred(b *ssa.BasicBlock) [][]Fact {
	var out [][]Fact
	for _, p := range b.Preds {
		fs := DomFacts(p)
		if len(p.Instrs) > 0 {
			if iff, ok := p.Instrs[len(p.Instrs)-1].(*ssa.If); ok && p.Succs[0] != p.Succs[1] {
				f := factOf(iff.Cond, p.Succs[0] == b)
				f.If = iff
				f.Block = p
				fs = append(fs, f)
				fs = append(fs, expandHelperFact(f, 0)...)
			}
		}
		out = append(out, fs)
	}
	return out
}
