package main
