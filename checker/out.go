package main

// out.go — obligations, per-property results, evidence and known findings.

import (
	"crypto/sha256"
	"encoding/hex"
	"encoding/json"
	"fmt"
	"os"
	"path/filepath"
	"sort"
	"strings"
)

type Obligation struct {
	Rule    string   `json:"rule"`
	Key     string   `json:"key"` // rule + construct, line-free
	OK      bool     `json:"ok"`
	Pos     string   `json:"pos,omitempty"`
	Detail  string   `json:"detail,omitempty"`
	Witness []string `json:"witness,omitempty"`
	Note    bool     `json:"note,omitempty"` // informational (dormant etc.), never a verdict
}

type Result struct {
	Property    string            `json:"property"`
	Obligations []Obligation      `json:"obligations"`
	Unresolved  []string          `json:"unresolved,omitempty"`
	Counts      map[string]int    `json:"counts,omitempty"` // measured instance counts
	Floors      map[string]int    `json:"floors,omitempty"` // hand-confirmed minimum counts
	Rules       map[string]string `json:"rules,omitempty"`  // rule id -> statement
	Analysed    []string          `json:"analysed,omitempty"`
	Panic       string            `json:"panic,omitempty"`
}

type Out struct {
	R    *Result
	w    *World
	seen map[string]bool
	fns  map[string]bool
}

func newOut(w *World, prop string) *Out {
	return &Out{R: &Result{Property: prop, Counts: map[string]int{}, Floors: map[string]int{}, Rules: map[string]string{}},
		w: w, seen: map[string]bool{}, fns: map[string]bool{}}
}

func (o *Out) Rule(id, text string) { o.R.Rules[id] = text }

func (o *Out) Unresolved(what string) {
	o.R.Unresolved = append(o.R.Unresolved, what)
}

func (o *Out) add(ob Obligation) {
	k := ob.Key
	if o.seen[k] {
		// same construct reported twice: keep the failing one
		for i := range o.R.Obligations {
			if o.R.Obligations[i].Key == k {
				if !ob.OK && o.R.Obligations[i].OK {
					o.R.Obligations[i] = ob
				}
				return
			}
		}
	}
	o.seen[k] = true
	o.R.Obligations = append(o.R.Obligations, ob)
}

// Check records an obligation. key must identify rule+construct without line numbers.
func (o *Out) Check(rule, key string, ok bool, pos string, detail string, witness ...string) bool {
	o.add(Obligation{Rule: rule, Key: rule + "|" + key, OK: ok, Pos: pos, Detail: detail, Witness: witness})
	return ok
}

func (o *Out) Pass(rule, key, pos, detail string) { o.Check(rule, key, true, pos, detail) }
func (o *Out) Fail(rule, key, pos, detail string, witness ...string) {
	o.Check(rule, key, false, pos, detail, witness...)
}
func (o *Out) Note(rule, key, pos, detail string) {
	o.add(Obligation{Rule: rule, Key: rule + "|" + key, OK: true, Pos: pos, Detail: detail, Note: true})
}

// Count records a measured instance count with a hand-confirmed floor.
func (o *Out) Count(name string, n, floor int) {
	o.R.Counts[name] = n
	o.R.Floors[name] = floor
}

func (o *Out) Analysed(fnKey string) {
	if !o.fns[fnKey] {
		o.fns[fnKey] = true
		o.R.Analysed = append(o.R.Analysed, fnKey)
	}
}

// ---- known findings ------------------------------------------------------------

type KnownFinding struct {
	Property string `json:"property"`
	Key      string `json:"key"`    // obligation key (rule|construct)
	Status   string `json:"status"` // "known" | "fixed"
	Commit   string `json:"commit,omitempty"`
	What     string `json:"what"`
}

func loadKnown(path string) ([]KnownFinding, error) {
	b, err := os.ReadFile(path)
	if err != nil {
		if os.IsNotExist(err) {
			return nil, nil
		}
		return nil, err
	}
	var kf []KnownFinding
	if err := json.Unmarshal(b, &kf); err != nil {
		return nil, err
	}
	return kf, nil
}

// ---- verdict + evidence --------------------------------------------------------

type Verdict struct {
	Violations []Obligation
	Known      []Obligation
	KnownWhat  map[string]string
	Broken     []string // machinery failures (unresolved anchors, count below floor, panic)
}

func judge(r *Result, known []KnownFinding) Verdict {
	v := Verdict{KnownWhat: map[string]string{}}
	kn := map[string]string{}
	for _, k := range known {
		if k.Property == r.Property && k.Status == "known" {
			kn[k.Key] = k.What
		}
	}
	for _, ob := range r.Obligations {
		if ob.OK || ob.Note {
			continue
		}
		if what, ok := kn[ob.Key]; ok {
			v.Known = append(v.Known, ob)
			v.KnownWhat[ob.Key] = what
		} else {
			v.Violations = append(v.Violations, ob)
		}
	}
	for _, u := range r.Unresolved {
		v.Broken = append(v.Broken, "anchor unresolved: "+u)
	}
	var names []string
	for n := range r.Floors {
		names = append(names, n)
	}
	sort.Strings(names)
	for _, n := range names {
		if r.Counts[n] < r.Floors[n] {
			v.Broken = append(v.Broken, fmt.Sprintf("instance count %s=%d below confirmed floor %d (rule would pass vacuously)", n, r.Counts[n], r.Floors[n]))
		}
	}
	if r.Panic != "" {
		v.Broken = append(v.Broken, "analyser panic: "+r.Panic)
	}
	return v
}

func shortHash(s string) string {
	h := sha256.Sum256([]byte(s))
	return hex.EncodeToString(h[:6])
}

type evidenceMeta struct {
	Tier      string
	Seed      int
	WallS     float64
	TreeHash  string
	Packages  int
	ProdFuncs int
	CacheHit  bool
	CGMode    string
	Extra     map[string]any
}

func writeEvidence(verifDir string, r *Result, v Verdict, m evidenceMeta) (string, error) {
	total, ok := 0, 0
	byRule := map[string][2]int{}
	var samples []any
	var failing []any
	for _, ob := range r.Obligations {
		if ob.Note {
			continue
		}
		total++
		c := byRule[ob.Rule]
		c[0]++
		if ob.OK {
			ok++
			c[1]++
		}
		byRule[ob.Rule] = c
	}
	// samples: first two obligations of each rule + every failing one
	perRule := map[string]int{}
	for _, ob := range r.Obligations {
		if !ob.OK {
			failing = append(failing, ob)
			continue
		}
		if perRule[ob.Rule] < 2 {
			perRule[ob.Rule]++
			samples = append(samples, ob)
		}
	}
	var notes []any
	for _, ob := range r.Obligations {
		if ob.Note {
			notes = append(notes, ob)
		}
	}
	ruleStats := map[string]any{}
	for k, c := range byRule {
		ruleStats[k] = map[string]int{"obligations": c[0], "discharged": c[1]}
	}
	var ruleIDs []string
	for id := range r.Rules {
		ruleIDs = append(ruleIDs, id)
	}
	sort.Strings(ruleIDs)
	var expl []string
	for _, id := range ruleIDs {
		expl = append(expl, id+": "+r.Rules[id])
	}
	var knownList []any
	for _, ob := range v.Known {
		knownList = append(knownList, map[string]any{"key": ob.Key, "pos": ob.Pos, "what": v.KnownWhat[ob.Key]})
	}
	cov := map[string]any{
		"explanation":          "Static analysis of /repo's current source (type-checked AST + go/ssa + dominators + VTA call graph, module-restricted); nothing in /repo is executed. Each obligation is one rule instance (rule|construct) decided for every path / caller the rule quantifies over. Rules: " + strings.Join(expl, " || "),
		"obligations":          total,
		"discharged":           ok,
		"evaluations":          total,
		"distinct_nontrivial":  total,
		"rule":                 "one obligation per rule instance keyed by rule+resolved construct (function, callee, field); distinct by key; non-trivial = the rule matched a real construct in /repo (anchors that do not resolve fail the check)",
		"samples":              append(samples, failing...),
		"per_rule":             ruleStats,
		"instance_counts":      r.Counts,
		"instance_floors":      r.Floors,
		"functions_analysed":   len(r.Analysed),
		"functions":            r.Analysed,
		"packages":             m.Packages,
		"production_functions": m.ProdFuncs,
		"callgraph":            m.CGMode,
		"tree_hash":            m.TreeHash,
		"cache_hit":            m.CacheHit,
		"known_findings":       knownList,
		"notes":                notes,
		"machinery_failures":   v.Broken,
		"checker_cmd":          "bin/palomacheck -property " + r.Property + " -tier " + m.Tier,
		"trusted_base":         []string{"go/types", "golang.org/x/tools v0.29.0 go/packages, go/ssa, callgraph/vta+cha", "summary tables for SDK / go-ethereum APIs in the checker source"},
		"exhaustive":           true,
	}
	for k, val := range m.Extra {
		cov[k] = val
	}
	ev := map[string]any{
		"property_id": r.Property,
		"tier":        m.Tier,
		"seed":        m.Seed,
		"level":       "other",
		"coverage":    cov,
		"assumptions": []string{
			"no reflection / unsafe / linkname path reaches module state outside what the call graph sees",
			"SDK baseapp reverts the state of a failed transaction; bank keeper calls are atomic",
			"the legacy gov router only executes proposals that passed governance",
			"summary tables (which external calls panic, write state, are nondeterministic) are complete for the APIs used in the module",
		},
		"wall_s":     m.WallS,
		"violations": len(v.Violations) + len(v.Broken),
	}
	dir := filepath.Join(verifDir, "evidence")
	os.MkdirAll(dir, 0o755)
	p := filepath.Join(dir, r.Property+".json")
	b, _ := json.MarshalIndent(ev, "", " ")
	return p, os.WriteFile(p, b, 0o644)
}
