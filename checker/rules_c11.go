package main

// C11 — votes are pooled only for claims identical in every effect-bearing field.

import (
	"fmt"
	"go/constant"
	"go/types"
	"os"
	"regexp"
	"sort"
	"strings"

	"golang.org/x/tools/go/ssa"
)

func init() { register("C11", rulesC11) }

func isGeneratedFile(w *World, f *ssa.Function) bool {
	name := w.Fset.Position(TopFunc(f).Pos()).Filename
	return strings.HasSuffix(name, ".pb.go") || strings.HasSuffix(name, ".pb.gw.go")
}

// fieldsRead: fields of struct type T that production, non-generated code reads (field loads or
// generated getters called from hand-written code), with one witness position each.
// excl filters out functions whose reads do not count (the hash function itself, validation, identity).
func (w *World) fieldsRead(T *types.Named, excl func(*ssa.Function) bool) map[string]string {
	out := map[string]string{}
	isT := func(t types.Type) bool {
		n := namedOf(t)
		return n != nil && n.Origin().Obj() == T.Origin().Obj()
	}
	for _, f := range w.ProdFuncs {
		if isGeneratedFile(w, f) || excl(TopFunc(f)) {
			continue
		}
		for _, b := range f.Blocks {
			for _, in := range b.Instrs {
				switch x := in.(type) {
				case *ssa.FieldAddr:
					if !isT(x.X.Type()) {
						continue
					}
					read := false
					for _, r := range *x.Referrers() {
						if st, ok := r.(*ssa.Store); ok && st.Addr == ssa.Value(x) {
							continue
						}
						if _, ok := r.(*ssa.DebugRef); ok {
							continue
						}
						read = true
					}
					// composite literals of T only write
					if al, ok := x.X.(*ssa.Alloc); ok && read {
						_ = al
					}
					if read {
						n := fieldName(x.X.Type(), x.Field)
						if _, ok := out[n]; !ok {
							out[n] = w.Pos(x.Pos()) + " in " + w.FuncKey(f)
						}
					}
				case *ssa.Field:
					if isT(x.X.Type()) {
						n := fieldName(x.X.Type(), x.Field)
						if _, ok := out[n]; !ok {
							out[n] = w.Pos(x.Pos()) + " in " + w.FuncKey(f)
						}
					}
				case ssa.CallInstruction:
					c, ok := CalleeOf(x.Common())
					if !ok {
						continue
					}
					fld := getterField(c)
					if fld == "" {
						continue
					}
					// receiver static type T, or interface method implemented by T's generated getter
					var recv ssa.Value
					if x.Common().IsInvoke() {
						recv = x.Common().Value
					} else if len(x.Common().Args) > 0 {
						recv = x.Common().Args[0]
					}
					if recv == nil {
						continue
					}
					match := isT(recv.Type())
					if !match && x.Common().IsInvoke() {
						// interface call: counts for T when T implements the interface and has that field
						if it, ok := recv.Type().Underlying().(*types.Interface); ok {
							if types.Implements(types.NewPointer(T), it) || types.Implements(T, it) {
								if st, ok := T.Underlying().(*types.Struct); ok {
									for i := 0; i < st.NumFields(); i++ {
										if st.Field(i).Name() == fld {
											match = true
										}
									}
								}
							}
						}
					}
					if match {
						if _, ok := out[fld]; !ok {
							out[fld] = w.Pos(x.Pos()) + " in " + w.FuncKey(f)
						}
					}
				}
			}
		}
	}
	return out
}

// hashedFields: fields of the receiver influencing result 0 of fn.
func hashedFields(fl *Flow, fn *ssa.Function) map[string]bool {
	out := map[string]bool{}
	for _, r := range Returns(fn) {
		if len(r.Ret.Results) == 0 {
			continue
		}
		aps, _ := fl.Influence(r.Ret.Results[0])
		for a := range aps {
			if p, ok := a.Root.(*ssa.Parameter); ok && p == fn.Params[0] && a.Path != "" {
				f := strings.TrimPrefix(a.Path, ".")
				if i := strings.IndexAny(f, ".["); i >= 0 {
					f = f[:i]
				}
				out[f] = true
			}
		}
	}
	return out
}

func rulesC11(w *World, o *Out) {
	fl := NewFlow(w)
	o.Rule("C11.R1", "for every implementor of the bridge-claim interface: each field that hand-written production code reads (outside the hash, validation and voter-identity functions) influences the claim hash, is the voter's identity / tx metadata, or is bound through the attestation store prefix (chain)")
	o.Rule("C11.R2", "claim fields are never assigned outside generated code and the identity setter, so the hashed body is the stored and executed body")
	o.Rule("C11.R3", "the attestation is stored and loaded under GetStore(chain reference id) + key(nonce, claim hash)")

	ecT := w.Type("x/skyway/types", "EthereumClaim")
	if ecT == nil {
		o.Unresolved("x/skyway/types.EthereumClaim")
		return
	}
	iface := ecT.Underlying().(*types.Interface)
	var impls []*types.Named
	for _, t := range w.implementorsOf(iface) {
		if n := namedOf(t); n != nil && strings.HasSuffix(n.Obj().Pkg().Path(), "x/skyway/types") {
			impls = append(impls, n)
		}
	}
	sort.Slice(impls, func(i, j int) bool { return impls[i].Obj().Name() < impls[j].Obj().Name() })
	o.Count("C11 claim types (EthereumClaim implementors)", len(impls), 3)
	excl := func(f *ssa.Function) bool {
		switch f.Name() {
		case "ClaimHash", "ValidateBasic", "GetClaimer", "GetSigners", "SetOrchestrator", "String", "GetSignBytes", "Route", "Type":
			return f.Signature.Recv() != nil
		}
		return false
	}
	nFmt := 0
	defer func() { o.Count("C11.R1 claim hash formats read (no floor: a hash built by joining with a separator has no format to read)", nFmt, 0) }()
	for _, T := range impls {
		name := T.Obj().Name()
		ch := w.Func("x/skyway/types", name, "ClaimHash")
		if ch == nil || len(ch.Blocks) == 0 {
			o.Unresolved("ClaimHash of " + name)
			continue
		}
		o.Analysed(w.FuncKey(ch))
		H := hashedFields(fl, ch)
		// the hashed bytes must distinguish the field values: no normalising function on the way
		lossy := ""
		for _, r := range Returns(ch) {
			if len(r.Ret.Results) == 0 {
				continue
			}
			if c := fl.DependsOnCall(r.Ret.Results[0], isLossyStringFunc); c != nil {
				if cal, okc := CalleeOf(c.Common()); okc {
					lossy = cal.String()
				}
			}
		}
		// allow-list form of the same rule: between the claim's fields and the hash only formatting and
		// injective encodings (fmt, strconv, String() of sdk number/coin types, the hash itself)
		if lossy == "" {
			for _, r := range Returns(ch) {
				if len(r.Ret.Results) == 0 {
					continue
				}
				_, calls := fl.Influence(r.Ret.Results[0])
				var odd []string
				for c := range calls {
					cal, okc := CalleeOf(c.Common())
					if !okc {
						continue
					}
					if os.Getenv("PCDUMP") == "claimhashcalls" {
						fmt.Fprintf(os.Stderr, "CLAIMHASHCALL %s %s\n", name, cal.String())
					}
					if !claimHashFormatter(cal) {
						odd = append(odd, cal.String())
					}
				}
				sort.Strings(odd)
				if len(odd) > 0 {
					lossy = strings.Join(odd, ", ")
				}
			}
		}
		o.Check("C11.R1", name+"|hash input is not normalised", lossy == "", w.Pos(ch.Pos()),
			"the claim hash passes the field values through "+lossy+", which maps different values to the same bytes (dropped / cleaned elements, case folding, trimming): claims that differ in a free-form field are pooled into one attestation")
		// ... and keep the fields apart: two verbs of the format that touch let the end of one value run into
		// the start of the next (amount 10 + "0x5A.." and amount 100 + "x5A.." give the same bytes)
		for _, s := range FindCalls(ch, false, isCallee("fmt", "", "Sprintf")) {
			nFmt++
			c, isConst := s.Args()[0].(*ssa.Const)
			glued := ""
			if isConst && c.Value != nil && c.Value.Kind() == constant.String {
				glued = adjacentVerbs.FindString(strings.ReplaceAll(constant.StringVal(c.Value), "%%", ""))
			}
			o.Check("C11.R1", name+"|hashed fields are separated", isConst && glued == "", w.Pos(s.Instr.Pos()),
				"the format of the hashed text puts two values next to each other without a separator ("+glued+"): claims whose adjacent fields split differently share a hash and are pooled")
		}
		// ... which only works while a field next to a free-form one cannot itself contain the separator: the
		// hashed fields that validation restricts to an Ethereum address on the reference tree (table confirmed
		// by reading) stay restricted on every accepting path of ValidateBasic
		for _, fld := range claimAddressFields[name] {
			vb := w.Func("x/skyway/types", name, "ValidateBasic")
			okV := false
			if vb != nil && len(vb.Blocks) > 0 {
				for _, s := range FindCalls(vb, false, isCallee("x/skyway/types", "", "ValidateEthAddress")) {
					aps, _ := fl.Influence(s.Args()[0])
					hit := false
					for a := range aps {
						if a.Path == "."+fld {
							hit = true
						}
					}
					if !hit {
						continue
					}
					okV = true
					for _, r := range Returns(vb) {
						if r.Kind == RetError {
							continue
						}
						held := false
						for _, f := range FactsAt(r.Ret) {
							if f.Kind == FNil && canon(f.V) == ssa.Value(s.Instr.(*ssa.Call)) {
								held = true
							}
						}
						if !held {
							okV = false
						}
					}
				}
			}
			o.Check("C11.R1", name+"|hashed field "+fld+" admits no separator", okV, w.Pos(ch.Pos()),
				"the hashed text keeps fields apart with '/': "+fld+" sits next to a free-form field and must be refused by ValidateBasic unless it is an Ethereum address, otherwise two accepted claims that split the same text differently share a hash")
		}
		R := w.fieldsRead(T, excl)
		var rk []string
		for k := range R {
			rk = append(rk, k)
		}
		sort.Strings(rk)
		o.Count("C11.R1 "+name+" fields read by production code", len(rk), 4)
		for _, f := range rk {
			switch f {
			case "Orchestrator", "Metadata":
				o.Pass("C11.R1", name+"|field "+f, R[f], "voter identity / transaction metadata (excluded by the property)")
				continue
			case "ChainReferenceId":
				o.Pass("C11.R1", name+"|field "+f, R[f], "bound through the attestation store prefix (R3)")
				continue
			}
			o.Check("C11.R1", name+"|field "+f+" is hashed", H[f], R[f], "read at "+R[f]+" but does not influence ClaimHash; hashed fields: "+strings.Join(keys(H), ","))
		}
		// R2: no hand-written store into claim fields
		for _, f := range w.ProdFuncs {
			if isGeneratedFile(w, f) {
				continue
			}
			tf := TopFunc(f)
			if tf.Name() == "SetOrchestrator" {
				continue
			}
			st, ok := T.Underlying().(*types.Struct)
			if !ok {
				continue
			}
			for i := 0; i < st.NumFields(); i++ {
				for _, s := range storesToField(f, name, st.Field(i).Name()) {
					if s.Parent() != f {
						continue
					}
					if _, isAlloc := baseOf(s.Addr).(*ssa.Alloc); isAlloc {
						continue // building a fresh value (composite literal)
					}
					o.Fail("C11.R2", name+"|field "+st.Field(i).Name()+" assigned in "+w.FuncKey(f), w.Pos(s.Pos()),
						"a claim field is modified after the claim was received; the packed body that is stored and later executed can then differ from the hashed one")
				}
			}
		}
		o.Pass("C11.R2", name+"|no assignments to claim fields outside generated code", w.Pos(ch.Pos()), "checked all production functions")
	}
	// R3: store prefix and key
	for _, fn := range []string{"SetAttestation", "GetAttestation"} {
		f := w.MustFunc(o, skw, "Keeper", fn)
		if f == nil {
			continue
		}
		o.Analysed(w.FuncKey(f))
		gs := FindCalls(f, false, isCallee(skw, "Keeper", "GetStore"))
		okS := false
		for _, s := range gs {
			args := s.Args()
			if p, ok := canon(args[len(args)-1]).(*ssa.Parameter); ok && p.Name() == "chainReferenceID" {
				okS = true
			}
		}
		gk := FindCalls(f, false, isCallee("x/skyway/types", "", "GetAttestationKey"))
		okK := false
		for _, s := range gk {
			args := s.Args()
			if len(args) == 2 {
				p0, ok0 := canon(args[0]).(*ssa.Parameter)
				p1, ok1 := canon(args[1]).(*ssa.Parameter)
				if ok0 && ok1 && p0.Name() == "eventNonce" && p1.Name() == "claimHash" {
					okK = true
				}
			}
		}
		o.Check("C11.R3", fn+"|store prefixed by chain, keyed by nonce and claim hash", okS && okK, w.Pos(f.Pos()), "attestations must live under GetStore(chainReferenceID) at GetAttestationKey(nonce, hash)")
		if fn == "GetAttestation" {
			// exact lookup: the attestation handed back is the record stored under exactly that key (a range
			// seek would hand a vote for one claim the attestation of another claim at the same nonce)
			um := FindCalls(f, false, func(c Callee) bool { return c.Name == "MustUnmarshal" || c.Name == "Unmarshal" })
			o.Count("C11.R3 decode sites in GetAttestation", len(um), 1)
			for _, u := range um {
				okX := false
				if len(u.Args()) >= 2 {
					if g, isG := canon(u.Args()[len(u.Args())-2]).(*ssa.Call); isG {
						if cal, okc := CalleeOf(g.Common()); okc && cal.Name == "Get" && len(g.Call.Args) >= 1 {
							for _, k := range gk {
								if canon(g.Call.Args[len(g.Call.Args)-1]) == ssa.Value(k.Value()) {
									okX = true
								}
							}
						}
					}
				}
				o.Check("C11.R3", "GetAttestation|returns the record stored under exactly the key asked for", okX, w.Pos(u.Instr.Pos()), "the decoded bytes must be store.Get(GetAttestationKey(eventNonce, claimHash)); an iterator positioned at that key yields the next attestation of the nonce when the exact one does not exist")
			}
		}
	}
	// callers pass the claim's own chain / nonce / hash
	for _, fn := range []string{"Attest", "TryAttestation"} {
		f := w.MustFunc(o, skw, "Keeper", fn)
		if f == nil {
			continue
		}
		for _, s := range FindCalls(f, false, func(c Callee) bool {
			return c.Is(skw, "Keeper", "SetAttestation") || c.Is(skw, "Keeper", "GetAttestation")
		}) {
			args := s.Args()
			ok := len(args) >= 5 &&
				fl.DependsOnCall(args[2], isCallee("", "", "GetChainReferenceId")) != nil &&
				fl.DependsOnCall(args[3], isCallee("", "", "GetSkywayNonce")) != nil &&
				fl.DependsOnCall(args[4], isCallee("", "", "ClaimHash")) != nil
			o.Check("C11.R3", fn+"|"+s.Callee.Name+" addressed by the claim's chain, nonce and hash", ok, w.Pos(s.Instr.Pos()), "arguments must be claim.GetChainReferenceId(), claim.GetSkywayNonce(), claim.ClaimHash()")
		}
	}
	gak := w.MustFunc(o, "x/skyway/types", "", "GetAttestationKey")
	if gak != nil {
		for _, r := range Returns(gak) {
			aps, _ := fl.Influence(r.Ret.Results[0])
			n := 0
			for a := range aps {
				if p, ok := a.Root.(*ssa.Parameter); ok && p.Parent() == gak {
					n++
				}
			}
			o.Check("C11.R3", "GetAttestationKey|key depends on nonce and hash", len(aps.ParamPaths(gak.Params[0].Name())) > 0 && len(aps.ParamPaths(gak.Params[1].Name())) > 0, w.Pos(r.Ret.Pos()), "both parameters must influence the key")
		}
	}
}

// isLossyStringFunc: standard-library functions that map distinct inputs to equal outputs.
func isLossyStringFunc(c Callee) bool {
	switch c.Pkg {
	case "path", "path/filepath":
		return true
	case "strings", "bytes":
		switch c.Name {
		case "TrimSpace", "Trim", "TrimLeft", "TrimRight", "TrimPrefix", "TrimSuffix", "TrimFunc", "ToLower", "ToUpper", "ToTitle", "Title",
			"Replace", "ReplaceAll", "Fields", "FieldsFunc", "Map", "ToValidUTF8", "EqualFold":
			return true
		}
	case "unicode", "golang.org/x/text/cases", "golang.org/x/text/unicode/norm":
		return true
	}
	return false
}

// claimHashFormatter: the functions through which claim fields may reach the claim hash (formatting and
// injective encodings only; the list is what the claim types use today, confirmed by reading).
func claimHashFormatter(c Callee) bool {
	if c.Static != nil && isNewHelper(c.Static) {
		return true // a helper introduced later: the calls it makes are judged themselves
	}
	if (c.Pkg == "strings" || c.Pkg == "bytes") && (c.Name == "Join" || c.Recv == "Builder" || c.Recv == "Buffer") {
		return true
	}
	switch c.Pkg {
	case "fmt", "strconv", "encoding/binary", "encoding/hex", "github.com/cometbft/cometbft/crypto/tmhash", "crypto/sha256":
		return true
	}
	if c.Name == "String" && (c.Pkg == "cosmossdk.io/math" || c.Pkg == "github.com/cosmos/cosmos-sdk/types") {
		return true // String() of sdk number / coin types
	}
	if strings.HasPrefix(c.Name, "Get") && strings.HasSuffix(c.Pkg, "/x/skyway/types") && strings.HasSuffix(c.Recv, "Claim") {
		return true // generated getters of the claim itself
	}
	return false
}

var adjacentVerbs = regexp.MustCompile(`%[-+# 0-9.]*[a-zA-Z]%[-+# 0-9.]*[a-zA-Z]`)

// claimAddressFields: hashed string fields of the claim types that ValidateBasic restricts to an Ethereum
// address on the reference tree.
var claimAddressFields = map[string][]string{
	"MsgSendToPalomaClaim":      {"EthereumSender", "TokenContract"},
	"MsgBatchSendToRemoteClaim": {"TokenContract"},
	"MsgBatchSendToEthClaim":    {"TokenContract"},
}
