package main

// C08 — state transitions are a deterministic function of chain history.

import (
	"go/token"
	"go/types"
	"sort"
	"strings"

	"golang.org/x/tools/go/ssa"
)

func init() { register("C08", rulesC08) }

// mapRanges lists `range` loops over maps in production code.
func (w *World) mapRanges() []*ssa.Range {
	var out []*ssa.Range
	for _, f := range w.ProdFuncs {
		for _, b := range f.Blocks {
			for _, in := range b.Instrs {
				if r, ok := in.(*ssa.Range); ok {
					if _, isMap := r.X.Type().Underlying().(*types.Map); isMap {
						out = append(out, r)
					}
				}
			}
		}
	}
	return out
}

// T3: external nondeterminism sources.
func nondetSource(c Callee) string {
	switch c.Pkg {
	case "os":
		switch c.Name {
		case "Getenv", "LookupEnv", "Environ", "Hostname", "Getpid", "Getwd", "ReadFile", "Open", "Stat", "UserHomeDir", "Executable", "Args":
			return "process environment (os." + c.Name + ")"
		}
	case "time":
		switch c.Name {
		case "Now", "Since", "Until", "After", "Sleep", "Tick", "NewTimer", "NewTicker", "AfterFunc":
			return "wall clock (time." + c.Name + ")"
		}
	case "context":
		switch c.Name {
		case "WithTimeout", "WithDeadline", "WithTimeoutCause", "WithDeadlineCause":
			return "wall clock (context." + c.Name + ": the deadline is measured on the node's clock)"
		}
	case "math/rand", "math/rand/v2", "crypto/rand":
		return "randomness (" + c.Pkg + "." + c.Name + ")"
	case "runtime":
		switch c.Name {
		case "NumGoroutine", "GC", "NumCPU", "ReadMemStats", "GOMAXPROCS":
			return "runtime state (runtime." + c.Name + ")"
		}
	case "github.com/google/uuid":
		return "randomness (uuid." + c.Name + ")"
	}
	return ""
}

// T2: logging / telemetry sinks.
func isLoggingCallee(c Callee) bool {
	if c.Pkg == modPath+"/util/liblog" || c.Pkg == "cosmossdk.io/log" || c.Pkg == "github.com/cosmos/cosmos-sdk/telemetry" ||
		c.Pkg == "github.com/hashicorp/go-metrics" || c.Pkg == "log" {
		return true
	}
	if c.Recv == "Logger" && (c.Name == "Info" || c.Name == "Debug" || c.Name == "Error" || c.Name == "Warn" || c.Name == "With") {
		return true
	}
	return false
}

// isLoggingValue: a function value that can only be a logging method value.
func isLoggingValue(v ssa.Value, depth int) bool {
	if depth > 6 {
		return false
	}
	switch x := canon(v).(type) {
	case *ssa.MakeClosure:
		fn := x.Fn.(*ssa.Function)
		if obj, ok := fn.Object().(*types.Func); ok {
			return isLoggingCallee(calleeOfFunc(obj))
		}
	case *ssa.Phi:
		for _, e := range x.Edges {
			if c, ok := e.(*ssa.Const); ok && c.Value == nil {
				continue
			}
			if !isLoggingValue(e, depth+1) {
				return false
			}
		}
		return len(x.Edges) > 0
	case *ssa.UnOp:
		if x.Op == token.MUL {
			if a, ok := x.X.(*ssa.Alloc); ok {
				vals, _ := reachingStores(a, x)
				if len(vals) == 0 {
					return false
				}
				for _, sv := range vals {
					if !isLoggingValue(sv, depth+1) {
						return false
					}
				}
				return true
			}
		}
	}
	return false
}

// usedOnlyForLogging: every use of a nondeterministic value either feeds a logging call or
// controls a branch whose exclusive region contains only logging (no return, no other call).
func usedOnlyForLogging(v ssa.Value, seen map[ssa.Value]bool) (bool, string) {
	if seen[v] {
		return true, ""
	}
	seen[v] = true
	refs := v.Referrers()
	if refs == nil {
		return true, ""
	}
	for _, r := range *refs {
		switch u := r.(type) {
		case *ssa.DebugRef:
		case *ssa.Extract, *ssa.UnOp, *ssa.BinOp, *ssa.Convert, *ssa.ChangeType, *ssa.MakeInterface, *ssa.Phi, *ssa.Slice, *ssa.Field:
			if ok, why := usedOnlyForLogging(u.(ssa.Value), seen); !ok {
				return false, why
			}
		case ssa.CallInstruction:
			c, ok := CalleeOf(u.Common())
			if ok && (isLoggingCallee(c) || c.Pkg == "time" || c.Pkg == "fmt") {
				if val, isVal := u.(ssa.Value); isVal && c.Pkg != modPath+"/util/liblog" {
					if ok2, why := usedOnlyForLogging(val, seen); !ok2 {
						return false, why
					}
				}
				continue
			}
			return false, "flows into call " + c.String()
		case *ssa.If:
			// the branch region exclusive to each edge may only log
			blk := u.Block()
			for _, s := range blk.Succs {
				if ok, why := regionOnlyLogs(blk, s); !ok {
					return false, why
				}
			}
		case *ssa.Store:
			if a, ok := u.Addr.(*ssa.Alloc); ok {
				for _, r2 := range *a.Referrers() {
					if ld, ok := r2.(*ssa.UnOp); ok && ld.Op == token.MUL {
						if ok2, why := usedOnlyForLogging(ld, seen); !ok2 {
							return false, why
						}
					}
				}
				continue
			}
			return false, "stored to memory"
		case *ssa.Return:
			// a predicate / getter whose call sites are all visible: the value is used where it is returned to
			h := u.Parent()
			if h != nil && !ctxEscapes[h] && len(ctxSites[h]) > 0 && len(u.Results) == 1 {
				for _, cs := range ctxSites[h] {
					cv, isVal := cs.(ssa.Value)
					if !isVal {
						return false, "returned to the caller"
					}
					if ok2, why := usedOnlyForLogging(cv, seen); !ok2 {
						return false, why + " (through " + h.Name() + ")"
					}
				}
				continue
			}
			return false, "returned to the caller"
		default:
			return false, "used by " + strings.TrimPrefix(strings.TrimPrefix(typeName(r), "*ssa."), "ssa.")
		}
	}
	return true, ""
}

func typeName(x any) string {
	switch x.(type) {
	case *ssa.MapUpdate:
		return "MapUpdate"
	case *ssa.Send:
		return "Send"
	case *ssa.Jump:
		return "Jump"
	case *ssa.Panic:
		return "Panic"
	}
	return "instruction"
}

// regionOnlyLogs: blocks dominated by edge (from→s) and not shared with the other edge contain only logging.
func regionOnlyLogs(from, s *ssa.BasicBlock) (bool, string) {
	if len(s.Preds) != 1 {
		return true, "" // join point: nothing exclusive to this edge
	}
	var visit func(b *ssa.BasicBlock, seen map[*ssa.BasicBlock]bool) (bool, string)
	visit = func(b *ssa.BasicBlock, seen map[*ssa.BasicBlock]bool) (bool, string) {
		if seen[b] || !s.Dominates(b) {
			return true, ""
		}
		seen[b] = true
		for _, in := range b.Instrs {
			switch x := in.(type) {
			case *ssa.Return:
				return false, "a branch decided by the value returns"
			case *ssa.Panic:
				return false, "a branch decided by the value panics"
			case *ssa.Store, *ssa.MapUpdate, *ssa.Send, *ssa.Go, *ssa.Defer:
				return false, "a branch decided by the value has side effects"
			case *ssa.Call:
				c, ok := CalleeOf(x.Common())
				if ok && (isLoggingCallee(c) || c.Pkg == "fmt" || c.Pkg == "builtin" || isPureValueCallee(c)) {
					continue
				}
				if !ok && isLoggingValue(x.Common().Value, 0) {
					continue
				}
				// a helper (of the module) that itself does nothing but build arguments and log
				if h := x.Common().StaticCallee(); h != nil && onlyLogsFn(h, 0) {
					continue
				}
				return false, "a branch decided by the value calls " + c.String()
			}
		}
		for _, n := range b.Succs {
			if ok, why := visit(n, seen); !ok {
				return false, why
			}
		}
		return true, ""
	}
	return visit(s, map[*ssa.BasicBlock]bool{})
}

var onlyLogsMemo = map[*ssa.Function]int{}

// onlyLogsFn: a module function whose body only reads its arguments, builds local values and calls
// logging / formatting functions (or other such helpers): calling it under a condition has no effect on
// state or on the caller's result beyond what logging has.
func onlyLogsFn(h *ssa.Function, depth int) bool {
	if h == nil || h.Blocks == nil || depth > 3 || !strings.HasPrefix(funcPkgPath(h), modPath) || strings.Contains(funcPkgPath(h), "/util/liblog") {
		return false
	}
	if m, ok := onlyLogsMemo[h]; ok {
		return m == 1
	}
	onlyLogsMemo[h] = 2
	ok := true
	for _, g := range WithAnon(h) {
		for _, b := range g.Blocks {
			for _, in := range b.Instrs {
				switch x := in.(type) {
				case *ssa.Panic, *ssa.MapUpdate, *ssa.Send, *ssa.Go, *ssa.Defer:
					ok = false
				case *ssa.Store:
					if _, local := baseOf(x.Addr).(*ssa.Alloc); !local {
						ok = false
					}
				case *ssa.Call:
					c, okc := CalleeOf(x.Common())
					switch {
					case okc && (isLoggingCallee(c) || c.Pkg == "fmt" || c.Pkg == "builtin" || c.Pkg == "strings" || c.Pkg == "strconv" || isPureValueCallee(c)):
					case !okc && isLoggingValue(x.Common().Value, 0):
					case okc && (c.Name == "UnwrapSDKContext" || c.Name == "Logger"):
						// getting hold of the logger
					case !okc && loggerPickedByHelper(x.Common().Value, depth):
						// a log function chosen by a helper that itself only picks among logger methods
					case x.Common().StaticCallee() != nil && onlyLogsFn(x.Common().StaticCallee(), depth+1):
					case okc && strings.HasPrefix(c.Name, "Get") && len(x.Common().Args) <= 1:
						// generated getters
					default:
						ok = false
					}
				}
			}
		}
	}
	if ok {
		onlyLogsMemo[h] = 1
	}
	return ok
}

var mutatingPrefixes = []string{"Set", "Delete", "Jail", "Unjail", "Slash", "Mint", "Burn", "Send", "Emit", "Delegate", "Undelegate",
	"Grant", "Revoke", "Create", "Update", "Remove", "Write", "Save", "Publish", "Dispatch", "Execute", "Instantiate", "Add", "Put", "Store",
	"Increment", "Fund", "Register", "Activate", "Deactivate", "Schedule", "Try", "Attest", "Handle", "Process", "Build", "Cancel"}

func hasMutatingName(n string) bool {
	for _, p := range mutatingPrefixes {
		if strings.HasPrefix(n, p) {
			return true
		}
	}
	return false
}

// effects computes which module functions (transitively) mutate chain state.
type effects struct {
	w    *World
	fl   *Flow
	memo map[*ssa.Function]int // 0 unknown, 1 pure, 2 effectful, 3 in progress
	why  map[*ssa.Function]string
}

func newEffects(w *World, fl *Flow) *effects {
	return &effects{w: w, fl: fl, memo: map[*ssa.Function]int{}, why: map[*ssa.Function]string{}}
}

func (e *effects) directEffect(s Site) string {
	c := s.Callee
	args := s.Args()
	switch {
	case (c.Name == "Set" || c.Name == "Delete") && len(args) >= 2 && isKVStoreType(args[0].Type()):
		return "store " + c.Name
	case isBankKeeperRecv(c):
		return "bank " + c.Name
	case strings.HasPrefix(c.Name, "Emit") && (c.Recv == "EventManager" || c.Recv == "EventManagerI"):
		return "event emission"
	case c.Iface && !strings.HasPrefix(c.Pkg, modPath) && hasMutatingName(c.Name) && !isLoggingCallee(c) && c.Recv != "Int" && c.Recv != "Codec" && c.Recv != "BinaryCodec":
		return "external keeper call " + c.String()
	case !c.Iface && strings.Contains(c.Pkg, "/x/") && strings.HasSuffix(c.Pkg, "/keeper") && !strings.HasPrefix(c.Pkg, modPath) && hasMutatingName(c.Name):
		return "external keeper call " + c.String()
	case c.Recv == "Map" || c.Recv == "Item" || c.Recv == "KeySet":
		if c.Name == "Set" || c.Name == "Remove" {
			return "collections " + c.Name
		}
	}
	return ""
}

func (e *effects) Effectful(f *ssa.Function) (bool, string) {
	switch e.memo[f] {
	case 1:
		return false, ""
	case 2:
		return true, e.why[f]
	case 3:
		return false, ""
	}
	e.memo[f] = 3
	res, why := false, ""
	for _, g := range WithAnon(f) {
		for _, b := range g.Blocks {
			for _, in := range b.Instrs {
				if st, ok := in.(*ssa.Store); ok {
					if _, isG := st.Addr.(*ssa.Global); isG {
						res, why = true, "store to package variable"
					}
				}
			}
		}
		for _, s := range CallsIn(g) {
			if d := e.directEffect(s); d != "" {
				res, why = true, d+" in "+e.w.FuncKey(g)
				break
			}
		}
		if res {
			break
		}
		if n := e.w.CG().Nodes[g]; n != nil {
			for _, ed := range n.Out {
				cf := ed.Callee.Func
				if cf == nil || !e.w.followable(cf) || cf == f {
					continue
				}
				if ok, w2 := e.Effectful(cf); ok {
					res, why = true, w2
					break
				}
			}
		}
		if res {
			break
		}
	}
	if res {
		e.memo[f] = 2
		e.why[f] = why
	} else {
		e.memo[f] = 1
	}
	return res, why
}

// loopBlocks returns the blocks of the natural loop whose header contains the Next of r.
func rangeLoop(r *ssa.Range) (hdr *ssa.BasicBlock, next *ssa.Next, body map[*ssa.BasicBlock]bool) {
	for _, ref := range *r.Referrers() {
		if n, ok := ref.(*ssa.Next); ok {
			next = n
			hdr = n.Block()
		}
	}
	if hdr == nil {
		return
	}
	body = map[*ssa.BasicBlock]bool{hdr: true}
	// natural loop: header plus every block that reaches a back edge without passing the header
	var work []*ssa.BasicBlock
	for _, p := range hdr.Preds {
		if hdr.Dominates(p) {
			work = append(work, p)
		}
	}
	for len(work) > 0 {
		x := work[len(work)-1]
		work = work[:len(work)-1]
		if body[x] {
			continue
		}
		body[x] = true
		work = append(work, x.Preds...)
	}
	return
}

type rangeClass struct {
	Class  string // E0 | E1-sorted | E1 | E2 | E3
	Detail string
}

var c08Exempt = map[string]string{
	"(util/libcons.ConsensusChecker).VerifyEvidence|E2": "early return only when one evidence group holds >= 2/3 of total shares; groups partition the validators, so at most one group can (decided by C04.R2)",
	"x/evm/keeper.rankValidators|E1#1":                  "the unsorted copy is consumed only by a min/max reduction (slice.Reduce with probeMin/probeMax), which is order-insensitive",
}

func classifyRange(w *World, fl *Flow, eff *effects, r *ssa.Range, ord int) []rangeClass {
	f := r.Parent()
	hdr, next, body := rangeLoop(r)
	if hdr == nil {
		return []rangeClass{{"E0", "range without iteration"}}
	}
	var out []rangeClass
	elemDep := func(v ssa.Value) bool {
		// does v depend on the element (key or value) of this iteration?
		seen := map[ssa.Value]bool{}
		var walk func(x ssa.Value, d int) bool
		walk = func(x ssa.Value, d int) bool {
			if x == nil || d > 40 || seen[x] {
				return false
			}
			seen[x] = true
			if x == ssa.Value(next) {
				return true
			}
			in, ok := x.(ssa.Instruction)
			if !ok {
				return false
			}
			if u, ok := x.(*ssa.UnOp); ok && u.Op == token.MUL {
				if a, ok := u.X.(*ssa.Alloc); ok {
					vals, _ := reachingStores(a, u)
					for _, sv := range vals {
						if walk(sv, d+1) {
							return true
						}
					}
				}
			}
			if al, ok := x.(*ssa.Alloc); ok {
				// contents written into a local (composite literals, variadic backing arrays)
				var addrs []ssa.Value = []ssa.Value{al}
				for i := 0; i < len(addrs) && i < 64; i++ {
					refs := addrs[i].Referrers()
					if refs == nil {
						continue
					}
					for _, r := range *refs {
						switch u := r.(type) {
						case *ssa.Store:
							if u.Addr == addrs[i] && walk(u.Val, d+1) {
								return true
							}
						case *ssa.FieldAddr:
							addrs = append(addrs, u)
						case *ssa.IndexAddr:
							addrs = append(addrs, u)
						}
					}
				}
			}
			for _, op := range in.Operands(nil) {
				if *op != nil && walk(*op, d+1) {
					return true
				}
			}
			return false
		}
		return walk(v, 0)
	}
	// loop-carried values
	for _, in := range hdr.Instrs {
		phi, ok := in.(*ssa.Phi)
		if !ok {
			continue
		}
		for i, e := range phi.Edges {
			if !body[hdr.Preds[i]] {
				continue
			}
			if e == ssa.Value(phi) {
				continue
			}
			out = append(out, classifyCarried(w, f, hdr, body, phi, e, elemDep)...)
		}
	}
	// instructions in the body
	var blocks []*ssa.BasicBlock
	for b := range body {
		blocks = append(blocks, b)
	}
	sort.Slice(blocks, func(i, j int) bool { return blocks[i].Index < blocks[j].Index })
	for _, b := range blocks {
		for _, in := range b.Instrs {
			switch x := in.(type) {
			case *ssa.Return:
				dep := false
				for _, rv := range x.Results {
					if elemDep(rv) {
						dep = true
					}
				}
				if dep {
					out = append(out, rangeClass{"E2", "early return at " + w.Pos(x.Pos()) + " carries a value that depends on which element was visited first"})
				}
			case *ssa.MapUpdate:
				if mm, ok := x.Map.(*ssa.MakeMap); ok && body[mm.Block()] {
					continue // map created afresh in each iteration
				}
				if !elemDep(x.Key) {
					out = append(out, rangeClass{"E3", "map write with an element-independent key at " + w.Pos(x.Pos()) + " (last writer wins)"})
				}
			case *ssa.Store:
				switch a := x.Addr.(type) {
				case *ssa.Alloc:
					if !body[a.Block()] && isAppendTo(x.Val, a) {
						if sortedAfterAlloc(w, f, hdr, body, a) {
							out = append(out, rangeClass{"E1-sorted", "slice built in map order is sorted before any other use"})
						} else {
							out = append(out, rangeClass{"E1", "slice appended in map iteration order at " + w.Pos(x.Pos()) + " is used without a total-order sort"})
						}
						continue
					}
					if !body[a.Block()] && elemDep(x.Val) && !isAccumulatorStore(x) {
						out = append(out, rangeClass{"E2", "assignment to an outer variable at " + w.Pos(x.Pos()) + " keeps an element-dependent value (last/first visited wins)"})
					}
				case *ssa.FieldAddr, *ssa.IndexAddr:
					base := baseOf(a)
					if al, ok := base.(*ssa.Alloc); ok && body[al.Block()] {
						continue
					}
					if elemDep(x.Val) && !elemDep(a) {
						out = append(out, rangeClass{"E2", "store to outer object at " + w.Pos(x.Pos()) + " keeps an element-dependent value"})
					}
				case *ssa.Global:
					out = append(out, rangeClass{"E3", "store to package variable at " + w.Pos(x.Pos())})
				case *ssa.FreeVar:
					if elemDep(x.Val) {
						out = append(out, rangeClass{"E2", "assignment to a captured variable at " + w.Pos(x.Pos()) + " keeps an element-dependent value"})
					}
				}
			case ssa.CallInstruction:
				c, ok := CalleeOf(x.Common())
				if !ok {
					if isLoggingValue(x.Common().Value, 0) {
						continue
					}
					out = append(out, rangeClass{"E3", "call through a function value at " + w.Pos(x.Pos())})
					continue
				}
				if c.Pkg == "builtin" || isLoggingCallee(c) {
					continue
				}
				site := Site{Fn: f, Instr: x, Callee: c}
				if d := eff.directEffect(site); d != "" {
					args := site.Args()
					keyed := false
					if strings.HasPrefix(d, "store") || strings.HasPrefix(d, "collections") {
						if len(args) >= 2 && elemDep(args[len(args)-1]) || (len(args) >= 2 && elemDep(args[1])) {
							keyed = true
						}
					}
					if !keyed {
						out = append(out, rangeClass{"E3", d + " at " + w.Pos(x.Pos()) + " inside a map range"})
					}
					continue
				}
				// module callee (static or resolved by the call graph)
				var targets []*ssa.Function
				if c.Static != nil {
					targets = append(targets, c.Static)
				} else if n := w.CG().Nodes[f]; n != nil {
					for _, e := range n.Out {
						if e.Site == x && e.Callee.Func != nil {
							targets = append(targets, e.Callee.Func)
						}
					}
				}
				for _, t := range targets {
					if !w.followable(t) || len(t.Blocks) == 0 {
						continue
					}
					if c.Recv == "kvStoreWrapper" && c.Name == "Set" {
						args := site.Args()
						if len(args) >= 3 && elemDep(args[2]) {
							continue // keyed by the element
						}
					}
					if ok, why := eff.Effectful(t); ok {
						out = append(out, rangeClass{"E3", "call to " + w.FuncKey(t) + " at " + w.Pos(x.Pos()) + " has side effects (" + why + ") executed in map iteration order"})
					}
				}
			}
		}
	}
	if len(out) == 0 {
		out = append(out, rangeClass{"E0", "body is order-insensitive"})
	}
	return out
}

func baseOf(a ssa.Value) ssa.Value {
	for {
		switch x := a.(type) {
		case *ssa.FieldAddr:
			a = x.X
		case *ssa.IndexAddr:
			a = x.X
		default:
			return a
		}
	}
}

func isAccumulatorStore(st *ssa.Store) bool {
	// x = x + e style through memory
	if bo, ok := st.Val.(*ssa.BinOp); ok {
		for _, side := range []ssa.Value{bo.X, bo.Y} {
			if u, ok := side.(*ssa.UnOp); ok && u.Op == token.MUL && u.X == st.Addr {
				bt, isB := bo.Type().Underlying().(*types.Basic)
				return isB && bt.Info()&types.IsInteger != 0 && (bo.Op == token.ADD || bo.Op == token.OR || bo.Op == token.AND || bo.Op == token.XOR)
			}
		}
	}
	return false
}

// classifyCarried classifies one loop-carried value (φ at the header with back-edge value e).
func classifyCarried(w *World, f *ssa.Function, hdr *ssa.BasicBlock, body map[*ssa.BasicBlock]bool, phi *ssa.Phi, e ssa.Value, elemDep func(ssa.Value) bool) []rangeClass {
	// follow φ chains inside the body to the producing operations
	var prods []ssa.Value
	seen := map[ssa.Value]bool{}
	var walk func(v ssa.Value)
	walk = func(v ssa.Value) {
		if seen[v] || v == ssa.Value(phi) {
			return
		}
		seen[v] = true
		if p, ok := v.(*ssa.Phi); ok && body[p.Block()] {
			for _, ed := range p.Edges {
				walk(ed)
			}
			return
		}
		prods = append(prods, v)
	}
	walk(e)
	var out []rangeClass
	for _, p := range prods {
		if !elemDep(p) {
			continue // e.g. counters, constants, flags set to a constant
		}
		switch x := p.(type) {
		case *ssa.Call:
			if b, ok := x.Call.Value.(*ssa.Builtin); ok && b.Name() == "append" {
				if sortedAfter(w, f, hdr, body, phi) {
					out = append(out, rangeClass{"E1-sorted", "slice built in map order is sorted before any other use"})
				} else {
					out = append(out, rangeClass{"E1", "slice appended in map iteration order at " + w.Pos(x.Pos()) + " is used without a total-order sort"})
				}
				continue
			}
			if cal, ok := CalleeOf(x.Common()); ok && cal.Pkg == "cosmossdk.io/math" && (cal.Name == "Add" || cal.Name == "Mul" || cal.Name == "AddRaw") {
				continue // exact arithmetic: commutative and associative
			}
			out = append(out, rangeClass{"E2", "loop-carried value produced by " + valDesc(x) + " depends on visiting order"})
		case *ssa.BinOp:
			bt, isB := x.Type().Underlying().(*types.Basic)
			if isB && bt.Info()&types.IsFloat != 0 {
				out = append(out, rangeClass{"E3", "floating-point accumulation at " + w.Pos(x.Pos()) + " is order-sensitive (float + is not associative)"})
				continue
			}
			if isB && bt.Info()&types.IsInteger != 0 && (x.Op == token.ADD || x.Op == token.MUL || x.Op == token.OR || x.Op == token.AND || x.Op == token.XOR) {
				continue
			}
			if isB && bt.Info()&types.IsBoolean != 0 {
				continue
			}
			out = append(out, rangeClass{"E2", "loop-carried value " + valDesc(x) + " depends on visiting order"})
		default:
			out = append(out, rangeClass{"E2", "loop-carried value " + valDesc(p) + " depends on which element is visited last"})
		}
	}
	return out
}

func isAppendTo(v ssa.Value, a *ssa.Alloc) bool {
	c, ok := v.(*ssa.Call)
	if !ok {
		return false
	}
	b, ok := c.Call.Value.(*ssa.Builtin)
	if !ok || b.Name() != "append" || len(c.Call.Args) == 0 {
		return false
	}
	u, ok := c.Call.Args[0].(*ssa.UnOp)
	return ok && u.Op == token.MUL && u.X == ssa.Value(a)
}

// sortedAfterAlloc: like sortedAfter for a slice variable living in memory (captured by the comparator closure).
func sortedAfterAlloc(w *World, f *ssa.Function, hdr *ssa.BasicBlock, body map[*ssa.BasicBlock]bool, a *ssa.Alloc) bool {
	uses := map[ssa.Instruction]bool{}
	sorts := map[ssa.Instruction]bool{}
	for _, r := range *a.Referrers() {
		ld, ok := r.(*ssa.UnOp)
		if !ok || body[ld.Block()] {
			continue
		}
		onlySort := true
		var visit func(v ssa.Value, d int)
		visit = func(v ssa.Value, d int) {
			refs := v.Referrers()
			if refs == nil || d > 3 {
				return
			}
			for _, r2 := range *refs {
				switch u := r2.(type) {
				case *ssa.DebugRef:
				case *ssa.MakeInterface:
					visit(u, d+1)
				case ssa.CallInstruction:
					c, ok := CalleeOf(u.Common())
					if ok && isSortCall(c) {
						sorts[u] = true
						continue
					}
					if ok && c.Pkg == "builtin" && (c.Name == "len" || c.Name == "cap") {
						continue
					}
					onlySort = false
				default:
					onlySort = false
				}
			}
		}
		visit(ld, 0)
		if !onlySort {
			uses[ld] = true
		}
	}
	if len(sorts) == 0 {
		return false
	}
	last := hdr.Instrs[len(hdr.Instrs)-1]
	return ReachAvoiding(f, last, uses, sorts) == nil
}

func isSortCall(c Callee) bool {
	if c.Pkg == "sort" {
		switch c.Name {
		case "Strings", "Ints", "Float64s", "Slice", "SliceStable", "Sort", "Stable":
			return true
		}
	}
	if c.Pkg == "slices" && strings.HasPrefix(c.Name, "Sort") {
		return true
	}
	return false
}

// sortedAfter: every use of the slice after the loop is preceded by a sort of it whose
// comparator (when custom) is total over the elements.
func sortedAfter(w *World, f *ssa.Function, hdr *ssa.BasicBlock, body map[*ssa.BasicBlock]bool, phi *ssa.Phi) bool {
	uses := map[ssa.Instruction]bool{}
	sorts := map[ssa.Instruction]bool{}
	var collect func(v ssa.Value, d int)
	seen := map[ssa.Value]bool{}
	collect = func(v ssa.Value, d int) {
		if seen[v] || d > 4 {
			return
		}
		seen[v] = true
		refs := v.Referrers()
		if refs == nil {
			return
		}
		for _, r := range *refs {
			if body[r.Block()] {
				continue
			}
			switch u := r.(type) {
			case *ssa.DebugRef:
			case *ssa.MakeInterface:
				collect(u, d+1)
			case *ssa.Slice:
				collect(u, d+1)
			case *ssa.Phi:
				collect(u, d+1)
			case ssa.CallInstruction:
				c, ok := CalleeOf(u.Common())
				if ok && isSortCall(c) {
					sorts[u] = true
					continue
				}
				if ok && c.Pkg == "builtin" && (c.Name == "len" || c.Name == "cap") {
					continue
				}
				uses[u] = true
			default:
				uses[r] = true
			}
		}
	}
	collect(phi, 0)
	if len(sorts) == 0 {
		return false
	}
	if len(uses) == 0 {
		return true
	}
	last := hdr.Instrs[len(hdr.Instrs)-1]
	return ReachAvoiding(f, last, uses, sorts) == nil
}

func rulesC08(w *World, o *Out) {

	// what a transaction goes through is the same on every node: no part of the ante chain is installed under a
	// condition read from the node's own options (log level, home directory, flags)
	if an := w.Func("app", "", "New"); an != nil {
		nDec := 0
		for _, b := range an.Blocks {
			for _, in := range b.Instrs {
				call, isCall := in.(ssa.CallInstruction)
				if !isCall {
					continue
				}
				cal, okc := CalleeOf(call.Common())
				if !okc {
					continue
				}
				nm := cal.Name
				if !(strings.HasPrefix(nm, "New") && strings.HasSuffix(nm, "Decorator")) && nm != "ChainAnteDecorators" && nm != "SetAnteHandler" {
					continue
				}
				nDec++
				var cond []string
				// walk up the dominator tree: a dominating two-way branch that is not a loop header and whose
				// condition is computed from appOpts.Get decides whether this call runs
				for d := b; d != nil; d = d.Idom() {
					id := d.Idom()
					if id == nil || len(id.Succs) != 2 || len(id.Instrs) == 0 {
						continue
					}
					iff, isIf := id.Instrs[len(id.Instrs)-1].(*ssa.If)
					if !isIf || inSameCycle(id, id) {
						continue
					}
					// d must be reached through exactly one side of the branch
					side := 0
					for _, sc := range id.Succs {
						if sc == d && len(d.Preds) == 1 {
							side++
						}
					}
					if side != 1 {
						continue
					}
					if g := sliceHasOptionRead(iff.Cond); g != nil {
						cond = append(cond, valDesc(g.Common().Args[0]))
					}
				}
				sort.Strings(cond)
				o.Check("C08.R1", "app.New|"+nm+" is installed whatever the node's options say", len(cond) == 0, w.Pos(in.Pos()), "this part of the ante chain is built under a condition on appOpts.Get("+strings.Join(cond, ",")+"): nodes configured differently run different checks on the same transaction")
			}
		}
		o.Count("C08.R1 ante chain construction sites in app.New", nDec, 3)
	}

	fl := NewFlow(w)
	o.Rule("C08.R1", "no process-environment, wall-clock, randomness or runtime-state source, goroutine start or select is reachable (module-restricted VTA reachability) from a transaction / block / governance / wasm / hook entry point, unless its value flows only into logging or telemetry")
	o.Rule("C08.R2", "every production range over a map is order-insensitive (E0), builds a slice that is sorted before any other use (E1-sorted), or is individually justified; early exits, last-writer-wins assignments, float accumulation and state-mutating calls inside a map range are violations")
	o.Rule("C08.R3", "functions reachable from runtime entry points and gRPC queries do not store into package-level variables or into long-lived keeper objects (fields of pointer receivers of keeper types), so no in-memory state survives a call")

	runtime := w.EntriesOf("msg", "abci", "ante", "gov", "wasm", "hook")
	o.Count("C08 runtime entry points", len(runtime), 80)
	rs := w.Reach(entryFns(runtime), nil)
	o.Count("C08.R1 functions reachable from runtime entry points", len(rs), 600)
	var fns []*ssa.Function
	for f := range rs {
		fns = append(fns, f)
	}
	sort.Slice(fns, func(i, j int) bool { return w.FuncKey(fns[i]) < w.FuncKey(fns[j]) })
	nSites := 0
	for _, f := range fns {
		if !w.IsProd(f) {
			continue
		}
		for _, b := range f.Blocks {
			for _, in := range b.Instrs {
				switch x := in.(type) {
				case *ssa.Go:
					o.Fail("C08.R1", w.FuncKey(f)+"|go statement", w.Pos(x.Pos()), "goroutine started on a state-transition path", w.Path(rs, f)...)
				case *ssa.Select:
					o.Fail("C08.R1", w.FuncKey(f)+"|select", w.Pos(x.Pos()), "select on a state-transition path", w.Path(rs, f)...)
				case ssa.CallInstruction:
					c, ok := CalleeOf(x.Common())
					if !ok {
						continue
					}
					nSites++
					if zs := zoneSource(c); zs != "" {
						if v, isV := x.(ssa.Value); isV {
							if use := zoneSensitiveUse(v, 0); use != "" {
								o.Fail("C08.R1", w.FuncKey(f)+"|"+c.String()+"|calendar arithmetic in the node's local time zone", w.Pos(x.Pos()),
									zs+" yields a time in the process's local zone (TZ environment variable / host configuration); "+use+" on it gives different results on nodes in different zones. Convert with .UTC() first", w.Path(rs, f)...)
							}
						}
					}
					src := nondetSource(c)
					if src == "" {
						continue
					}
					okLog, why := true, ""
					if v, isV := x.(ssa.Value); isV {
						okLog, why = usedOnlyForLogging(v, map[ssa.Value]bool{})
					}
					if _, isDefer := x.(*ssa.Defer); isDefer {
						okLog = false
						why = "deferred call"
					}
					o.Check("C08.R1", w.FuncKey(f)+"|"+c.String(), okLog, w.Pos(x.Pos()),
						src+" reachable from an entry point; "+map[bool]string{true: "its value only feeds logging/telemetry", false: "its value influences execution: " + why}[okLog], w.Path(rs, f)...)
				}
			}
		}
	}
	o.Count("C08.R1 call sites examined", nSites, 5000)
	// positive control: the forbidden-source table matches a known production call (wiring time, outside runtime paths)
	ctl := 0
	for _, f := range w.ProdFuncs {
		for _, s := range CallsIn(f) {
			if nondetSource(s.Callee) != "" {
				ctl++
			}
		}
	}
	o.Count("C08.R1 positive control: nondeterminism sources anywhere in production code", ctl, 1)

	// ---- R2 ----------------------------------------------------------------------
	eff := newEffects(w, fl)
	inv := w.Reach(entryFns(w.EntriesOf("invariant")), nil)
	qry := w.Reach(entryFns(w.EntriesOf("query", "genesis")), nil)
	ranges := w.mapRanges()
	o.Count("C08.R2 production map ranges", len(ranges), 15)
	perFn := map[string]int{}
	for _, r := range ranges {
		f := r.Parent()
		key := w.FuncKey(f)
		if f.Origin() != nil {
			key = w.FuncKey(f.Origin()) // one obligation per generic function, not per instantiation
		}
		perFn[key]++
		ord := perFn[key]
		if f.Origin() != nil && ord > 1 {
			// further instantiations of the same generic loop
			k2 := w.FuncKey(f)
			perFn[k2]++
			if perFn[k2] == 1 {
				perFn[key]--
				ord = perFn[key]
			}
		}
		where := "dormant (not reachable from any entry point)"
		switch {
		case rs[f] != nil:
			where = "runtime"
		case inv[f] != nil:
			where = "invariant"
		case qry[f] != nil:
			where = "query/genesis"
		}
		cls := classifyRange(w, fl, eff, r, ord)
		o.Analysed(w.FuncKey(f))
		bad := []string{}
		classes := []string{}
		nE1 := 0
		for _, c := range cls {
			classes = append(classes, c.Class)
			if c.Class == "E0" || c.Class == "E1-sorted" {
				continue
			}
			tag := c.Class
			if c.Class == "E1" {
				nE1++
				tag = "E1#" + ordinalNum(ord)
			}
			if why, ok := c08Exempt[key+"|"+tag]; ok {
				classes[len(classes)-1] = c.Class + "(exempt: " + why + ")"
				continue
			}
			// a loop that a later edit moved into a new helper keeps the exemption of the function it came from
			if isNewHelper(lexTop(f)) {
				moved := false
				for _, rc := range rootCallers(f) {
					for n := 1; n <= 3 && !moved; n++ {
						t2 := tag
						if c.Class == "E1" {
							t2 = "E1#" + ordinalNum(n)
						}
						if why, ok := c08Exempt[w.FuncKey(rc)+"|"+t2]; ok {
							classes[len(classes)-1] = c.Class + "(exempt via " + w.FuncKey(rc) + ": " + why + ")"
							moved = true
						}
					}
				}
				if moved {
					continue
				}
			}
			bad = append(bad, c.Class+": "+c.Detail)
		}
		k := key + "|map range #" + ordinalNum(ord)
		if f.Origin() != nil {
			k = key + "|map range (generic)"
		}
		if where == "dormant (not reachable from any entry point)" || where == "query/genesis" && len(bad) > 0 && strings.HasPrefix(funcPkgPath(f), modPath+"/app") {
			o.Note("C08.R2", k, w.Pos(r.Pos()), where+": "+strings.Join(classes, ",")+" "+strings.Join(bad, "; "))
			continue
		}
		o.Check("C08.R2", k, len(bad) == 0, w.Pos(r.Pos()), where+": "+strings.Join(classes, ",")+" "+strings.Join(bad, "; "))
	}
	// comparator totality for E1-sorted loops with custom comparators on struct elements
	c08Comparators(w, o, fl)

	// ---- R3 ----------------------------------------------------------------------
	computeWiringTypes(w)
	o.Count("C08.R3 long-lived (wiring-allocated) types", len(wiringTypes), 10)
	mw, nStores, all := inMemoryWrites(w)
	for _, m := range mw {
		o.Fail("C08.R3", m.key, m.pos, m.detail, w.Path(all, m.fn)...)
	}
	o.Count("C08.R3 stores examined on runtime/query paths", nStores, 1000)
	// positive control for R3: wiring-time registration functions do store into keeper objects
	ctl3 := 0
	for _, f := range w.ProdFuncs {
		if all[f] != nil || f.Parent() != nil {
			continue
		}
		for _, b := range f.Blocks {
			for _, in := range b.Instrs {
				if st, ok := in.(*ssa.Store); ok && longLived(f, st.Addr) {
					ctl3++
				}
				if mu, ok := in.(*ssa.MapUpdate); ok && longLived(f, mu.Map) {
					ctl3++
				}
			}
		}
	}
	o.Count("C08.R3 positive control: long-lived stores in wiring-time code", ctl3, 1)
}

func ordinalNum(n int) string { return string(rune('0' + n)) }

func fieldPath(a ssa.Value) string {
	var parts []string
	for {
		switch x := a.(type) {
		case *ssa.FieldAddr:
			parts = append([]string{fieldName(x.X.Type(), x.Field)}, parts...)
			a = x.X
			continue
		case *ssa.IndexAddr:
			parts = append([]string{"[]"}, parts...)
			a = x.X
			continue
		case *ssa.UnOp:
			a = x.X
			continue
		}
		break
	}
	return strings.Join(parts, ".")
}

// longLived: the address / map is reached from a pointer receiver or pointer parameter of a
// keeper-like type (named struct type called Keeper, msgAssigner, *Event, ...), i.e. an object
// allocated at wiring time. Value receivers are copies and do not qualify.
func longLived(f *ssa.Function, a ssa.Value) bool {
	crossedPtr := false // the address was reached through a pointer / map held in a field
	for i := 0; i < 12; i++ {
		switch x := a.(type) {
		case *ssa.FieldAddr:
			a = x.X
			continue
		case *ssa.IndexAddr:
			a = x.X
			continue
		case *ssa.UnOp:
			if x.Op == token.MUL {
				// load of a pointer/map field: continue to where the pointer is held
				switch x.Type().Underlying().(type) {
				case *types.Pointer, *types.Map:
					crossedPtr = true
				}
				a = x.X
				continue
			}
			return false
		case *ssa.Field:
			a = x.X
			continue
		case *ssa.Lookup:
			a = x.X
			continue
		case *ssa.Parameter:
			pt, ok := x.Type().Underlying().(*types.Pointer)
			if !ok {
				return false
			}
			n := namedOf(pt.Elem())
			if n == nil {
				return false
			}
			return isWiringType(n)
		case *ssa.FreeVar:
			return false
		case *ssa.Alloc:
			// spilled value receiver: a copy -- but what a pointer field of the copy points to is shared with every
			// other copy of the keeper
			if crossedPtr {
				for _, r := range *x.Referrers() {
					if st, isSt := r.(*ssa.Store); isSt && st.Addr == ssa.Value(x) {
						if q, isP := st.Val.(*ssa.Parameter); isP {
							if n := namedOf(q.Type()); n != nil && isWiringType(n) {
								return true
							}
						}
					}
				}
			}
			return false
		case *ssa.Global:
			return true
		case *ssa.Call:
			// accessor returning a pointer to a package-level object (eventbus.EVMActivatedChain())
			if c, ok := CalleeOf(x.Common()); ok && c.Static != nil && len(c.Static.Blocks) > 0 {
				for _, b := range c.Static.Blocks {
					if r, ok := b.Instrs[len(b.Instrs)-1].(*ssa.Return); ok && len(r.Results) == 1 {
						if _, ok := r.Results[0].(*ssa.Global); ok {
							return true
						}
					}
				}
			}
			return false
		default:
			return false
		}
	}
	return false
}

var wiringTypes map[*types.TypeName]bool

// computeWiringTypes: named struct types of the module allocated in the call tree of app.New
// (the long-lived objects), plus the types of package-level variables.
func computeWiringTypes(w *World) {
	wiringTypes = map[*types.TypeName]bool{}
	var roots []*ssa.Function
	if f := w.Func("app", "", "New"); f != nil {
		roots = append(roots, f)
	}
	rs := w.Reach(roots, nil)
	note := func(t types.Type) {
		if n := namedOf(t); n != nil && n.Obj().Pkg() != nil && strings.HasPrefix(n.Obj().Pkg().Path(), modPath) {
			if _, ok := n.Underlying().(*types.Struct); ok {
				wiringTypes[n.Origin().Obj()] = true
			}
		}
	}
	for f := range rs {
		for _, b := range f.Blocks {
			for _, in := range b.Instrs {
				if al, ok := in.(*ssa.Alloc); ok {
					note(al.Type().Underlying().(*types.Pointer).Elem())
				}
			}
		}
		// keeper values returned by constructors and stored by value in the app
		if res := f.Signature.Results(); res != nil {
			for i := 0; i < res.Len(); i++ {
				note(res.At(i).Type())
			}
		}
	}
	for _, p := range w.Pkgs {
		if nonProdPkg(p.PkgPath) {
			continue
		}
		sp := w.Prog.Package(p.Types)
		if sp == nil {
			continue
		}
		for _, m := range sp.Members {
			if g, ok := m.(*ssa.Global); ok {
				note(g.Type().Underlying().(*types.Pointer).Elem())
			}
		}
	}
	// value / message types and logging wrappers are per-call objects
	for tn := range wiringTypes {
		p := tn.Pkg().Path()
		if (strings.HasSuffix(p, "/types") && !strings.Contains(tn.Name(), "Keeper")) || strings.HasSuffix(p, "/util/liblog") {
			delete(wiringTypes, tn)
		}
	}
	// types that runtime code also constructs afresh (composite literals, new) are not wiring-only
	rt := w.Reach(entryFns(w.EntriesOf("msg", "abci", "ante", "gov", "wasm", "hook", "query")), nil)
	for f := range rt {
		for _, b := range f.Blocks {
			for _, in := range b.Instrs {
				al, ok := in.(*ssa.Alloc)
				if !ok {
					continue
				}
				n := namedOf(al.Type().Underlying().(*types.Pointer).Elem())
				if n == nil || !wiringTypes[n.Origin().Obj()] {
					continue
				}
				isCopy := false
				for _, r := range *al.Referrers() {
					if st, ok := r.(*ssa.Store); ok && st.Addr == ssa.Value(al) {
						switch st.Val.(type) {
						case *ssa.Parameter, *ssa.UnOp, *ssa.Extract, *ssa.Call, *ssa.FreeVar, *ssa.Field, *ssa.Phi, *ssa.TypeAssert:
							isCopy = true
						}
					}
				}
				if !isCopy {
					delete(wiringTypes, n.Origin().Obj())
				}
			}
		}
	}
}

func isWiringType(n *types.Named) bool {
	if wiringTypes != nil {
		return wiringTypes[n.Origin().Obj()]
	}
	name := n.Obj().Name()
	if n.Obj().Pkg() == nil || !strings.HasPrefix(n.Obj().Pkg().Path(), modPath) {
		return false
	}
	if _, ok := n.Underlying().(*types.Struct); !ok {
		return false
	}
	p := n.Obj().Pkg().Path()
	if strings.HasSuffix(p, "/types") && !strings.Contains(name, "Keeper") {
		return false // protobuf messages and value types are per-call objects
	}
	return strings.Contains(name, "Keeper") || strings.HasSuffix(p, "/keeper") || strings.HasSuffix(p, "/eventbus") ||
		strings.HasPrefix(p, modPath+"/app") || name == "AppModule"
}

// c08Comparators: custom comparators used to restore order after a map range must
// distinguish any two elements: they must read the field/value that was filled from the map key.
func c08Comparators(w *World, o *Out, fl *Flow) {
	selfCmpDone := map[string]bool{}
	for _, r := range w.mapRanges() {
		f := r.Parent()
		if f.Origin() != nil && f.Origin() != f {
			continue
		}
		_, next, body := rangeLoop(r)
		if next == nil {
			continue
		}
		for _, s := range CallsIn(f) {
			if !isSortCall(s.Callee) || body[s.Block()] {
				continue
			}
			var cmp *ssa.Function
			for _, a := range s.Args() {
				if mc, ok := a.(*ssa.MakeClosure); ok {
					cmp = mc.Fn.(*ssa.Function)
				}
				// a function literal without free variables is a plain function value
				if fn, ok := a.(*ssa.Function); ok && fn.Parent() != nil {
					cmp = fn
				}
			}
			if cmp == nil || len(cmp.Params) < 2 {
				continue
			}
			// every comparison of the less function sets an element against the *other* element: a component
			// that compares an element with itself orders nothing and leaves (map) iteration order in place
			if key := w.FuncKey(f) + "|" + w.FuncKey(cmp); !selfCmpDone[key] {
				selfCmpDone[key] = true
				bad := selfComparisons(cmp)
				o.Check("C08.R2", w.FuncKey(f)+"|comparator sets the first element against the second in every component", len(bad) == 0, w.Pos(s.Instr.Pos()),
					"a component of the comparator compares an element with itself ("+strings.Join(bad, "; ")+"): elements that tie on the earlier components keep the order the map range produced")
			}
			// element type struct? then the comparator's results must depend on a field that is fed by the map key
			elemT := cmp.Params[0].Type()
			st, isStruct := elemT.Underlying().(*types.Struct)
			if !isStruct {
				o.Pass("C08.R2", w.FuncKey(f)+"|comparator total (scalar elements)", w.Pos(s.Instr.Pos()), "elements are scalars copied from the map keys; natural order is total")
				continue
			}
			// which fields are filled from the key in the range body?
			keyFields := map[string]bool{}
			for b := range body {
				for _, in := range b.Instrs {
					stI, ok := in.(*ssa.Store)
					if !ok {
						continue
					}
					fa, ok := stI.Addr.(*ssa.FieldAddr)
					if !ok || !types.Identical(fa.X.Type().Underlying().(*types.Pointer).Elem(), elemT) {
						continue
					}
					if ex, ok := stI.Val.(*ssa.Extract); ok && ex.Tuple == ssa.Value(next) && ex.Index == 1 {
						keyFields[fieldName(fa.X.Type(), fa.Field)] = true
					}
				}
			}
			if len(keyFields) == 0 {
				continue
			}
			// per comparator parameter: which fields of it are read
			read := map[string]map[ssa.Value]bool{}
			note := func(x ssa.Value, name string) {
				root := x
				for i := 0; i < 8; i++ {
					switch y := root.(type) {
					case *ssa.UnOp:
						root = y.X
						continue
					case *ssa.IndexAddr:
						root = y.X
						continue
					case *ssa.FieldAddr:
						root = y.X
						continue
					}
					break
				}
				// parameters spilled to an Alloc: identify by the stored parameter
				if al, isAl := root.(*ssa.Alloc); isAl {
					for _, rf := range *al.Referrers() {
						if st2, isSt := rf.(*ssa.Store); isSt && st2.Addr == ssa.Value(al) {
							root = st2.Val
						}
					}
				}
				if read[name] == nil {
					read[name] = map[ssa.Value]bool{}
				}
				read[name][root] = true
			}
			for _, b := range cmp.Blocks {
				for _, in := range b.Instrs {
					if fa, ok := in.(*ssa.FieldAddr); ok {
						note(fa.X, fieldName(fa.X.Type(), fa.Field))
					}
					if fi, ok := in.(*ssa.Field); ok {
						note(fi.X, fieldName(fi.X.Type(), fi.Field))
					}
				}
			}
			ok := false
			var kf []string
			for k := range keyFields {
				kf = append(kf, k)
				// index-based comparators (sort.Slice) read elements of the captured slice: one root; value
				// comparators must read the key field of *both* parameters
				if len(read[k]) >= 2 || (len(read[k]) == 1 && !isParamRoot(read[k])) {
					ok = true
				}
			}
			sort.Strings(kf)
			_ = st
			// ... and is a total order: values are compared directly, not through a difference and a tolerance
			// ("equal within epsilon" is not transitive; the sort result then depends on the input order)
			var arith []string
			for _, cs := range CallsIn(cmp) {
				if cs.Fn != cmp {
					continue
				}
				if cs.Callee.Pkg == "cosmossdk.io/math" {
					switch cs.Callee.Name {
					case "Sub", "Abs", "Quo", "Mul", "Add", "Neg", "QuoInt", "MulInt", "Round", "RoundInt", "TruncateInt", "Ceil", "Floor":
						arith = append(arith, cs.Callee.Recv+"."+cs.Callee.Name)
					}
				}
				if cs.Callee.Pkg == "math" && (cs.Callee.Name == "Abs" || cs.Callee.Name == "Round" || cs.Callee.Name == "Floor") {
					arith = append(arith, "math."+cs.Callee.Name)
				}
			}
			sort.Strings(arith)
			o.Check("C08.R2", w.FuncKey(f)+"|comparator compares values exactly", len(arith) == 0, w.Pos(s.Instr.Pos()),
				"the comparator computes with the compared values ("+strings.Join(arith, ",")+") instead of comparing them: a tolerance makes near ties cyclic, and the order after sorting depends on the (map) order before")
			o.Check("C08.R2", w.FuncKey(f)+"|comparator breaks ties on the map key", ok, w.Pos(s.Instr.Pos()),
				"the comparator restoring order after a map range must compare the field filled from the map key ("+strings.Join(kf, ",")+"), otherwise equal-score elements keep map iteration order")
		}
	}
}

func isParamRoot(m map[ssa.Value]bool) bool {
	for v := range m {
		if _, ok := v.(*ssa.Parameter); ok {
			return true
		}
	}
	return false
}

// ---- in-memory state written on runtime paths (shared by C08.R3 and the per-module rules) --------

type memWrite struct {
	fn       *ssa.Function
	key, pos string
	detail   string
}

var memWritesMemo struct {
	done    bool
	w       *World
	list    []memWrite
	nStores int
	all     ReachSet
}

// inMemoryWrites: every store into a package variable, into a long-lived (wiring-time) object, or
// through a sync.Map / sync/atomic value that is not function-local, in production functions reachable
// from runtime entry points and queries. Such state is not part of the multistore: it is not rolled
// back with a failed transaction, a simulation or a discarded cache context.
func inMemoryWrites(w *World) ([]memWrite, int, ReachSet) {
	if memWritesMemo.done && memWritesMemo.w == w {
		return memWritesMemo.list, memWritesMemo.nStores, memWritesMemo.all
	}
	computeWiringTypes(w)
	all := w.Reach(entryFns(w.EntriesOf("msg", "abci", "ante", "gov", "wasm", "hook", "query")), nil)
	nStores := 0
	var out []memWrite
	var afns []*ssa.Function
	for f := range all {
		afns = append(afns, f)
	}
	sort.Slice(afns, func(i, j int) bool { return w.FuncKey(afns[i]) < w.FuncKey(afns[j]) })
	for _, f := range afns {
		if !w.IsProd(f) {
			continue
		}
		for _, b := range f.Blocks {
			for _, in := range b.Instrs {
				switch x := in.(type) {
				case *ssa.Store:
					nStores++
					if g, ok := baseOf(x.Addr).(*ssa.Global); ok {
						out = append(out, memWrite{f, w.FuncKey(f) + "|store to package variable " + g.Name(), w.Pos(x.Pos()), "package-level state written on a runtime path survives the call"})
						continue
					}
					if longLived(f, x.Addr) {
						out = append(out, memWrite{f, w.FuncKey(f) + "|store into long-lived object " + fieldPath(x.Addr), w.Pos(x.Pos()),
							"a field of a keeper-level object reached through a pointer is written on a runtime path; the value survives into later blocks and queries"})
					}
				case *ssa.MapUpdate:
					nStores++
					if longLived(f, x.Map) {
						out = append(out, memWrite{f, w.FuncKey(f) + "|map update in long-lived object " + fieldPath(x.Map), w.Pos(x.Pos()),
							"a map held by a keeper-level object is updated on a runtime path; the entry survives into later blocks and queries"})
					}
				case ssa.CallInstruction:
					c, ok := CalleeOf(x.Common())
					if !ok || (c.Pkg != "sync" && c.Pkg != "sync/atomic") {
						continue
					}
					mut := false
					switch c.Name {
					case "Store", "LoadOrStore", "LoadAndDelete", "Delete", "Swap", "CompareAndSwap", "CompareAndDelete", "Clear", "Add", "And", "Or":
						mut = c.Recv == "Map" || c.Pkg == "sync/atomic"
					}
					if c.Pkg == "sync" && c.Recv == "Once" && c.Name == "Do" {
						mut = true // "already done" is process-lifetime state: it resets with a restart, not with the chain
					}
					if c.Pkg == "sync/atomic" && c.Recv == "" && (strings.HasPrefix(c.Name, "Store") || strings.HasPrefix(c.Name, "Add") || strings.HasPrefix(c.Name, "Swap") || strings.HasPrefix(c.Name, "CompareAndSwap")) {
						mut = true
					}
					if !mut || len(x.Common().Args) == 0 {
						continue
					}
					nStores++
					if _, local := baseOf(x.Common().Args[0]).(*ssa.Alloc); local {
						continue
					}
					out = append(out, memWrite{f, w.FuncKey(f) + "|" + c.Pkg + "." + c.Recv + "." + c.Name + " on a shared object", w.Pos(x.Pos()),
						"a concurrent map / atomic value that outlives the call is written on a runtime path: an in-memory cache beside the store, not rolled back with it"})
				}
			}
		}
	}
	memWritesMemo.done, memWritesMemo.w, memWritesMemo.list, memWritesMemo.nStores, memWritesMemo.all = true, w, out, nStores, all
	return out, nStores, all
}

// memStateRule: the decisions of the modules under pkgs are taken from committed store state only.
func memStateRule(w *World, o *Out, rule, what string, pkgs ...string) {
	mw, _, all := inMemoryWrites(w)
	n := 0
	for _, m := range mw {
		p := funcPkgPath(m.fn)
		hit := false
		for _, q := range pkgs {
			if strings.Contains(p, q) {
				hit = true
			}
		}
		if !hit {
			continue
		}
		n++
		o.Fail(rule, m.key, m.pos, what+": "+m.detail+" (a value remembered outside the multistore is not rolled back when a transaction, simulation or cached branch is discarded, so later decisions are taken from state that was never committed)", w.Path(all, m.fn)...)
	}
	if n == 0 {
		o.Pass(rule, strings.Join(pkgs, ",")+"|no in-memory state beside the store on runtime paths", "-", what)
	}
}

// zoneSource: constructors whose result carries the process-local time zone.
func zoneSource(c Callee) string {
	if c.Pkg != "time" {
		return ""
	}
	switch c.Name {
	case "Unix", "UnixMilli", "UnixMicro":
		if c.Recv == "" {
			return "time." + c.Name
		}
	case "Local":
		return "Time.Local"
	case "LoadLocation", "ParseInLocation":
		return "time." + c.Name
	}
	return ""
}

// zoneSensitiveUse: a calendar / formatting method is applied to v (or to a time derived from it by
// zone-preserving arithmetic) before any conversion to UTC.
func zoneSensitiveUse(v ssa.Value, depth int) string {
	if depth > 6 || v.Referrers() == nil {
		return ""
	}
	for _, r := range *v.Referrers() {
		switch x := r.(type) {
		case *ssa.Call:
			c, ok := CalleeOf(x.Common())
			if !ok || c.Pkg != "time" || c.Recv != "Time" {
				continue
			}
			switch c.Name {
			case "UTC":
				continue
			case "AddDate", "Date", "Year", "Month", "Day", "Weekday", "YearDay", "ISOWeek", "Hour", "Clock", "Format", "AppendFormat", "String", "Zone", "ZoneBounds", "MarshalJSON", "MarshalText", "GoString":
				return "Time." + c.Name
			case "Add", "Round", "Truncate":
				if u := zoneSensitiveUse(x, depth+1); u != "" {
					return u
				}
			}
		case *ssa.Store:
			// spilled local: follow the loads of the slot
			if al, ok := x.Addr.(*ssa.Alloc); ok && x.Val == v {
				for _, r2 := range *al.Referrers() {
					if ld, ok := r2.(*ssa.UnOp); ok {
						if u := zoneSensitiveUse(ld, depth+1); u != "" {
							return u
						}
					}
				}
			}
		}
	}
	return ""
}

// sliceHasOptionRead: the expression v is computed (through operators, conversions and call arguments, within
// one function) from a servertypes.AppOptions.Get call; returns that call.
func sliceHasOptionRead(v ssa.Value) ssa.CallInstruction {
	seen := map[ssa.Value]bool{}
	var found ssa.CallInstruction
	var walk func(v ssa.Value, d int)
	walk = func(v ssa.Value, d int) {
		if v == nil || d > 8 || seen[v] || found != nil {
			return
		}
		seen[v] = true
		switch x := v.(type) {
		case *ssa.Call:
			if x.Call.IsInvoke() && x.Call.Method.Name() == "Get" && strings.Contains(x.Call.Value.Type().String(), "AppOptions") {
				found = x
				return
			}
			for _, a := range x.Call.Args {
				walk(a, d+1)
			}
		case *ssa.Extract:
			walk(x.Tuple, d+1)
		case *ssa.BinOp:
			walk(x.X, d+1)
			walk(x.Y, d+1)
		case *ssa.UnOp:
			walk(x.X, d+1)
		case *ssa.Convert:
			walk(x.X, d+1)
		case *ssa.ChangeType:
			walk(x.X, d+1)
		case *ssa.ChangeInterface:
			walk(x.X, d+1)
		case *ssa.MakeInterface:
			walk(x.X, d+1)
		case *ssa.TypeAssert:
			walk(x.X, d+1)
		case *ssa.Phi:
			for _, e := range x.Edges {
				walk(e, d+1)
			}
		}
	}
	walk(v, 0)
	return found
}

// isPureValueCallee: conversions and renderings of address values: no state, no failure mode that matters.
func isPureValueCallee(c Callee) bool {
	if c.Pkg == "github.com/cosmos/cosmos-sdk/types" {
		switch c.Recv {
		case "AccAddress", "ValAddress", "ConsAddress":
			switch c.Name {
			case "Bytes", "String", "Empty", "Equals":
				return true
			}
		}
	}
	return c.Pkg == "encoding/hex" && (c.Name == "EncodeToString")
}

// loggerPickedByHelper: the called function value is the result of a module helper that does nothing but
// obtain a logger and return one of its methods.
func loggerPickedByHelper(v ssa.Value, depth int) bool {
	c, ok := canon(v).(*ssa.Call)
	if !ok {
		return false
	}
	h := c.Call.StaticCallee()
	if h == nil || !onlyLogsFn(h, depth+1) {
		return false
	}
	if _, isFn := h.Signature.Results().At(0).Type().Underlying().(*types.Signature); h.Signature.Results().Len() != 1 || !isFn {
		return false
	}
	for _, b := range h.Blocks {
		if r, isR := b.Instrs[len(b.Instrs)-1].(*ssa.Return); isR && len(r.Results) == 1 {
			if !isLoggingValue(r.Results[0], 0) {
				return false
			}
		}
	}
	return true
}

// selfComparisons lists the comparisons inside a two-parameter less function whose two operands are
// computed from the same single parameter (required[i][1] < required[i][1]).
func selfComparisons(cmp *ssa.Function) []string {
	if len(cmp.Params) < 2 {
		return nil
	}
	memo := map[ssa.Value]int{}
	var deps func(v ssa.Value, d int) int
	deps = func(v ssa.Value, d int) int {
		if m, ok := memo[v]; ok {
			return m
		}
		memo[v] = 0
		r := 0
		if p, ok := v.(*ssa.Parameter); ok {
			for i, q := range cmp.Params {
				if q == p && i < 2 {
					r = 1 << i
				}
			}
		} else if in, ok := v.(ssa.Instruction); ok && d < 30 {
			for _, op := range in.Operands(nil) {
				if *op != nil {
					r |= deps(*op, d+1)
				}
			}
			// a local kept in memory (a spilled parameter) holds what was stored into it
			if a, ok := v.(*ssa.Alloc); ok {
				for _, ref := range *a.Referrers() {
					if st, ok := ref.(*ssa.Store); ok && st.Addr == ssa.Value(a) {
						r |= deps(st.Val, d+1)
					}
				}
			}
		}
		memo[v] = r
		return r
	}
	var out []string
	report := func(x, y ssa.Value, pos token.Pos) {
		dx, dy := deps(x, 0), deps(y, 0)
		if dx == dy && (dx == 1 || dx == 2) {
			out = append(out, cmp.Prog.Fset.Position(pos).String())
		}
	}
	for _, b := range cmp.Blocks {
		for _, in := range b.Instrs {
			switch x := in.(type) {
			case *ssa.BinOp:
				switch x.Op {
				case token.LSS, token.GTR, token.LEQ, token.GEQ, token.EQL, token.NEQ:
					report(x.X, x.Y, x.Pos())
				}
			case *ssa.Call:
				if cal, ok := CalleeOf(x.Common()); ok {
					switch cal.Name {
					case "LT", "GT", "LTE", "GTE", "Equal", "Cmp", "Compare", "Before", "After":
						if args := x.Common().Args; len(args) == 2 {
							report(args[0], args[1], x.Pos())
						}
					}
				}
			}
		}
	}
	for i := range out {
		if j := strings.LastIndex(out[i], "/"); j >= 0 {
			out[i] = out[i][j+1:]
		}
	}
	sort.Strings(out)
	return out
}
