package main

// reach.go — entry points discovered by role (§1.2 of DESIGN.md) and P6:
// module-restricted reachability over the VTA call graph with witness paths.

import (
	"go/types"
	"sort"
	"strings"

	"golang.org/x/tools/go/callgraph"
	"golang.org/x/tools/go/ssa"
)

type Entry struct {
	Class string // msg | query | abci | genesis | ante | gov | wasm | hook | invariant
	Name  string
	Fn    *ssa.Function
	Req   types.Type // request type for msg handlers
	Mod   string     // module ("skyway", ...)
}

func modOfPkg(p string) string {
	p = strings.TrimPrefix(p, modPath+"/")
	parts := strings.Split(p, "/")
	if len(parts) >= 2 && parts[0] == "x" {
		return parts[1]
	}
	return parts[0]
}

// implementorsOf returns production named types (T or *T) of the module that implement iface.
func (w *World) implementorsOf(iface *types.Interface) []types.Type {
	var out []types.Type
	for _, p := range w.Pkgs {
		if nonProdPkg(p.PkgPath) {
			continue
		}
		sc := p.Types.Scope()
		for _, n := range sc.Names() {
			tn, ok := sc.Lookup(n).(*types.TypeName)
			if !ok || tn.IsAlias() {
				continue
			}
			if nonProdFile(w.Fset.Position(tn.Pos()).Filename) {
				continue
			}
			t := tn.Type()
			if types.IsInterface(t) {
				continue
			}
			if strings.HasPrefix(n, "Unimplemented") {
				continue
			}
			if _, ok := t.(*types.Named); !ok {
				continue
			}
			if t.(*types.Named).TypeParams().Len() > 0 {
				continue
			}
			if types.Implements(t, iface) {
				out = append(out, t)
			} else if types.Implements(types.NewPointer(t), iface) {
				out = append(out, types.NewPointer(t))
			}
		}
	}
	return out
}

func (w *World) methodFn(t types.Type, name string) *ssa.Function {
	ms := w.Prog.MethodSets.MethodSet(t)
	for i := 0; i < ms.Len(); i++ {
		sel := ms.At(i)
		if sel.Obj().Name() != name {
			continue
		}
		fn := w.Prog.MethodValue(sel)
		if fn == nil {
			return nil
		}
		// unwrap promotion wrappers (embedded Keeper): follow to the declared method
		if fn.Synthetic != "" {
			if tgt := w.Prog.FuncValue(sel.Obj().(*types.Func)); tgt != nil {
				return tgt
			}
		}
		return fn
	}
	return nil
}

var entriesMemo []Entry

// Entries discovers all entry points by role.
func (w *World) Entries() []Entry {
	if entriesMemo != nil {
		return entriesMemo
	}
	var out []Entry
	seenE := map[string]bool{}
	add := func(e Entry) {
		if e.Fn != nil && len(e.Fn.Blocks) > 0 {
			k := e.Class + "|" + e.Fn.String() + "|" + e.Name
			if seenE[k] {
				return
			}
			seenE[k] = true
			out = append(out, e)
		}
	}
	for _, p := range w.Pkgs {
		if nonProdPkg(p.PkgPath) {
			continue
		}
		sc := p.Types.Scope()
		mod := modOfPkg(p.PkgPath)
		// generated service interfaces
		for _, svc := range []struct{ iface, class string }{{"MsgServer", "msg"}, {"QueryServer", "query"}} {
			obj := sc.Lookup(svc.iface)
			if obj == nil {
				continue
			}
			it, ok := obj.Type().Underlying().(*types.Interface)
			if !ok {
				continue
			}
			for _, impl := range w.implementorsOf(it) {
				for i := 0; i < it.NumMethods(); i++ {
					m := it.Method(i)
					fn := w.methodFn(impl, m.Name())
					var req types.Type
					sig := m.Type().(*types.Signature)
					if sig.Params().Len() == 2 {
						req = sig.Params().At(1).Type()
					}
					add(Entry{Class: svc.class, Name: mod + "." + m.Name(), Fn: fn, Req: req, Mod: mod})
				}
			}
		}
		// AppModule ABCI / genesis methods
		if obj := sc.Lookup("AppModule"); obj != nil && strings.HasPrefix(p.PkgPath, modPath+"/x/") {
			t := obj.Type()
			for _, n := range []string{"BeginBlock", "EndBlock", "PreBlock"} {
				for _, tt := range []types.Type{t, types.NewPointer(t)} {
					if fn := w.methodFn(tt, n); fn != nil && w.IsProd(fn) {
						add(Entry{Class: "abci", Name: mod + "." + n, Fn: fn, Mod: mod})
						break
					}
				}
			}
			for _, n := range []string{"InitGenesis", "ExportGenesis"} {
				for _, tt := range []types.Type{t, types.NewPointer(t)} {
					if fn := w.methodFn(tt, n); fn != nil && w.IsProd(fn) {
						add(Entry{Class: "genesis", Name: mod + "." + n, Fn: fn, Mod: mod})
						break
					}
				}
			}
			for _, tt := range []types.Type{t, types.NewPointer(t)} {
				if fn := w.methodFn(tt, "RegisterInvariants"); fn != nil && w.IsProd(fn) {
					add(Entry{Class: "invariant", Name: mod + ".RegisterInvariants", Fn: fn, Mod: mod})
					break
				}
			}
		}
	}
	// ante decorators, gov handlers, wasm messengers, staking hooks: by signature / result type
	for _, f := range w.ProdFuncs {
		if f.Parent() != nil {
			continue
		}
		mod := modOfPkg(funcPkgPath(f))
		switch {
		case f.Name() == "AnteHandle" && f.Signature.Recv() != nil:
			add(Entry{Class: "ante", Name: mod + "." + recvName(f) + ".AnteHandle", Fn: f, Mod: mod})
		case f.Name() == "DispatchMsg" && f.Signature.Recv() != nil:
			add(Entry{Class: "wasm", Name: mod + "." + recvName(f) + ".DispatchMsg", Fn: f, Mod: mod})
		case f.Signature.Recv() != nil && recvName(f) == "Hooks" && (strings.HasPrefix(f.Name(), "After") || strings.HasPrefix(f.Name(), "Before")):
			add(Entry{Class: "hook", Name: mod + ".Hooks." + f.Name(), Fn: f, Mod: mod})
		case f.Signature.Recv() == nil && f.Signature.Results().Len() == 1:
			rt := f.Signature.Results().At(0).Type()
			if n, ok := rt.(*types.Named); ok && n.Obj().Name() == "Handler" && n.Obj().Pkg() != nil &&
				strings.HasSuffix(n.Obj().Pkg().Path(), "x/gov/types/v1beta1") {
				for _, an := range f.AnonFuncs {
					add(Entry{Class: "gov", Name: mod + "." + f.Name(), Fn: an, Mod: mod})
				}
			}
		}
	}
	sort.Slice(out, func(i, j int) bool {
		if out[i].Class != out[j].Class {
			return out[i].Class < out[j].Class
		}
		return out[i].Name < out[j].Name
	})
	entriesMemo = out
	return out
}

func recvName(f *ssa.Function) string {
	if r := f.Signature.Recv(); r != nil {
		if n := namedOf(r.Type()); n != nil {
			return n.Obj().Name()
		}
	}
	return ""
}

func (w *World) EntriesOf(classes ...string) []Entry {
	var out []Entry
	for _, e := range w.Entries() {
		for _, c := range classes {
			if e.Class == c {
				out = append(out, e)
			}
		}
	}
	return out
}

// ---- reachability --------------------------------------------------------------

type ReachInfo struct {
	Parent *ssa.Function
	Site   ssa.CallInstruction
	Root   *ssa.Function
}

type ReachSet map[*ssa.Function]*ReachInfo

// followable: module function that is not test/mock/cli code (synthetic wrappers are traversed).
func (w *World) followable(f *ssa.Function) bool {
	p := funcPkgPath(f)
	if !strings.HasPrefix(p, modPath) || nonProdPkg(p) {
		return false
	}
	if pos := f.Pos(); pos.IsValid() && nonProdFile(w.Fset.Position(pos).Filename) {
		return false
	}
	return true
}

// Reach computes the module functions reachable from roots. stop(f) prevents the
// traversal from entering f's callees (f itself is recorded).
func (w *World) Reach(roots []*ssa.Function, stop func(*ssa.Function) bool) ReachSet {
	cg := w.CG()
	rs := ReachSet{}
	var work []*ssa.Function
	for _, r := range roots {
		if r == nil || rs[r] != nil {
			continue
		}
		rs[r] = &ReachInfo{Root: r}
		work = append(work, r)
	}
	for len(work) > 0 {
		f := work[0]
		work = work[1:]
		if stop != nil && stop(f) && rs[f].Parent != nil {
			continue
		}
		push := func(g *ssa.Function, site ssa.CallInstruction) {
			if g == nil || rs[g] != nil || !w.followable(g) {
				return
			}
			rs[g] = &ReachInfo{Parent: f, Site: site, Root: rs[f].Root}
			work = append(work, g)
		}
		if n := cg.Nodes[f]; n != nil {
			// deterministic order
			edges := append([]*callgraph.Edge{}, n.Out...)
			sort.SliceStable(edges, func(i, j int) bool {
				pi, pj := edges[i].Pos(), edges[j].Pos()
				if pi != pj {
					return pi < pj
				}
				return edges[i].Callee.Func.String() < edges[j].Callee.Func.String()
			})
			hasEdge := map[ssa.CallInstruction]bool{}
			for _, e := range edges {
				push(e.Callee.Func, e.Site)
				hasEdge[e.Site] = true
			}
			// Interface calls for which VTA found no callee at all: the concrete value entered through
			// reflection (codec.UnmarshalInterface of a stored message). For interfaces declared in this
			// module fall back to class-hierarchy resolution over production types.
			for _, b := range f.Blocks {
				for _, in := range b.Instrs {
					ci, ok := in.(ssa.CallInstruction)
					if !ok || !ci.Common().IsInvoke() || hasEdge[ci] {
						continue
					}
					for _, g := range w.chaModuleCallees(ci.Common()) {
						push(g, ci)
					}
				}
			}
		}
		// anonymous functions lexically inside a visited function (closures handed to SDK iterators etc.)
		for _, an := range f.AnonFuncs {
			push(an, nil)
		}
	}
	return rs
}

// Path returns the witness call path root → ... → f.
func (w *World) Path(rs ReachSet, f *ssa.Function) []string {
	var rev []string
	for g := f; g != nil; {
		ri := rs[g]
		if ri == nil {
			break
		}
		s := w.FuncKey(g)
		if ri.Site != nil {
			s += "  (called at " + w.Pos(ri.Site.Pos()) + ")"
		}
		rev = append(rev, s)
		g = ri.Parent
	}
	for i, j := 0, len(rev)-1; i < j; i, j = i+1, j-1 {
		rev[i], rev[j] = rev[j], rev[i]
	}
	return rev
}

func entryFns(es []Entry) []*ssa.Function {
	var out []*ssa.Function
	for _, e := range es {
		out = append(out, e.Fn)
	}
	return out
}

// hasRecoverFrame: f establishes `defer func(){ recover() ... }()` (directly).
func hasRecoverFrame(f *ssa.Function) bool {
	for _, b := range f.Blocks {
		for _, in := range b.Instrs {
			d, ok := in.(*ssa.Defer)
			if !ok {
				continue
			}
			var fn *ssa.Function
			switch v := d.Call.Value.(type) {
			case *ssa.MakeClosure:
				fn, _ = v.Fn.(*ssa.Function)
			case *ssa.Function:
				fn = v
			}
			if fn == nil {
				continue
			}
			for _, g := range WithAnon(fn) {
				for _, bb := range g.Blocks {
					for _, i2 := range bb.Instrs {
						if c, ok := i2.(*ssa.Call); ok {
							if bi, ok := c.Call.Value.(*ssa.Builtin); ok && bi.Name() == "recover" {
								return true
							}
						}
					}
				}
			}
		}
	}
	return false
}

// ClassReach caches forward reach sets per entry class.
type ClassReach struct {
	w    *World
	sets map[string]ReachSet
}

func (w *World) ClassReach() *ClassReach {
	return &ClassReach{w: w, sets: map[string]ReachSet{}}
}

func (cr *ClassReach) Of(class string) ReachSet {
	if s, ok := cr.sets[class]; ok {
		return s
	}
	s := cr.w.Reach(entryFns(cr.w.EntriesOf(class)), nil)
	cr.sets[class] = s
	return s
}

// ClassesReaching lists the entry classes from which f is reachable.
func (cr *ClassReach) ClassesReaching(f *ssa.Function) []string {
	var out []string
	for _, c := range []string{"msg", "abci", "genesis", "ante", "gov", "wasm", "hook", "query", "invariant"} {
		if cr.Of(c)[f] != nil {
			out = append(out, c)
		}
	}
	return out
}

var chaMemo = map[string][]*ssa.Function{}

// chaModuleCallees: production implementations of an invoked method of a module-declared interface.
func (w *World) chaModuleCallees(c *ssa.CallCommon) []*ssa.Function {
	n, ok := c.Value.Type().(*types.Named)
	if !ok || n.Obj().Pkg() == nil || !strings.HasPrefix(n.Obj().Pkg().Path(), modPath) {
		return nil
	}
	iface, ok := n.Underlying().(*types.Interface)
	if !ok {
		return nil
	}
	key := n.Obj().Pkg().Path() + "." + n.Obj().Name() + "." + c.Method.Name()
	if r, ok := chaMemo[key]; ok {
		return r
	}
	var out []*ssa.Function
	for _, t := range w.implementorsOf(iface) {
		if fn := w.methodFn(t, c.Method.Name()); fn != nil {
			out = append(out, fn)
		}
	}
	sort.Slice(out, func(i, j int) bool { return out[i].String() < out[j].String() })
	chaMemo[key] = out
	return out
}
