package main

// prims.go — P7 (Writers): store and bank mutation sites with the key classes
// (globals, key-builder calls, string constants) their key / store arguments depend on.

import (
	"go/types"
	"sort"
	"strings"

	"golang.org/x/tools/go/ssa"
)

type Mut struct {
	Site Site
	Op   string   // Set | Delete | Save | IncrementNextID | bank:<name>
	Tags []string // key/store classes: "global:NAME", "call:pkg.Func", "const:text"
}

func (m Mut) Has(tag string) bool {
	for _, t := range m.Tags {
		if t == tag {
			return true
		}
	}
	return false
}

func (m Mut) HasPrefix(p string) bool {
	for _, t := range m.Tags {
		if strings.HasPrefix(t, p) {
			return true
		}
	}
	return false
}

func isKVStoreType(t types.Type) bool {
	n := namedOf(t)
	if n == nil {
		return false
	}
	name := n.Obj().Name()
	pkg := ""
	if n.Obj().Pkg() != nil {
		pkg = n.Obj().Pkg().Path()
	}
	if name == "KVStore" || name == "BasicKVStore" {
		return true
	}
	if name == "Store" && (strings.HasSuffix(pkg, "store/prefix") || strings.HasSuffix(pkg, "store/cachekv") || strings.HasSuffix(pkg, "store/gaskv")) {
		return true
	}
	return false
}

func tagsOf(fl *Flow, vals ...ssa.Value) []string {
	m := map[string]bool{}
	for _, v := range vals {
		if v == nil {
			continue
		}
		aps, calls := fl.Influence(v)
		for a := range aps {
			switch r := a.Root.(type) {
			case *ssa.Global:
				m["global:"+r.Name()] = true
			case *ssa.Const:
				m[a.String()] = true
			}
		}
		for c := range calls {
			if cal, ok := CalleeOf(c.Common()); ok && cal.Pkg != "builtin" {
				m["call:"+cal.String()] = true
			}
		}
	}
	var out []string
	for k := range m {
		out = append(out, k)
	}
	sort.Strings(out)
	return out
}

var bankMutators = map[string]bool{
	"MintCoins": true, "BurnCoins": true, "SendCoins": true,
	"SendCoinsFromModuleToAccount": true, "SendCoinsFromAccountToModule": true,
	"SendCoinsFromModuleToModule": true, "DelegateCoinsFromAccountToModule": true,
	"UndelegateCoinsFromModuleToAccount": true, "FundCommunityPool": true,
}

func isBankKeeperRecv(c Callee) bool {
	if !bankMutators[c.Name] {
		return false
	}
	return strings.Contains(c.Recv, "Bank") || strings.Contains(c.Recv, "Distribution") || strings.Contains(c.Recv, "DistrKeeper") ||
		strings.HasSuffix(c.Pkg, "x/bank/keeper") || strings.HasSuffix(c.Pkg, "x/distribution/keeper")
}

// StoreMuts lists every store / bank mutation site in production code.
func (w *World) StoreMuts(fl *Flow) []Mut {
	var out []Mut
	for _, f := range w.ProdFuncs {
		out = append(out, w.mutsIn(fl, f)...)
	}
	return out
}

func (w *World) mutsIn(fl *Flow, f *ssa.Function) []Mut {
	var out []Mut
	for _, s := range CallsIn(f) {
		c := s.Callee
		args := s.Args()
		switch {
		case (c.Name == "Set" || c.Name == "Delete") && len(args) >= 2 && isKVStoreType(args[0].Type()):
			out = append(out, Mut{Site: s, Op: c.Name, Tags: tagsOf(fl, args[0], args[1])})
		case c.Name == "Save" && c.Pkg == modPath+"/util/keeper" && len(args) >= 3:
			if c.Recv != "" && len(args) >= 4 {
				out = append(out, Mut{Site: s, Op: "Save", Tags: tagsOf(fl, args[1], args[3])})
			} else {
				out = append(out, Mut{Site: s, Op: "Save", Tags: tagsOf(fl, args[0], args[2])})
			}
		case c.Name == "Set" && c.Recv == "kvStoreWrapper":
			out = append(out, Mut{Site: s, Op: "Set", Tags: tagsOf(fl, args[0], args[2])})
		case c.Name == "IncrementNextID" && (c.Recv == "IDGenerator" || c.Iface) && len(args) >= 3:
			out = append(out, Mut{Site: s, Op: "IncrementNextID", Tags: tagsOf(fl, args[0], args[2])})
		case isBankKeeperRecv(c):
			out = append(out, Mut{Site: s, Op: "bank:" + c.Name, Tags: tagsOf(fl, args[1:]...)})
		}
	}
	return out
}
