package main

// prims.go — P7 (Writers): store and bank mutation sites with the key classes
// (globals, key-builder calls, string constants) their key / store arguments depend on.

import (
	"go/token"
	"go/types"
	"sort"
	"strings"

	"golang.org/x/tools/go/ssa"
)

type Mut struct {
	Site Site
	Op   string   // Set | Delete | Save | IncrementNextID | bank:<name>
	Tags []string // key/store classes: "global:NAME", "call:pkg.Func", "const:text"
}

func (m Mut) Has(tag string) bool {
	for _, t := range m.Tags {
		if t == tag {
			return true
		}
	}
	return false
}

func (m Mut) HasPrefix(p string) bool {
	for _, t := range m.Tags {
		if strings.HasPrefix(t, p) {
			return true
		}
	}
	return false
}

func isKVStoreType(t types.Type) bool {
	n := namedOf(t)
	if n == nil {
		return false
	}
	name := n.Obj().Name()
	pkg := ""
	if n.Obj().Pkg() != nil {
		pkg = n.Obj().Pkg().Path()
	}
	if name == "KVStore" || name == "BasicKVStore" {
		return true
	}
	if name == "Store" && (strings.HasSuffix(pkg, "store/prefix") || strings.HasSuffix(pkg, "store/cachekv") || strings.HasSuffix(pkg, "store/gaskv")) {
		return true
	}
	return false
}

func tagsOf(fl *Flow, vals ...ssa.Value) []string {
	m := map[string]bool{}
	for _, v := range vals {
		if v == nil {
			continue
		}
		aps, calls := fl.Influence(v)
		for a := range aps {
			switch r := a.Root.(type) {
			case *ssa.Global:
				m["global:"+r.Name()] = true
			case *ssa.Const:
				m[a.String()] = true
			}
		}
		for c := range calls {
			if cal, ok := CalleeOf(c.Common()); ok && cal.Pkg != "builtin" {
				m["call:"+cal.String()] = true
			}
		}
	}
	var out []string
	for k := range m {
		out = append(out, k)
	}
	sort.Strings(out)
	return out
}

var bankMutators = map[string]bool{
	"MintCoins": true, "BurnCoins": true, "SendCoins": true,
	"SendCoinsFromModuleToAccount": true, "SendCoinsFromAccountToModule": true,
	"SendCoinsFromModuleToModule": true, "DelegateCoinsFromAccountToModule": true,
	"UndelegateCoinsFromModuleToAccount": true, "FundCommunityPool": true,
}

func isBankKeeperRecv(c Callee) bool {
	if !bankMutators[c.Name] {
		return false
	}
	return strings.Contains(c.Recv, "Bank") || strings.Contains(c.Recv, "Distribution") || strings.Contains(c.Recv, "DistrKeeper") ||
		strings.HasSuffix(c.Pkg, "x/bank/keeper") || strings.HasSuffix(c.Pkg, "x/distribution/keeper")
}

// StoreMuts lists every store / bank mutation site in production code.
func (w *World) StoreMuts(fl *Flow) []Mut {
	var out []Mut
	for _, f := range w.ProdFuncs {
		out = append(out, w.mutsIn(fl, f)...)
	}
	return out
}

func (w *World) mutsIn(fl *Flow, f *ssa.Function) []Mut {
	var out []Mut
	for _, s := range CallsIn(f) {
		c := s.Callee
		args := s.Args()
		switch {
		case (c.Name == "Set" || c.Name == "Delete") && len(args) >= 2 && isKVStoreType(args[0].Type()):
			out = append(out, Mut{Site: s, Op: c.Name, Tags: tagsOf(fl, args[0], args[1])})
		case c.Name == "Save" && c.Pkg == modPath+"/util/keeper" && len(args) >= 3:
			if c.Recv != "" && len(args) >= 4 {
				out = append(out, Mut{Site: s, Op: "Save", Tags: tagsOf(fl, args[1], args[3])})
			} else {
				out = append(out, Mut{Site: s, Op: "Save", Tags: tagsOf(fl, args[0], args[2])})
			}
		case c.Name == "Set" && c.Recv == "kvStoreWrapper":
			out = append(out, Mut{Site: s, Op: "Set", Tags: tagsOf(fl, args[0], args[2])})
		case c.Name == "IncrementNextID" && (c.Recv == "IDGenerator" || c.Iface) && len(args) >= 3:
			out = append(out, Mut{Site: s, Op: "IncrementNextID", Tags: tagsOf(fl, args[0], args[2])})
		case isBankKeeperRecv(c):
			out = append(out, Mut{Site: s, Op: "bank:" + c.Name, Tags: tagsOf(fl, args[1:]...)})
		}
	}
	return out
}

// coinLeaves strips the container constructors around a coins argument (sdk.NewCoins(x...),
// sdk.Coins{x}, the variadic backing array) and returns the element values as written in the
// source. A leaf that is the result of arithmetic (x.Add(y), NewCoin(d, a.Mul(b))) is returned
// as that call, so that callers can demand "exactly this value" rather than "derived from".
func coinLeaves(v ssa.Value) []ssa.Value {
	var out []ssa.Value
	seen := map[ssa.Value]bool{}
	var walk func(v ssa.Value, d int)
	walk = func(v ssa.Value, d int) {
		v = canon(v)
		if seen[v] || d > 8 {
			return
		}
		seen[v] = true
		switch x := v.(type) {
		case *ssa.Call:
			if cal, ok := CalleeOf(x.Common()); ok && strings.HasSuffix(cal.Pkg, "cosmos-sdk/types") && cal.Name == "NewCoins" {
				for _, a := range x.Call.Args {
					walk(a, d+1)
				}
				return
			}
		case *ssa.Slice:
			walk(x.X, d+1)
			return
		case *ssa.Alloc:
			// backing array of a variadic call or composite literal: collect the element stores
			n := 0
			for _, r := range *x.Referrers() {
				ia, ok := r.(*ssa.IndexAddr)
				if !ok {
					continue
				}
				for _, r2 := range *ia.Referrers() {
					if st, ok := r2.(*ssa.Store); ok && st.Addr == ssa.Value(ia) {
						walk(st.Val, d+1)
						n++
					}
				}
			}
			if n > 0 {
				return
			}
		case *ssa.MakeInterface:
			walk(x.X, d+1)
			return
		case *ssa.ChangeType:
			walk(x.X, d+1)
			return
		case *ssa.Convert:
			walk(x.X, d+1)
			return
		}
		out = append(out, v)
	}
	walk(v, 0)
	return out
}

// isParamNamed: v is the named parameter itself (possibly through its spill slot).
func isParamNamed(v ssa.Value, name string) bool {
	v = canon(v)
	if p, ok := v.(*ssa.Parameter); ok {
		return p.Name() == name
	}
	if u, ok := v.(*ssa.UnOp); ok && u.Op == token.MUL {
		if al, ok := u.X.(*ssa.Alloc); ok {
			for _, r := range *al.Referrers() {
				if st, ok := r.(*ssa.Store); ok && st.Addr == ssa.Value(al) {
					if p, ok := st.Val.(*ssa.Parameter); ok && p.Name() == name {
						return true
					}
				}
			}
		}
	}
	return false
}

func derefType(t types.Type) types.Type {
	if p, ok := t.Underlying().(*types.Pointer); ok {
		return p.Elem()
	}
	return t
}

// isCtxParam: a context.Context / sdk.Context parameter (carries no message content).
func isCtxParam(p *ssa.Parameter) bool {
	t := p.Type().String()
	return strings.HasSuffix(t, "context.Context") || strings.HasSuffix(t, "types.Context")
}
