package main

// C09 — begin- and end-of-block processing never aborts.

import (
	"fmt"
	"go/token"
	"go/types"
	"sort"
	"strings"

	"golang.org/x/tools/go/ssa"
)

func init() { register("C09", rulesC09) }

// recoveredClosure: g is an anonymous function handed (only) to whoops.Try*, which runs it under recover.
func recoveredClosure(g *ssa.Function) bool {
	par := g.Parent()
	if par == nil {
		return false
	}
	found := false
	for _, b := range par.Blocks {
		for _, in := range b.Instrs {
			mc, ok := in.(*ssa.MakeClosure)
			if !ok || mc.Fn != g {
				continue
			}
			for _, r := range *mc.Referrers() {
				ci, ok := r.(ssa.CallInstruction)
				if !ok {
					return false
				}
				c, ok := CalleeOf(ci.Common())
				if !ok || c.Pkg != "github.com/VolumeFi/whoops" || !strings.HasPrefix(c.Name, "Try") {
					return false
				}
				found = true
			}
		}
	}
	if !found {
		// plain function literal without captures: look for direct use as an argument
		for _, b := range par.Blocks {
			for _, in := range b.Instrs {
				ci, ok := in.(ssa.CallInstruction)
				if !ok {
					continue
				}
				for _, a := range ci.Common().Args {
					if a == ssa.Value(g) {
						c, ok := CalleeOf(ci.Common())
						if ok && c.Pkg == "github.com/VolumeFi/whoops" && strings.HasPrefix(c.Name, "Try") {
							found = true
						} else {
							return false
						}
					}
				}
			}
		}
	}
	return found
}

type panicSite struct {
	fn    *ssa.Function
	class string
	desc  string
	pos   token.Pos
	ok    bool   // guarded / auto-accepted
	why   string // reason when ok
}

func isCodecRecv(c Callee) bool {
	return strings.Contains(c.Recv, "Codec") || c.Recv == "Marshaler" || c.Recv == "ProtoMarshaler" || strings.HasSuffix(c.Pkg, "/codec")
}

// sameReceiverGuard: site dominated by recv.<pred>() == true on the same receiver value.
func sameReceiverGuard(in ssa.Instruction, recv ssa.Value, pred string) bool {
	for _, f := range FactsAt(in) {
		if f.Kind != FTrue {
			continue
		}
		c, ok := canon(f.V).(*ssa.Call)
		if !ok {
			continue
		}
		cal, ok := CalleeOf(c.Common())
		if !ok || cal.Name != pred || len(c.Common().Args) == 0 {
			continue
		}
		if canon(c.Common().Args[0]) == canon(recv) || sameLoad(c.Common().Args[0], recv) {
			return true
		}
	}
	return false
}

func sameLoad(a, b ssa.Value) bool {
	// x.GetF() vs x.GetF() / x.F: the same getter on the same receiver
	fieldOf := func(v ssa.Value) (string, ssa.Value) {
		if c, ok := v.(*ssa.Call); ok {
			if cal, ok := CalleeOf(c.Common()); ok {
				if f := getterField(cal); f != "" {
					if c.Common().IsInvoke() {
						return f, c.Common().Value
					}
					if len(c.Common().Args) == 1 {
						return f, c.Common().Args[0]
					}
				}
			}
		}
		if n, base := loadedField(v); n != "" {
			return n, base
		}
		return "", nil
	}
	if fa, ba := fieldOf(a); fa != "" {
		if fb, bb := fieldOf(b); fb == fa && (ba == bb || canon(ba) == canon(bb)) {
			return true
		}
	}
	ua, ok1 := a.(*ssa.UnOp)
	ub, ok2 := b.(*ssa.UnOp)
	if ok1 && ok2 && ua.Op == token.MUL && ub.Op == token.MUL {
		if ua.X == ub.X {
			return true
		}
		fa, ok1 := ua.X.(*ssa.FieldAddr)
		fb, ok2 := ub.X.(*ssa.FieldAddr)
		if ok1 && ok2 && fa.Field == fb.Field && (fa.X == fb.X || sameLoad(fa.X, fb.X)) {
			return true
		}
		// s[i] vs s[i]: same index value over the same slice expression
		ia, ok1 := ua.X.(*ssa.IndexAddr)
		ib, ok2 := ub.X.(*ssa.IndexAddr)
		if ok1 && ok2 && canon(ia.Index) == canon(ib.Index) && (ia.X == ib.X || canon(ia.X) == canon(ib.X) || sameLoad(ia.X, ib.X)) {
			return true
		}
	}
	return false
}

func allConstArgs(args []ssa.Value) bool {
	for _, a := range args {
		switch x := a.(type) {
		case *ssa.Const:
		case *ssa.Call:
			if !allConstArgs(x.Common().Args) {
				return false
			}
		case *ssa.Extract:
			c, ok := x.Tuple.(*ssa.Call)
			if !ok || !allConstArgs(c.Common().Args) {
				return false
			}
		case *ssa.Slice:
			if _, ok := x.X.(*ssa.Alloc); !ok {
				return false
			}
		case *ssa.MakeInterface:
			if !allConstArgs([]ssa.Value{x.X}) {
				return false
			}
		default:
			return false
		}
	}
	return true
}

// nonZeroGuard: the divisor is a non-zero constant, or the site is dominated by a test excluding zero.
func nonZeroDivisor(in ssa.Instruction, d ssa.Value) bool {
	if c, ok := d.(*ssa.Const); ok {
		if r, ok := constRat(c); ok && r.Sign() != 0 {
			return true
		}
	}
	if c, ok := d.(*ssa.Call); ok {
		if cal, ok := CalleeOf(c.Common()); ok && cal.Pkg == "cosmossdk.io/math" && len(c.Common().Args) == 1 {
			if k, ok := c.Common().Args[0].(*ssa.Const); ok {
				if r, ok := constRat(k); ok && r.Sign() != 0 {
					return true
				}
			}
		}
	}
	// d = a.Sub(b) under !a.Equal(b)
	if sub, ok := d.(*ssa.Call); ok {
		if cal, ok := CalleeOf(sub.Common()); ok && cal.Name == "Sub" && len(sub.Common().Args) == 2 {
			for _, f := range FactsAt(in) {
				if f.Kind != FFalse {
					continue
				}
				if e, ok := canon(f.V).(*ssa.Call); ok {
					if ec, ok := CalleeOf(e.Common()); ok && ec.Name == "Equal" && len(e.Common().Args) == 2 {
						x, y := sub.Common().Args[0], sub.Common().Args[1]
						p, q := e.Common().Args[0], e.Common().Args[1]
						if (x == p && y == q) || (x == q && y == p) {
							return true
						}
					}
				}
			}
		}
	}
	for _, f := range FactsAt(in) {
		switch f.Kind {
		case FFalse:
			if c, ok := canon(f.V).(*ssa.Call); ok {
				if cal, ok := CalleeOf(c.Common()); ok && (cal.Name == "IsZero" || cal.Name == "IsNil") && len(c.Common().Args) > 0 &&
					(canon(c.Common().Args[0]) == canon(d) || sameLoad(c.Common().Args[0], d)) {
					return true
				}
			}
		case FTrue:
			if c, ok := canon(f.V).(*ssa.Call); ok {
				if cal, ok := CalleeOf(c.Common()); ok && (cal.Name == "IsPositive" || cal.Name == "GT") && len(c.Common().Args) > 0 &&
					(canon(c.Common().Args[0]) == canon(d) || sameLoad(c.Common().Args[0], d)) {
					return true
				}
			}
		case FCmp:
			for _, pair := range [][2]ssa.Value{{f.X, f.Y}, {f.Y, f.X}} {
				if canon(pair[0]) == canon(d) {
					if c, ok := pair[1].(*ssa.Const); ok {
						if r, ok := constRat(c); ok {
							if r.Sign() == 0 && (f.Op == token.NEQ || f.Op == token.GTR && pair[0] == f.X || f.Op == token.LSS && pair[0] == f.Y) {
								return true
							}
							if r.Sign() > 0 && (f.Op == token.GEQ && pair[0] == f.X || f.Op == token.GTR && pair[0] == f.X || f.Op == token.EQL) {
								return true
							}
						}
					}
				}
			}
		}
	}
	// d = [int64](min(len(s), k>0)) or len(s): non-zero when a dominating fact says len(s) != 0
	if sl := lenDerived(d); sl != nil && !isLenDerivedRecursion {
		isLenDerivedRecursion = true
		defer func() { isLenDerivedRecursion = false }()
		for _, b := range in.Parent().Blocks {
			for _, i2 := range b.Instrs {
				c, ok := i2.(*ssa.Call)
				if !ok {
					continue
				}
				if bi, ok := c.Call.Value.(*ssa.Builtin); ok && bi.Name() == "len" && len(c.Call.Args) == 1 &&
					(canon(c.Call.Args[0]) == canon(sl) || sameLoad(c.Call.Args[0], sl)) {
					if nonZeroDivisor(in, c) {
						return true
					}
				}
			}
		}
	}
	return false
}

var isLenDerivedRecursion bool

// lenDerived: d is len(s), or min(len(s), positive constants...), possibly converted; returns s.
func lenDerived(d ssa.Value) ssa.Value {
	for {
		if cv, ok := d.(*ssa.Convert); ok {
			d = cv.X
			continue
		}
		break
	}
	c, ok := d.(*ssa.Call)
	if !ok {
		return nil
	}
	bi, ok := c.Call.Value.(*ssa.Builtin)
	if !ok {
		return nil
	}
	switch bi.Name() {
	case "len":
		if len(c.Call.Args) == 1 {
			return c.Call.Args[0]
		}
	case "min":
		var s ssa.Value
		for _, a := range c.Call.Args {
			if k, ok := a.(*ssa.Const); ok {
				if r, ok := constRat(k); ok && r.Sign() > 0 {
					continue
				}
				return nil
			}
			x := lenDerived(a)
			if x == nil || s != nil {
				return nil
			}
			s = x
		}
		return s
	}
	return nil
}

func collectPanicSites(w *World, f *ssa.Function) []panicSite {
	var out []panicSite
	add := func(s panicSite) { s.fn = f; out = append(out, s) }
	for _, b := range f.Blocks {
		for _, in := range b.Instrs {
			switch x := in.(type) {
			case *ssa.Panic:
				add(panicSite{class: "panic", desc: "explicit panic", pos: x.Pos()})
			case *ssa.TypeAssert:
				if !x.CommaOk {
					add(panicSite{class: "assert", desc: "type assertion to " + types.TypeString(x.AssertedType, func(p *types.Package) string { return p.Name() }), pos: x.Pos()})
				}
			case *ssa.BinOp:
				if x.Op == token.QUO || x.Op == token.REM {
					bt, ok := x.X.Type().Underlying().(*types.Basic)
					if ok && bt.Info()&types.IsInteger != 0 {
						if _, isC := x.Y.(*ssa.Const); !isC {
							s := panicSite{class: "div", desc: "integer " + x.Op.String() + " by non-constant", pos: x.Pos()}
							if nonZeroDivisor(x, x.Y) {
								s.ok, s.why = true, "divisor guarded non-zero"
							}
							add(s)
						}
					}
				}
			case ssa.CallInstruction:
				c, ok := CalleeOf(x.Common())
				if !ok {
					continue
				}
				args := x.Common().Args
				if x.Common().IsInvoke() {
					args = append([]ssa.Value{x.Common().Value}, args...)
				}
				switch {
				case c.Pkg == "cosmossdk.io/math" && (c.Name == "Int64" || c.Name == "Uint64") && (c.Recv == "Int" || c.Recv == "Uint"):
					s := panicSite{class: "narrow", desc: c.Recv + "." + c.Name + "()", pos: x.Pos()}
					pred := map[string]string{"Int64": "IsInt64", "Uint64": "IsUint64"}[c.Name]
					if len(args) > 0 && sameReceiverGuard(x, args[0], pred) {
						s.ok, s.why = true, "guarded by "+pred
					}
					add(s)
				case c.Pkg == "cosmossdk.io/math" && c.Recv == "LegacyDec" && c.Name == "MustFloat64":
					add(panicSite{class: "narrow", desc: "LegacyDec.MustFloat64()", pos: x.Pos()})
				case c.Pkg == "cosmossdk.io/math" && (strings.HasPrefix(c.Name, "Quo") || c.Name == "Mod" || c.Name == "ModRaw") && len(args) == 2:
					s := panicSite{class: "div", desc: c.Recv + "." + c.Name, pos: x.Pos()}
					if nonZeroDivisor(x, args[1]) {
						s.ok, s.why = true, "divisor guarded non-zero"
					}
					add(s)
				case c.Pkg == "cosmossdk.io/math" && c.Recv == "Int" && c.Name != "IsNil" && len(args) > 0 && maybeUnsetInt(args[0]):
					// a math.Int that is a field of a hand-written struct may still be the zero value (nil big.Int):
					// every method but IsNil dereferences it
					s := panicSite{class: "nil-int", desc: "Int." + c.Name + " on " + fieldDesc(args[0]), pos: x.Pos()}
					if guardedAgainstZeroInt(x, args[0]) {
						s.ok, s.why = true, "compared with the zero value first"
					}
					add(s)
				case strings.HasPrefix(c.Name, "Must") || (c.Pkg == "github.com/VolumeFi/whoops" && c.Name == "Assert"):
					s := panicSite{class: "must", desc: c.String(), pos: x.Pos()}
					if isCodecRecv(c) && (c.Name == "MustMarshal" || c.Name == "MustUnmarshal" || c.Name == "MustMarshalJSON" || c.Name == "MustUnmarshalJSON" || c.Name == "MustMarshalLengthPrefixed") {
						s.ok, s.why = true, "codec round-trip of the module's own store bytes"
					} else if allConstArgs(args) {
						s.ok, s.why = true, "all arguments are compile-time constants"
					}
					add(s)
				}
			}
		}
	}
	// (g) an interface variable filled through the out-parameter of UnpackAny stays nil for a nil / empty Any
	// (UnpackAny returns nil then): a method invoked on it panics unless the variable was tested
	for _, b := range f.Blocks {
		for _, in := range b.Instrs {
			call, ok := in.(ssa.CallInstruction)
			if !ok {
				continue
			}
			c, okc := CalleeOf(call.Common())
			if !okc || c.Name != "UnpackAny" {
				continue
			}
			args := call.Common().Args
			if len(args) < 2 {
				continue
			}
			var slot *ssa.Alloc
			switch x := args[len(args)-1].(type) {
			case *ssa.Alloc:
				slot = x
			case *ssa.MakeInterface:
				slot, _ = x.X.(*ssa.Alloc)
			}
			if slot == nil || !types.IsInterface(derefType(slot.Type())) {
				continue
			}
			n := 0
			for _, r := range *slot.Referrers() {
				ld, isLd := r.(*ssa.UnOp)
				if !isLd || ld.Op != token.MUL {
					continue
				}
				for _, u := range *ld.Referrers() {
					inv, isInv := u.(ssa.CallInstruction)
					if !isInv || !inv.Common().IsInvoke() || inv.Common().Value != ssa.Value(ld) {
						continue
					}
					n++
					s := panicSite{class: "nil-iface", desc: "method " + inv.Common().Method.Name() + " on the interface filled by UnpackAny(" + fieldDesc(args[len(args)-2]) + ")", pos: inv.Pos()}
					for _, fct := range FactsAt(inv) {
						if fct.Kind == FNonNil && fct.V != nil {
							if fl, isL := fct.V.(*ssa.UnOp); isL && fl.X == ssa.Value(slot) {
								s.ok, s.why = true, "the unpacked value is tested against nil first"
							}
						}
					}
					add(s)
				}
			}
			_ = n
		}
	}
	// (e) parallel-slice indexing: B[i] inside `for i := range A` with B a different slice
	out = append(out, parallelIndexSites(w, f)...)
	// (f) decremented index a[x-k]: needs a dominating lower bound on x or on a length
	for _, b := range f.Blocks {
		for _, in := range b.Instrs {
			ia, ok := in.(*ssa.IndexAddr)
			if !ok {
				continue
			}
			if _, isSlice := ia.X.Type().Underlying().(*types.Slice); !isSlice {
				continue
			}
			sub, ok := ia.Index.(*ssa.BinOp)
			if !ok || sub.Op != token.SUB {
				continue
			}
			if _, isC := sub.Y.(*ssa.Const); !isC {
				continue
			}
			s := panicSite{fn: f, class: "index-1", desc: "slice index decremented by a constant", pos: ia.Pos()}
			if lowerBounded(ia, sub.X) {
				s.ok, s.why = true, "dominated by an ordering test on the index variable or a length"
			}
			out = append(out, s)
		}
	}
	return out
}

// lowerBounded: some dominating ordering comparison involves x itself, a value x is computed from, or a len().
func lowerBounded(in ssa.Instruction, x ssa.Value) bool {
	related := map[ssa.Value]bool{}
	var walk func(v ssa.Value, d int)
	walk = func(v ssa.Value, d int) {
		if v == nil || d > 6 || related[v] {
			return
		}
		related[v] = true
		switch y := v.(type) {
		case *ssa.BinOp:
			walk(y.X, d+1)
			walk(y.Y, d+1)
		case *ssa.Phi:
			for _, e := range y.Edges {
				walk(e, d+1)
			}
		case *ssa.Convert:
			walk(y.X, d+1)
		}
	}
	walk(x, 0)
	isLen := func(v ssa.Value) bool {
		c, ok := v.(*ssa.Call)
		if !ok {
			return false
		}
		b, ok := c.Call.Value.(*ssa.Builtin)
		return ok && b.Name() == "len"
	}
	involves := func(v ssa.Value) bool {
		seen := map[ssa.Value]bool{}
		var w2 func(v ssa.Value, d int) bool
		w2 = func(v ssa.Value, d int) bool {
			if v == nil || d > 6 || seen[v] {
				return false
			}
			seen[v] = true
			if related[v] || isLen(v) {
				return true
			}
			switch y := v.(type) {
			case *ssa.BinOp:
				return w2(y.X, d+1) || w2(y.Y, d+1)
			case *ssa.Convert:
				return w2(y.X, d+1)
			}
			return false
		}
		return w2(v, 0)
	}
	for _, f := range FactsAt(in) {
		if f.Kind != FCmp {
			continue
		}
		switch f.Op {
		case token.GEQ, token.GTR, token.LSS, token.LEQ:
			if involves(f.X) || involves(f.Y) {
				return true
			}
		case token.NEQ:
			// x != 0 style
			if c, ok := f.Y.(*ssa.Const); ok && c.Int64() == 0 && involves(f.X) {
				return true
			}
		}
	}
	return false
}

// parallelIndexSites: IndexAddr whose index is the induction variable of a rangeindex loop over a different slice.
func parallelIndexSites(w *World, f *ssa.Function) []panicSite {
	var out []panicSite
	for _, b := range f.Blocks {
		for _, in := range b.Instrs {
			ia, ok := in.(*ssa.IndexAddr)
			if !ok {
				continue
			}
			if _, isSlice := ia.X.Type().Underlying().(*types.Slice); !isSlice {
				continue
			}
			// index = phi+1 pattern of rangeindex loops (t31 = t30 + 1; if t31 < len(A))
			idx, ok := ia.Index.(*ssa.BinOp)
			if !ok || idx.Op != token.ADD {
				continue
			}
			phi, ok := idx.X.(*ssa.Phi)
			if !ok || !strings.Contains(phi.Comment, "rangeindex") {
				continue
			}
			// find the bound: If in phi's block comparing idx < len(A)
			hb := phi.Block()
			iff, ok := hb.Instrs[len(hb.Instrs)-1].(*ssa.If)
			if !ok {
				continue
			}
			cmp, ok := iff.Cond.(*ssa.BinOp)
			if !ok || cmp.X != ssa.Value(idx) {
				continue
			}
			lenCall, ok := cmp.Y.(*ssa.Call)
			if !ok || len(lenCall.Call.Args) != 1 {
				continue
			}
			ranged := lenCall.Call.Args[0]
			if canon(ranged) == canon(ia.X) || sameLoad(ranged, ia.X) {
				continue
			}
			// different slice indexed by the same induction variable
			s := panicSite{fn: f, class: "parallel-index", desc: "slice indexed by the induction variable of a loop over a different slice", pos: ia.Pos()}
			// accepted when the indexed slice was made with len(ranged) (make([]T, len(A)))
			if ms, ok := canon(ia.X).(*ssa.MakeSlice); ok {
				if lc, ok := ms.Len.(*ssa.Call); ok && len(lc.Call.Args) == 1 && (canon(lc.Call.Args[0]) == canon(ranged) || sameLoad(lc.Call.Args[0], ranged)) {
					s.ok, s.why = true, "indexed slice made with the ranged slice's length"
				}
			}
			// or dominated by a length equality test
			for _, fa := range FactsAt(ia) {
				if fa.Kind == FCmp && (fa.Op == token.EQL || fa.Op == token.GEQ || fa.Op == token.LEQ) {
					lx, okx := canon(fa.X).(*ssa.Call)
					ly, oky := canon(fa.Y).(*ssa.Call)
					if okx && oky {
						if bx, ok := lx.Call.Value.(*ssa.Builtin); ok && bx.Name() == "len" {
							if by, ok := ly.Call.Value.(*ssa.Builtin); ok && by.Name() == "len" {
								s.ok, s.why = true, "dominated by a comparison of the two lengths"
							}
						}
					}
				}
			}
			out = append(out, s)
		}
	}
	return out
}

// c09Triage: sites confirmed by reading; one line of reason each. Key: function|class|desc[#n].
var c09Triage = map[string]string{
	"(*x/evm/keeper.compassHandoverAttester).Execute|assert|type assertion to *types.Message_CompassHandover":                                                        "constructed only in routerAttester's type-switch case for this very action type",
	"(*x/evm/keeper.submitLogicCallAttester).Execute|assert|type assertion to *types.Message_SubmitLogicCall":                                                        "constructed only in routerAttester's type-switch case for this very action type",
	"(*x/evm/keeper.updateValsetAttester).Execute|assert|type assertion to *types.Message_UpdateValset":                                                              "constructed only in routerAttester's type-switch case for this very action type",
	"(*x/evm/keeper.uploadSmartContractAttester).Execute|assert|type assertion to *types.Message_UploadSmartContract":                                                "constructed only in routerAttester's type-switch case for this very action type",
	"(*x/evm/keeper.uploadUserSmartContractAttester).Execute|assert|type assertion to *types.Message_UploadUserSmartContract":                                        "constructed only in routerAttester's type-switch case for this very action type",
	"(*x/evm/keeper.updateValsetAttester).attest|assert|type assertion to *types.Message":                                                                            "messages of the turnstone queue pass the queue's static type check (*types.Message) at Put",
	"(x/evm/keeper.Keeper).routerAttester|assert|type assertion to *types.Message":                                                                                   "messages of the turnstone queue pass the queue's static type check (*types.Message) at Put",
	"(x/evm/keeper.msgSender).SendValsetMsgForChain|assert|type assertion to *types.Message":                                                                         "messages of the turnstone queue pass the queue's static type check (*types.Message) at Put",
	"(x/evm/keeper.Keeper).validatorBalancesAttester|assert|type assertion to *types.ValidatorBalancesAttestation":                                                   "messages of the balances queue pass the queue's static type check at Put",
	"(x/metrix/keeper.Keeper).OnConsensusMessageAttested|narrow|Int.Uint64()":                                                                                        "difference of two block heights after the HandledAt >= AssignedAt and HandledAt <= current height guards",
	"(x/metrix/keeper.Keeper).updateTelemetry|narrow|Int.Int64()":                                                                                                    "execution time is a median of block distances bounded by the block height",
	"(x/metrix/keeper.Keeper).updateTelemetry|narrow|Int.Int64()#2":                                                                                                  "the fee metric is never written by any runtime path (no recordPatch sets fee); it stays zero",
	"(x/paloma/keeper.Keeper).CheckChainVersion$1|panic|explicit panic":                                                                                              "the deliberate version gate named in the property",
	"(x/valset/keeper.Keeper).isNewSnapshotWorthy|div|LegacyDec.QuoInt":                                                                                              "loop body runs only for validators of the snapshot, whose TotalShares is the positive sum of their bonded tokens",
	"(x/valset/keeper.Keeper).isNewSnapshotWorthy|div|LegacyDec.QuoInt#2":                                                                                            "loop body runs only for validators of the snapshot, whose TotalShares is the positive sum of their bonded tokens",
	"(*x/evm/types.ValidatorBalancesAttestation).Keccak256WithSignedMessage|parallel-index|slice indexed by the induction variable of a loop over a different slice": "the only constructor, CheckExternalBalancesForChain, appends to ValAddresses and HexAddresses in the same statement group (lockstep); the message type is not user-submittable",
	"(*util/libcons.consensusPower).consensus|nil-int|Int.Mul on consensusPower.totalPower":                                                                          "every consensusPower is declared and immediately given its total (setTotal(snapshot.TotalShares)) before add/consensus are called; snapshots always carry TotalShares",
	"(x/valset/keeper.Keeper).isNewSnapshotWorthy|narrow|LegacyDec.MustFloat64()":                                                                                    "absolute difference of two ratios in [0,1]",
}

func rulesC09(w *World, o *Out) {
	o.Rule("C09.R1", "every return of the 18 AppModule Begin/EndBlock methods returns the nil error constant (one named exemption with a side obligation)")
	o.Rule("C09.R2", "in every module function reachable from those methods without crossing a frame that recovers (defer-recover, whoops.Try): explicit panics, panicking SDK APIs (Int.Int64/Uint64, MustFloat64, Quo by a possibly-zero divisor, Must*/whoops.Assert), single-result type assertions, integer division by a non-constant and parallel-slice indexing are guarded, auto-accepted (codec round-trips, constant arguments) or individually triaged")
	o.Rule("C09.R3", "the recovering frames exist: skyway EndBlocker / AppModule.EndBlock establish recover before any other call")

	o.Rule("C09.R6", "the version gate stops only a node that is too old: a conditional rewrite of a version string in CheckChainVersion (adding the leading v semver needs) is decided by a test on the very string it rewrites, so a governance plan name reaches semver.Compare normalised")
	if cv := w.MustFunc(o, "x/paloma/keeper", "Keeper", "CheckChainVersion"); cv != nil {
		o.Analysed(w.FuncKey(cv))
		n := 0
		for _, fx := range conditionalSelfRewrites(cv) {
			n++
			o.Check("C09.R6", "CheckChainVersion|a version string is rewritten under a test on itself"+ordSuffix(n-1), fx.ok, w.Pos(fx.pos),
				"the condition that decides whether the string gets its prefix reads a different string: a plan name without the leading v stays as it is, semver treats it as invalid (smaller than everything) and the gate panics on every node, whatever version it runs")
		}
		o.Note("C09.R6", "CheckChainVersion|conditional rewrites found", w.Pos(cv.Pos()), itoa(n))
	}

	o.Rule("C09.R4", "decimal range: the relayer fee multiplicator -- the one sender-controlled decimal that end-block arithmetic multiplies, subtracts and divides (relayer ranking, fee calculation) -- is refused where it is submitted unless it is set, non-negative and at most MaxUint64, and the fee store has no other runtime writer; LegacyDec arithmetic panics outside +-2^256")
	{
		tk := "x/treasury/keeper"
		h := w.MustFunc(o, tk, "msgServer", "UpsertRelayerFee")
		if h != nil {
			o.Analysed(w.FuncKey(h))
			req := h.Params[len(h.Params)-1]
			writes := FindCalls(h, false, isCallee(tk, "Keeper", "SetRelayerFee"))
			o.Count("C09.R4 fee writes in UpsertRelayerFee", len(writes), 1)
			for _, pred := range []string{"IsNil", "IsNegative", "GT"} {
				refused := false
				for _, b := range unitBlocks(h) {
					if len(b.Instrs) == 0 {
						continue
					}
					iff, isIf := b.Instrs[len(b.Instrs)-1].(*ssa.If)
					if !isIf {
						continue
					}
					c, isC := canon(iff.Cond).(*ssa.Call)
					if !isC {
						continue
					}
					cal, okc := CalleeOf(c.Common())
					if !okc || cal.Name != pred || cal.Recv != "LegacyDec" || len(c.Call.Args) == 0 {
						continue
					}
					onFee := false
					x, _ := fl09(w).Influence(c.Call.Args[0])
					for ap := range x {
						if ap.Root == ssa.Value(req) && strings.HasSuffix(ap.Path, ".Multiplicator") {
							onFee = true
						}
					}
					if !onFee {
						continue
					}
					if pred == "GT" {
						// the bound is a constant no larger than MaxUint64
						if !decBoundAtMostMaxUint64(c.Call.Args[1]) {
							continue
						}
					}
					if b.Parent() == h && ReachFromTop(h, b.Succs[0], siteSet(writes), nil) == nil {
						refused = true
					}
				}
				o.Check("C09.R4", "UpsertRelayerFee|a multiplicator with "+pred+" is refused before the write", refused, w.Pos(h.Pos()),
					"every submitted fee's Multiplicator."+pred+"(..) == true must lead to an error without reaching SetRelayerFee; an unset, negative or astronomically large multiplicator makes scoreValue / MulInt overflow the decimal range inside the evm, valset and consensus end blockers")
			}
		}
		gen := w.Reach(entryFns(w.EntriesOf("genesis")), nil)
		rt := w.Reach(entryFns(w.EntriesOf("msg", "abci", "ante", "gov", "wasm", "hook")), nil)
		for _, s := range w.CallersOf(isCallee(tk, "Keeper", "SetRelayerFee")) {
			tf := TopFunc(s.Fn)
			ok := tf == h || (gen[tf] != nil && rt[tf] == nil) || rt[tf] == nil
			o.Check("C09.R4", "SetRelayerFee called from "+w.FuncKey(tf), ok, w.Pos(s.Instr.Pos()), "relayer fees may be written at run time only by the validating handler")
		}
	}

	abci := w.EntriesOf("abci")
	o.Count("C09 ABCI methods", len(abci), 18)
	// ---- R1 ----
	for _, e := range abci {
		f := e.Fn
		o.Analysed(w.FuncKey(f))
		idx := errResultIndex(f)
		if idx < 0 {
			continue
		}
		n := 0
		for _, b := range f.Blocks {
			r, ok := b.Instrs[len(b.Instrs)-1].(*ssa.Return)
			if !ok {
				continue
			}
			n++
			v := r.Results[idx]
			isNil := isNilConst(stripConv(v)) || isNilConst(v)
			if !isNil {
				// spilled named result: all reaching stores nil?
				if classifyErrVal(v, b, 0) == RetSuccess {
					isNil = true
				}
			}
			key := fmt.Sprintf("%s|return #%d", e.Name, n)
			if isNil {
				o.Pass("C09.R1", key, w.Pos(r.Pos()), "returns nil")
				continue
			}
			// exemption: valset.EndBlock returning the error of the grace-period update
			src := ""
			for _, c := range callsBehind(v) {
				if cal, ok := CalleeOf(c.Common()); ok {
					src = cal.String()
				}
			}
			if e.Name == "valset.EndBlock" && src == "x/valset/keeper.Keeper.UpdateGracePeriod" {
				ok, why := gracePeriodInfallible(w)
				o.Check("C09.R1", key+"|exempt: UpdateGracePeriod only fails on an unparsable staking operator address", ok, w.Pos(r.Pos()), why)
				continue
			}
			o.Fail("C09.R1", key, w.Pos(r.Pos()), "an error returned from Begin/EndBlock aborts block production; value comes from "+src)
		}
	}
	// ---- R2 ----
	stop := func(f *ssa.Function) bool { return hasRecoverFrame(f) || recoveredClosure(f) }
	U := w.Reach(entryFns(abci), stop)
	var fns []*ssa.Function
	for f := range U {
		if !w.IsProd(f) || stop(f) {
			continue
		}
		fns = append(fns, f)
	}
	sort.Slice(fns, func(i, j int) bool { return w.FuncKey(fns[i]) < w.FuncKey(fns[j]) })
	o.Count("C09.R2 functions on unrecovered ABCI paths", len(fns), 300)
	nSites := 0
	perKey := map[string]int{}
	for _, f := range fns {
		for _, s := range collectPanicSites(w, f) {
			nSites++
			base := w.FuncKey(f) + "|" + s.class + "|" + s.desc
			perKey[base]++
			key := base
			if perKey[base] > 1 {
				key = fmt.Sprintf("%s#%d", base, perKey[base])
			}
			// a site that a later edit moved into a new helper keeps the triage of the function it came from
			if !s.ok && c09Triage[key] == "" && isNewHelper(lexTop(f)) {
				for _, rc := range rootCallers(f) {
					alt := w.FuncKey(rc) + "|" + s.class + "|" + s.desc
					if c09Triage[alt] != "" {
						key = alt
						break
					}
				}
			}
			switch {
			case s.ok:
				o.Pass("C09.R2", key, w.Pos(s.pos), s.why)
			case c09Triage[key] != "":
				// a triage reason that rests on a checkable structure is re-verified on every run
				if cond := c09TriageCond(key); cond != nil {
					if okc, why := cond(w); !okc {
						o.Fail("C09.R2", key, w.Pos(s.pos), "the reason this site was triaged as safe no longer holds: "+c09Triage[key]+" — "+why, w.Path(U, f)...)
						continue
					}
				}
				o.Pass("C09.R2", key, w.Pos(s.pos), "triaged: "+c09Triage[key])
			default:
				o.Fail("C09.R2", key, w.Pos(s.pos), "may-panic site on an unrecovered Begin/EndBlock path is neither guarded nor triaged", w.Path(U, f)...)
			}
		}
	}
	o.Count("C09.R2 may-panic sites examined", nSites, 20)
	// ---- R3 ----
	// a recover() that is not called directly by a deferred function returns nil and stops nothing: the code
	// states the belief "panics are contained here" and the language says otherwise
	deferred := map[*ssa.Function]bool{}
	for _, f := range w.ProdFuncs {
		for _, b := range f.Blocks {
			for _, in := range b.Instrs {
				if d, ok := in.(*ssa.Defer); ok {
					switch v := d.Call.Value.(type) {
					case *ssa.MakeClosure:
						if fn, ok := v.Fn.(*ssa.Function); ok {
							deferred[fn] = true
						}
					case *ssa.Function:
						deferred[v] = true
					}
					if sc := d.Call.StaticCallee(); sc != nil {
						deferred[sc] = true
					}
				}
			}
		}
	}
	nRec := 0
	for _, f := range w.ProdFuncs {
		for _, b := range f.Blocks {
			for _, in := range b.Instrs {
				c, ok := in.(*ssa.Call)
				if !ok {
					continue
				}
				if bi, ok := c.Call.Value.(*ssa.Builtin); !ok || bi.Name() != "recover" {
					continue
				}
				nRec++
				if !deferred[f] {
					o.Fail("C09.R3", w.FuncKey(f)+"|recover() is called directly by a deferred function", w.Pos(c.Pos()),
						"recover only stops a panic when the deferred function itself calls it; here it is called from a function that is (at most) called by a deferred function, so it always returns nil and the panic keeps unwinding into the block-production path")
				}
			}
		}
	}
	o.Count("C09.R3 recover() calls in production code", nRec, 3)
	eb := w.MustFunc(o, "x/skyway", "", "EndBlocker")
	if eb != nil {
		o.Check("C09.R3", "skyway.EndBlocker establishes recover", hasRecoverFrame(eb) && recoverFirst(eb), w.Pos(eb.Pos()), "the deferred recover must be installed before any fallible call")
	}
	for _, e := range abci {
		if e.Name == "skyway.EndBlock" {
			o.Check("C09.R3", "skyway.EndBlock establishes recover", hasRecoverFrame(e.Fn) && recoverFirst(e.Fn), w.Pos(e.Fn.Pos()), "the deferred recover must be installed before any other call")
		}
	}
}

// recoverFirst: the defer-recover is registered before any call to a module function.
func recoverFirst(f *ssa.Function) bool {
	for _, b := range f.Blocks {
		for _, in := range b.Instrs {
			switch x := in.(type) {
			case *ssa.Defer:
				return true
			case *ssa.Call:
				c, ok := CalleeOf(x.Common())
				if !ok {
					return false
				}
				if c.Static != nil && strings.HasPrefix(c.Pkg, modPath) && !isLoggingCallee(c) && len(c.Static.Blocks) > 0 {
					if strings.HasSuffix(c.Pkg, "/keeper") || strings.HasSuffix(c.Pkg, "/x/skyway") {
						if c.Name != "Logger" {
							return false
						}
					}
				}
			}
		}
		break
	}
	return false
}

// gracePeriodInfallible: the only fallible operations inside UpdateGracePeriod are
// address parsing of staking operator addresses.
func gracePeriodInfallible(w *World) (bool, string) {
	f := w.Func("x/valset/keeper", "Keeper", "UpdateGracePeriod")
	if f == nil {
		return false, "UpdateGracePeriod not found"
	}
	for _, s := range CallsDeep(f) {
		c := s.Callee
		if c.Func == nil {
			continue
		}
		res := c.Func.Type().(*types.Signature).Results()
		fallible := false
		for i := 0; i < res.Len(); i++ {
			if isErrorType(res.At(i).Type()) {
				fallible = true
			}
		}
		if !fallible {
			continue
		}
		if c.Is("util/keeper", "", "ValAddressFromBech32") || c.Is("util/slice", "", "MapErr") {
			continue
		}
		if isNewHelper(c.Static) {
			continue // a helper extracted from this function: its own calls are in the list
		}
		return false, "UpdateGracePeriod now contains another fallible call: " + c.String() + " at " + w.Pos(s.Instr.Pos())
	}
	return true, "fallible calls inside UpdateGracePeriod are limited to parsing staking operator addresses"
}

// c09TriageCond: side conditions of triage entries. The attesters' unchecked assertion
// `a.msg.Action.(*types.Message_X)` is safe because the attester for X is only constructed in the
// type-switch case for *types.Message_X; that is checked here on every run.
func c09TriageCond(key string) func(w *World) (bool, string) {
	const pfx = "(*x/evm/keeper."
	if !strings.HasPrefix(key, pfx) || !strings.Contains(key, "Attester).Execute|assert|type assertion to *types.Message_") {
		return nil
	}
	att := strings.TrimPrefix(key, pfx)
	att = att[:strings.Index(att, ")")]                           // compassHandoverAttester
	typ := key[strings.LastIndex(key, "*types.")+len("*types."):] // Message_CompassHandover
	ctor := "new" + strings.ToUpper(att[:1]) + att[1:]
	return func(w *World) (bool, string) {
		n := 0
		// direct constructions outside the constructor function
		for _, f := range w.ProdFuncs {
			for _, s := range CallsIn(f) {
				if s.Callee.Name != ctor || !strings.HasSuffix(s.Callee.Pkg, "x/evm/keeper") {
					continue
				}
				n++
				held := false
				for _, fa := range FactsAt(s.Instr) {
					if fa.Kind != FTrue {
						continue
					}
					if ex, ok := canon(fa.V).(*ssa.Extract); ok {
						if ta, ok := ex.Tuple.(*ssa.TypeAssert); ok && strings.HasSuffix(types.TypeString(ta.AssertedType, nil), "."+typ) {
							held = true
						}
					}
				}
				if !held {
					return false, ctor + " is called at " + w.Pos(s.Instr.Pos()) + " outside a type-switch case for *types." + typ
				}
			}
			// a composite literal of the attester type anywhere but in its constructor
			if f.Name() != ctor {
				for _, b := range f.Blocks {
					for _, in := range b.Instrs {
						if al, ok := in.(*ssa.Alloc); ok {
							if nt := namedOf(al.Type().(*types.Pointer).Elem()); nt != nil && nt.Obj().Name() == att {
								return false, att + " is constructed directly in " + w.FuncKey(f)
							}
						}
					}
				}
			}
		}
		if n == 0 {
			return false, "constructor " + ctor + " has no call site (structure changed)"
		}
		return true, ""
	}
}

// maybeUnsetInt: v is a load of a math.Int field of a struct declared in util/libcons (consensusPower,
// Result): values of these types are created with `var` / partial literals, so the field can be the zero
// value.
func maybeUnsetInt(v ssa.Value) bool {
	nm, base := loadedField(v)
	if nm == "" || base == nil {
		return false
	}
	nt := namedOf(derefType(base.Type()))
	return nt != nil && nt.Obj().Pkg() != nil && strings.HasSuffix(nt.Obj().Pkg().Path(), "util/libcons")
}

func fieldDesc(v ssa.Value) string {
	nm, base := loadedField(v)
	if base == nil {
		return nm
	}
	if nt := namedOf(derefType(base.Type())); nt != nil {
		return nt.Obj().Name() + "." + nm
	}
	return nm
}

func isZeroValueLoad(v ssa.Value) bool {
	if c, ok := canon(v).(*ssa.Const); ok && c.Value == nil {
		if _, isStruct := c.Type().Underlying().(*types.Struct); isStruct {
			return true // the aggregate zero constant T{}
		}
	}
	u, ok := v.(*ssa.UnOp)
	if !ok || u.Op != token.MUL {
		return false
	}
	al, ok := u.X.(*ssa.Alloc)
	if !ok {
		return false
	}
	for _, r := range *al.Referrers() {
		if st, ok := r.(*ssa.Store); ok && st.Addr == ssa.Value(al) {
			return false
		}
	}
	return true
}

// guardedAgainstZeroInt: the call is dominated by `field != zero-value`, or the function initialises the
// field on the `field == zero-value` edge before the use.
func guardedAgainstZeroInt(in ssa.Instruction, recv ssa.Value) bool {
	for _, fa := range FactsAt(in) {
		// `x != T{}` is normalised like a nil test (the zero constant has no value)
		if fa.Kind == FNonNil && (canon(fa.V) == canon(recv) || sameLoad(fa.V, recv)) {
			return true
		}
		if fa.Kind != FCmp || fa.Op != token.NEQ {
			continue
		}
		for _, pr := range [][2]ssa.Value{{fa.X, fa.Y}, {fa.Y, fa.X}} {
			if (canon(pr[0]) == canon(recv) || sameLoad(pr[0], recv)) && isZeroValueLoad(pr[1]) {
				return true
			}
		}
	}
	nm, _ := loadedField(recv)
	for _, b := range in.Parent().Blocks {
		if len(b.Instrs) == 0 {
			continue
		}
		iff, ok := b.Instrs[len(b.Instrs)-1].(*ssa.If)
		if !ok {
			continue
		}
		bo, ok := iff.Cond.(*ssa.BinOp)
		if !ok || bo.Op != token.EQL {
			continue
		}
		match := false
		for _, pr := range [][2]ssa.Value{{bo.X, bo.Y}, {bo.Y, bo.X}} {
			if n2, _ := loadedField(pr[0]); n2 == nm && nm != "" && isZeroValueLoad(pr[1]) {
				match = true
			}
		}
		if !match || !b.Dominates(in.Block()) {
			continue
		}
		for _, i2 := range b.Succs[0].Instrs {
			if st, ok := i2.(*ssa.Store); ok {
				if fa, ok := st.Addr.(*ssa.FieldAddr); ok && fieldName(fa.X.Type(), fa.Field) == nm {
					return true
				}
			}
		}
	}
	return false
}

var fl09memo *Flow

func fl09(w *World) *Flow {
	if fl09memo == nil || fl09memo.w != w {
		fl09memo = NewFlow(w)
	}
	return fl09memo
}

// decBoundAtMostMaxUint64: v is (a load of a package variable initialised to) a decimal built from an
// unsigned 64-bit constant, i.e. a bound <= MaxUint64.
func decBoundAtMostMaxUint64(v ssa.Value) bool {
	v = canon(v)
	var src ssa.Value = v
	if u, ok := v.(*ssa.UnOp); ok {
		if g, isG := u.X.(*ssa.Global); isG {
			// the single store to the global in the package initialiser
			src = nil
			if init := g.Pkg.Func("init"); init != nil {
				for _, b := range init.Blocks {
					for _, in := range b.Instrs {
						if st, isSt := in.(*ssa.Store); isSt && st.Addr == ssa.Value(g) {
							src = st.Val
						}
					}
				}
			}
		}
	}
	if src == nil {
		return false
	}
	// LegacyNewDecFromInt(NewIntFromUint64(const)) / LegacyNewDec(const) / LegacyNewDecFromInt(NewInt(const))
	for i := 0; i < 4; i++ {
		c, ok := canon(src).(*ssa.Call)
		if !ok || len(c.Call.Args) == 0 {
			return false
		}
		cal, okc := CalleeOf(c.Common())
		if !okc || cal.Pkg != "cosmossdk.io/math" {
			return false
		}
		if k, isK := c.Call.Args[0].(*ssa.Const); isK && k.Value != nil {
			switch cal.Name {
			case "NewIntFromUint64", "LegacyNewDec", "NewInt", "LegacyNewDecFromInt64":
				return true // a 64-bit constant
			}
			return false
		}
		src = c.Call.Args[0]
	}
	return false
}

type selfRewrite struct {
	pos token.Pos
	ok  bool
}

// conditionalSelfRewrites: stores `x = g(x)` into a local variable (kept in memory or in a register)
// that execute under a two-way branch; ok when the branch condition reads x.
func conditionalSelfRewrites(f *ssa.Function) []selfRewrite {
	var out []selfRewrite
	// reads(v, a): does the value v depend (through operands, within f) on a load of the local a / on the value a
	var reads func(v ssa.Value, a ssa.Value, d int, seen map[ssa.Value]bool) bool
	reads = func(v ssa.Value, a ssa.Value, d int, seen map[ssa.Value]bool) bool {
		if v == nil || seen[v] || d > 25 {
			return false
		}
		seen[v] = true
		if v == a {
			return true
		}
		if u, ok := v.(*ssa.UnOp); ok && u.Op == token.MUL && u.X == a {
			return true
		}
		in, ok := v.(ssa.Instruction)
		if !ok {
			return false
		}
		if al, ok := v.(*ssa.Alloc); ok {
			// a temporary (variadic backing array, interface box): what was stored into it
			for _, r := range *al.Referrers() {
				switch x := r.(type) {
				case *ssa.Store:
					if reads(x.Val, a, d+1, seen) {
						return true
					}
				case *ssa.IndexAddr:
					for _, r2 := range *x.Referrers() {
						if st, ok := r2.(*ssa.Store); ok && reads(st.Val, a, d+1, seen) {
							return true
						}
					}
				}
			}
			return false
		}
		for _, op := range in.Operands(nil) {
			if *op != nil && reads(*op, a, d+1, seen) {
				return true
			}
		}
		return false
	}
	guard := func(b *ssa.BasicBlock) *ssa.If {
		if len(b.Preds) != 1 {
			return nil
		}
		p := b.Preds[0]
		if len(p.Instrs) == 0 {
			return nil
		}
		i, _ := p.Instrs[len(p.Instrs)-1].(*ssa.If)
		return i
	}
	for _, b := range f.Blocks {
		for _, in := range b.Instrs {
			switch x := in.(type) {
			case *ssa.Store:
				a, ok := x.Addr.(*ssa.Alloc)
				if !ok || !isStringType(x.Val.Type()) || !reads(x.Val, a, 0, map[ssa.Value]bool{}) {
					continue
				}
				if g := guard(b); g != nil {
					out = append(out, selfRewrite{x.Pos(), reads(g.Cond, a, 0, map[ssa.Value]bool{})})
				}
			case *ssa.Phi:
				if len(x.Edges) != 2 || !isStringType(x.Type()) {
					continue
				}
				for i, e := range x.Edges {
					o := x.Edges[1-i]
					ei, isInstr := e.(ssa.Instruction)
					if !isInstr || o == e || !reads(e, o, 0, map[ssa.Value]bool{}) {
						continue
					}
					if g := guard(ei.Block()); g != nil {
						out = append(out, selfRewrite{x.Pos(), reads(g.Cond, o, 0, map[ssa.Value]bool{})})
					}
				}
			}
		}
	}
	return out
}

func isStringType(t types.Type) bool {
	b, ok := t.Underlying().(*types.Basic)
	return ok && b.Info()&types.IsString != 0
}
