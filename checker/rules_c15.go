package main

// C15 — bridge tax and transfer limits are applied exactly as configured.
// C16 — only a factory token's admin controls it; supply equals mints minus burns.
// C17 — jobs are immutable; each run enqueues the stored call plus caller identity.
// C18 — light-node licence funds: escrowed 1:1, released once, vesting, to licensee.

import (
	"go/token"
	"math/big"
	"strings"

	"golang.org/x/tools/go/ssa"
)

func init() {
	register("C15", rulesC15)
	register("C16", rulesC16)
	register("C17", rulesC17)
	register("C18", rulesC18)
}

// mathChain: v == recv.m1(a1).m2(a2)... ; returns the method names outermost-last and the innermost receiver.
func mathChain(v ssa.Value) ([]string, []ssa.Value, ssa.Value) {
	var names []string
	var args []ssa.Value
	for {
		c, ok := canon(v).(*ssa.Call)
		if !ok {
			break
		}
		cal, ok := CalleeOf(c.Common())
		if !ok || cal.Pkg != "cosmossdk.io/math" || len(c.Call.Args) < 1 {
			break
		}
		names = append([]string{cal.Name}, names...)
		if len(c.Call.Args) > 1 {
			args = append([]ssa.Value{c.Call.Args[1]}, args...)
		} else {
			args = append([]ssa.Value{nil}, args...)
		}
		v = c.Call.Args[0]
	}
	return names, args, v
}

var c15Runtime ReachSet

func rulesC15(w *World, o *Out) {
	c15Runtime = nil
	fl := NewFlow(w)
	o.Rule("C15.R1", "the bridge tax is amount.Mul(num).Quo(den) with num/den the numerator/denominator of the stored rate (multiplication before the truncating division); exempt sender, zero rate and unset tax return zero; SetBridgeTax refuses negative / unparsable rates")
	o.Rule("C15.R2", "the tax locked, recorded, refunded and burned is that one value (C01.R3)")
	o.Rule("C15.R3", "the usage counter has one writer; every write is dominated by 'new total > limit' being false; exempt senders, unlimited periods and unset limits return before any write; the new total is either the amount (window expired / no usage) or stored total + amount; the counter is updated before the lock in the send path whose errors propagate")

	bta := w.MustFunc(o, skw, "Keeper", "bridgeTaxAmount")
	if bta != nil {
		o.Analysed(w.FuncKey(bta))
		nNZ := 0
		for _, r := range Returns(bta) {
			if r.Kind == RetError {
				continue
			}
			v := r.Ret.Results[0]
			if c, ok := canon(v).(*ssa.Call); ok {
				if cal, ok := CalleeOf(c.Common()); ok && cal.Name == "ZeroInt" {
					continue
				}
			}
			nNZ++
			names, args, recv := mathChain(v)
			ok := len(names) == 2 && names[0] == "Mul" && names[1] == "Quo"
			d := "tax must be coin.Amount.Mul(num).Quo(den); found chain " + strings.Join(names, ".")
			if ok {
				nm, _ := loadedField(canon(recv))
				okRecv := nm == "Amount"
				okNum := fl.DependsOnCall(args[0], func(c Callee) bool { return c.Name == "Num" && c.Recv == "Rat" }) != nil
				okDen := fl.DependsOnCall(args[1], func(c Callee) bool { return c.Name == "Denom" && c.Recv == "Rat" }) != nil
				okRate := false
				for _, a := range []ssa.Value{args[0], args[1]} {
					aps, _ := fl.Influence(a)
					for ap := range aps {
						if strings.HasSuffix(ap.Path, ".Rate") {
							okRate = true
						}
					}
				}
				ok = okRecv && okNum && okDen && okRate
				d = "receiver must be the coin's Amount, the multiplier the rate's numerator and the divisor its denominator (from the stored Rate)"
			}
			o.Check("C15.R1", "bridgeTaxAmount|tax = floor(amount × num / den)", ok, w.Pos(r.Ret.Pos()), d)
		}
		o.Count("C15.R1 non-zero tax returns", nNZ, 1)
		// zero returns: exempt sender (under Equals true), zero rate (Sign()==0), unset (ErrNotFound)
		zeros := 0
		for _, r := range Returns(bta) {
			if r.Kind == RetError {
				continue
			}
			if c, ok := canon(r.Ret.Results[0]).(*ssa.Call); ok {
				if cal, ok := CalleeOf(c.Common()); ok && cal.Name == "ZeroInt" {
					zeros++
				}
			}
		}
		o.Check("C15.R1", "bridgeTaxAmount|zero tax for exempt sender / zero rate / unset tax", zeros >= 3, w.Pos(bta.Pos()), "expected three zero-tax success returns, found "+itoa(zeros))
		okEx := false
		for _, r := range Returns(bta) {
			if GuardBool(r.Ret, func(c Callee) bool { return c.Name == "Equals" }, true) != nil {
				aps := FactsAt(r.Ret)
				_ = aps
				okEx = true
			}
		}
		o.Check("C15.R1", "bridgeTaxAmount|exemption compares the sender with the exempt list", okEx, w.Pos(bta.Pos()), "a zero return must be dominated by sender.Equals(exempt address)")
	}
	if sbt := w.MustFunc(o, skw, "Keeper", "SetBridgeTax"); sbt != nil {
		okS := false
		for _, m := range w.mutsIn(fl, sbt) {
			for _, f := range FactsAt(m.Site.Instr) {
				if f.Kind == FCmp && (f.Op == token.GEQ || f.Op == token.GTR) {
					k, isC := canon(f.Y).(*ssa.Const)
					if !isC {
						continue
					}
					r, okr := constRat(k)
					if !okr {
						continue
					}
					// Sign() >= 0, or Sign() > -1
					if !(f.Op == token.GEQ && r.Sign() == 0 || f.Op == token.GTR && r.Cmp(big.NewRat(-1, 1)) == 0) {
						continue
					}
					if fl.DependsOnCall(f.X, func(c Callee) bool { return c.Name == "Sign" }) != nil {
						okS = true
					}
				}
			}
		}
		o.Check("C15.R1", "SetBridgeTax|refuses negative or unparsable rates", okS, w.Pos(sbt.Pos()), "the save must be dominated by rate.Sign() >= 0 (and a successful parse)")
	}

	// the rate that is stored is the rate that was voted: no re-rendering on the way into the store
	nRate := 0
	for _, f := range w.ProdFuncs {
		if isGeneratedFile(w, f) {
			continue
		}
		for _, st := range storesToField(f, "BridgeTax", "Rate") {
			nRate++
			nm, base := loadedField(st.Val)
			_, isConst := canon(st.Val).(*ssa.Const)
			o.Check("C15.R1", w.FuncKey(TopFunc(f))+"|the bridge tax rate is stored exactly as proposed", (nm == "Rate" && base != nil) || isConst, w.Pos(st.Pos()),
				"the tax is floor(amount × num/den) of the configured rate; a rate that is parsed and re-rendered (decimal expansion, rounding to a fixed precision) before it is stored is a different rational number for rates like 1/3")
		}
	}
	o.Count("C15.R1 BridgeTax.Rate assignments", nRate, 1)

	// ---- R3 ----
	upd := w.MustFunc(o, skw, "Keeper", "UpdateBridgeTransferUsageWithLimit")
	muts := w.StoreMuts(fl)
	nW := 0
	for _, m := range muts {
		if !m.Has("global:BridgeTransferUsagePrefix") {
			continue
		}
		f := TopFunc(m.Site.Fn)
		if c15Runtime == nil {
			c15Runtime = w.Reach(entryFns(w.EntriesOf("msg", "abci", "gov", "wasm", "hook", "ante")), nil)
		}
		if c15Runtime[f] == nil && f != upd {
			continue // genesis import / export only
		}
		if m.Op == "Delete" {
			// forgetting the running total inside a window lets the window's transfers exceed the limit
			o.Fail("C15.R3", w.FuncKey(f)+"|the usage counter is never reset outside the limit check", w.Pos(m.Site.Instr.Pos()), "the running total of the current window is deleted; transfers accepted before and after the deletion are no longer summed against the limit")
			continue
		}
		nW++
		o.Check("C15.R3", w.FuncKey(f)+"|only the limit check writes the usage counter", f == upd, w.Pos(m.Site.Instr.Pos()), "the usage counter must have a single runtime writer")
		if f != upd {
			continue
		}
		// guarded by !GT(limit)
		okG := false
		var gt *ssa.Call
		var gtFact Fact
		for _, fa := range FactsAt(m.Site.Instr) {
			if fa.Kind == FFalse {
				if c, ok := canon(fa.V).(*ssa.Call); ok {
					if cal, ok := CalleeOf(c.Common()); ok && cal.Name == "GT" && cal.Pkg == "cosmossdk.io/math" {
						nm, _ := loadedField(c.Call.Args[1])
						tn, _ := loadedField(c.Call.Args[0])
						if nm == "Limit" && tn == "Total" {
							okG = true
							gt = c
							gtFact = fa
						}
					}
				}
			}
		}
		o.Check("C15.R3", "UpdateBridgeTransferUsageWithLimit|usage persisted only when within the limit", okG, w.Pos(m.Site.Instr.Pos()), "every write of the counter must be dominated by newUsage.Total.GT(limits.Limit) == false")
		// the saved value is the checked value
		if gt != nil {
			args := m.Site.Args()
			saved := args[len(args)-1]
			same := false
			if _, b1 := loadedField(gt.Call.Args[0]); b1 != nil {
				if mi, ok := saved.(*ssa.MakeInterface); ok {
					saved = mi.X
				}
				same = canon(saved) == canon(b1) || saved == b1
				// the comparison may sit in a guard helper that received the usage record (by value or by pointer)
				if !same {
					rb := gtFact.Resolve(b1)
					if rb == canon(saved) || rb == saved {
						same = true
					} else if ld, isLd := rb.(*ssa.UnOp); isLd && ld.Op == token.MUL && (ld.X == saved || canon(ld.X) == canon(saved)) {
						same = true
					}
				}
			}
			o.Check("C15.R3", "UpdateBridgeTransferUsageWithLimit|the value checked is the value stored", same, w.Pos(m.Site.Instr.Pos()), "the usage object compared with the limit must be the one persisted")
		}
	}
	o.Count("C15.R3 usage counter write sites", nW, 1)
	if upd != nil {
		o.Analysed(w.FuncKey(upd))
		// Total assignments: amount, or stored.Total.Add(amount)
		nAcc := 0
		defer func() {
			o.Check("C15.R3", "UpdateBridgeTransferUsageWithLimit|an ongoing window accumulates", nAcc > 0, w.Pos(upd.Pos()), "some assignment of the new total must be stored total + amount; otherwise every transfer is measured alone against the limit")
		}()
		for _, st := range storesToField(upd, "BridgeTransferUsage", "Total") {
			names, args, recv := mathChain(st.Val)
			ok := false
			if len(names) == 0 {
				nm, _ := loadedField(canon(st.Val))
				ok = nm == "Amount"
			} else if len(names) == 1 && names[0] == "Add" {
				rn, _ := loadedField(canon(recv))
				an, _ := loadedField(canon(args[0]))
				ok = rn == "Total" && an == "Amount" && fl.DependsOnCall(recv, isCallee(skw, "Keeper", "BridgeTransferUsage")) != nil
				if ok {
					nAcc++
				}
			}
			o.Check("C15.R3", "UpdateBridgeTransferUsageWithLimit|new total is the amount or stored total + amount", ok, w.Pos(st.Pos()), "unexpected usage arithmetic: "+strings.Join(names, "."))
		}
	}
	// who is exempt is decided by looking at every listed address (the list is stored as given, in no order)
	if bt := w.Func(skw, "Keeper", "bridgeTaxAmount"); bt != nil {
		var bs []string
		for _, g := range unitFuncs(bt) {
			for _, c := range CallsIn(g) {
				if c.Fn != g {
					continue
				}
				if (c.Callee.Pkg == "sort" && strings.HasPrefix(c.Callee.Name, "Search")) || (c.Callee.Pkg == "slices" && strings.HasPrefix(c.Callee.Name, "BinarySearch")) {
					bs = append(bs, c.Callee.Pkg+"."+c.Callee.Name)
				}
			}
		}
		o.Check("C15.R2", "bridgeTaxAmount|the exemption list is searched exhaustively", len(bs) == 0, w.Pos(bt.Pos()), "a binary search ("+strings.Join(bs, ",")+") over the exemption list misses listed senders unless every writer stores the list sorted; SetBridgeTax and genesis import store it as given")
	}
	// a transfer released back to the pool keeps the tax recorded with it
	if cb := w.Func(skw, "Keeper", "CancelOutgoingTXBatch"); cb != nil {
		for _, g := range unitFuncs(cb) {
			for _, c := range CallsIn(g) {
				if c.Fn != g || c.Callee.Name != "addUnbatchedTX" {
					continue
				}
				x, _ := fl.Influence(c.Args()[len(c.Args())-1])
				tax := false
				for ap := range x {
					if strings.HasSuffix(ap.Path, ".BridgeTaxAmount") || strings.HasSuffix(ap.Path, ".Transactions[]") || strings.HasSuffix(ap.Path, "[]") {
						tax = true
					}
				}
				o.Check("C15.R3", "CancelOutgoingTXBatch|a re-pooled transfer keeps its recorded tax", tax, w.Pos(c.Instr.Pos()), "the pool entry put back must be the batch's transfer itself or carry its BridgeTaxAmount; rebuilt without it, a later cancel refunds the amount only and the tax stays locked")
			}
		}
	}
	// a window starts at the height of the transfer that opens it (or keeps the start it has): anchored anywhere
	// else, the next transfer sees it as already expired and the tally restarts again and again
	if upd != nil {
		sts := storesToField(upd, "BridgeTransferUsage", "StartBlockHeight")
		o.Count("C15.R3 window start assignments", len(sts), 1)
		for _, st := range sts {
			v := canon(st.Val)
			ok := false
			if c, isC := v.(*ssa.Call); isC {
				if cal, okc := CalleeOf(c.Common()); okc && cal.Name == "BlockHeight" {
					ok = true
				}
			}
			if nm, _ := loadedField(v); nm == "StartBlockHeight" {
				ok = true
			}
			o.Check("C15.R3", "UpdateBridgeTransferUsageWithLimit|a window starts at the current block height", ok, w.Pos(st.Pos()), "StartBlockHeight must be ctx.BlockHeight() (new window) or the stored start (ongoing window), not a value computed from the old window")
		}
	}

	if add := w.MustFunc(o, skw, "Keeper", "AddToOutgoingPool"); add != nil && upd != nil {
		us := FindCalls(add, false, func(c Callee) bool { return c.Static == upd })
		lock := FindCalls(add, false, func(c Callee) bool { return c.Name == "SendCoinsFromAccountToModule" })
		ok := len(us) == 1 && len(lock) == 1 && PrecededBy(add, lock[0].Instr, siteSet(us)) && GuardErrNil(lock[0].Instr, func(c Callee) bool { return c.Static == upd }) != nil
		o.Check("C15.R3", "AddToOutgoingPool|limit checked (and counted) before the lock", ok, w.Pos(add.Pos()), "the lock must be dominated by a successful UpdateBridgeTransferUsageWithLimit; a rejected send then consumes nothing because the handler's error discards the transaction (C01.R1)")
	}
}

func rulesC16(w *World, o *Out) {
	fl := NewFlow(w)
	const tfk = "x/tokenfactory/keeper"
	o.Rule("C16.R1", "every privileged operation in the token-factory msg server (mint, burn, admin change, metadata change) is dominated by creator == admin of the authority metadata loaded for the very denomination the operation uses")
	o.Rule("C16.R2", "mint credits and burn debits the message creator only")
	o.Rule("C16.R3", "MintCoins / BurnCoins in the token factory are dominated by a successful DeconstructDenom, and mint+send / send+burn use one amount and the address parameter as given")
	o.Rule("C16.R4", "the privileged keeper functions and the authority-metadata writer are called only from the msg server, the create flow and genesis")
	o.Rule("C16.R5", "a denomination is created only if bank metadata for it does not exist, and its name is GetTokenDenom(creator, sub)")
	o.Rule("C16.R6", "who administers a denomination is read from the committed store record only: GetAuthorityMetadata returns the unmarshalled record (or the empty value), and the tokenfactory keeper keeps no in-memory state beside the store")
	memStateRule(w, o, "C16.R6", "admin and supply decisions of the token factory", "x/tokenfactory")
	if gam := w.MustFunc(o, "x/tokenfactory/keeper", "Keeper", "GetAuthorityMetadata"); gam != nil {
		o.Analysed(w.FuncKey(gam))
		for i, r := range Returns(gam) {
			if len(r.Ret.Results) < 1 {
				continue
			}
			v := canon(r.Ret.Results[0])
			ok, why := false, "the returned metadata is "+v.String()
			if u, isLoad := r.Ret.Results[0].(*ssa.UnOp); isLoad {
				v = u
			}
			if u, isLoad := v.(*ssa.UnOp); isLoad {
				if al, isAl := u.X.(*ssa.Alloc); isAl {
					ok = true
					for _, rf := range *al.Referrers() {
						switch x := rf.(type) {
						case *ssa.Store:
							if x.Addr == ssa.Value(al) {
								ok, why = false, "the record variable is assigned from "+x.Val.String()
							}
						case *ssa.FieldAddr:
							for _, rf2 := range *x.Referrers() {
								if st, isSt := rf2.(*ssa.Store); isSt && st.Addr == ssa.Value(x) {
									ok, why = false, "a field of the record is assigned in the getter"
								}
							}
						}
					}
				}
			}
			if c, isConst := v.(*ssa.Const); isConst && c.Value == nil {
				ok = true
			}
			o.Check("C16.R6", "GetAuthorityMetadata|returns the stored record or the empty value"+ordSuffix(i), ok, w.Pos(r.Ret.Pos()),
				"a denomination without a stored authority record has no admin; deriving an admin from anything else (e.g. the creator spelled in a factory-shaped name) lets a never-created denomination be administered, given metadata and minted. "+why)
		}
	}

	type op struct {
		handler string
		callee  func(Callee) bool
		what    string
		denom   string // request path of the denom used by the operation
	}
	ops := []op{
		{"Mint", isCallee(tfk, "Keeper", "mintTo"), "mintTo", ".Amount.Denom"},
		{"Burn", isCallee(tfk, "Keeper", "burnFrom"), "burnFrom", ".Amount.Denom"},
		{"ChangeAdmin", isCallee(tfk, "Keeper", "setAdmin"), "setAdmin", ".Denom"},
		{"SetDenomMetadata", func(c Callee) bool { return c.Name == "SetDenomMetaData" }, "SetDenomMetaData", ".DenomMetadata.Base"},
	}
	for _, op := range ops {
		h := w.MustFunc(o, tfk, "msgServer", op.handler)
		if h == nil {
			continue
		}
		o.Analysed(w.FuncKey(h))
		sites := FindCalls(h, false, op.callee)
		o.Count("C16.R1 "+op.handler+" privileged sites", len(sites), 1)
		req := h.Params[len(h.Params)-1]
		for _, s := range sites {
			pos := w.Pos(s.Instr.Pos())
			var gm *ssa.Call
			var gmFact Fact
			okAdmin := false
			for _, f := range FactsAt(s.Instr) {
				if f.Kind != FCmp || f.Op != token.EQL {
					continue
				}
				for _, pair := range [][2]ssa.Value{{f.X, f.Y}, {f.Y, f.X}} {
					// through a guard helper (requireDenomAdmin(ctx, denom, sender)): the helper's parameters
					// are the arguments of the guarding call
					pair[0], pair[1] = f.Resolve(pair[0]), f.Resolve(pair[1])
					aps, _ := fl.Influence(pair[0])
					isCreator := false
					for a := range aps {
						if a.Root == ssa.Value(req) && a.Path == ".Metadata.Creator" {
							isCreator = true
						}
					}
					if !isCreator {
						continue
					}
					if c := fl.DependsOnCall(pair[1], isCallee(tfk, "Keeper", "GetAuthorityMetadata")); c != nil {
						if fl.DependsOnCall(pair[1], isCallee("", "", "GetAdmin")) != nil || strings.Contains(valDesc(pair[1]), "Admin") {
							okAdmin = true
							gm = c
							gmFact = f
						}
					}
				}
			}
			o.Check("C16.R1", op.handler+"|"+op.what+" only for the admin", okAdmin, pos, "must be dominated by msg.Metadata.Creator == authorityMetadata.GetAdmin()")
			if gm != nil {
				// metadata loaded for the same denom the operation uses
				args := gm.Call.Args
				aps, _ := fl.Influence(gmFact.Resolve(args[len(args)-1]))
				same := false
				for a := range aps {
					if a.Root == ssa.Value(req) && a.Path == op.denom {
						same = true
					}
				}
				// and the operation's denom argument comes from the same request path
				opSame := false
				for _, a := range s.Args() {
					x, _ := fl.Influence(a)
					for ap := range x {
						if ap.Root == ssa.Value(req) && (ap.Path == op.denom || strings.HasPrefix(op.denom, ap.Path+".") || strings.HasPrefix(ap.Path, strings.TrimSuffix(op.denom, ".Denom"))) {
							opSame = true
						}
					}
				}
				o.Check("C16.R1", op.handler+"|admin looked up for the denomination operated on", same && opSame, pos, "GetAuthorityMetadata must be called with msg"+op.denom+", the denomination the operation acts on")
			}
			// R2
			if op.what == "mintTo" || op.what == "burnFrom" {
				args := s.Args()
				aps, _ := fl.Influence(args[len(args)-1])
				okC := len(aps) > 0
				for a := range aps {
					if _, isP := a.Root.(*ssa.Parameter); isP && !(a.Root == ssa.Value(req) && a.Path == ".Metadata.Creator") {
						okC = false
					}
				}
				o.Check("C16.R2", op.handler+"|touches the creator's own balance only", okC, pos, "the address passed to "+op.what+" must be msg.Metadata.Creator")
			}
		}
	}
	// the per-denomination records are kept under the denomination exactly as spelled: sub-denominations are case
	// sensitive, so a key builder that folds or trims makes two denominations share one authority record
	for _, kb := range []string{"GetDenomPrefixStore", "GetCreatorPrefix", "GetCreatorsPrefix"} {
		f := w.Func("x/tokenfactory/types", "", kb)
		if f == nil || len(f.Blocks) == 0 {
			if kb != "GetCreatorsPrefix" {
				o.Unresolved("x/tokenfactory/types." + kb)
			}
			continue
		}
		lossy := ""
		for _, r := range Returns(f) {
			if len(r.Ret.Results) == 0 {
				continue
			}
			if c := fl.DependsOnCall(r.Ret.Results[0], isLossyStringFunc); c != nil {
				if cal, okc := CalleeOf(c.Common()); okc {
					lossy = cal.String()
				}
			}
		}
		o.Check("C16.R6", kb+"|the store key keeps the name as spelled", lossy == "", w.Pos(f.Pos()), "the key passes its argument through "+lossy+": distinct denominations (factory/a/gold, factory/a/GOLD) then share one authority record, and creating one resets the admin of the other")
	}
	// ---- R7: the wasm binding that writes bank metadata itself ----
	o.Rule("C16.R7", "the set_metadata wasm binding writes bank metadata only for the denomination whose admin it checked: the write is dominated by admin == contract for GetAuthorityMetadata(denom), and a metadata Base other than that denom is refused before the write")
	if psm := w.MustFunc(o, "x/tokenfactory/bindings", "", "PerformSetMetadata"); psm != nil {
		o.Analysed(w.FuncKey(psm))
		var denomP, contractP, metaP *ssa.Parameter
		for _, q := range psm.Params {
			switch q.Name() {
			case "denom":
				denomP = q
			case "contractAddr":
				contractP = q
			case "metadata":
				metaP = q
			}
		}
		sites := FindCalls(psm, false, func(c Callee) bool { return c.Name == "SetDenomMetaData" })
		o.Count("C16.R7 metadata writes in the binding", len(sites), 1)
		for _, st := range sites {
			pos := w.Pos(st.Instr.Pos())
			okAdmin := false
			for _, f := range FactsAt(st.Instr) {
				if f.Kind != FCmp || f.Op != token.EQL {
					continue
				}
				for _, pair := range [][2]ssa.Value{{f.X, f.Y}, {f.Y, f.X}} {
					a, b := f.Resolve(pair[0]), f.Resolve(pair[1])
					gm := fl.DependsOnCall(a, isCallee(tfk, "Keeper", "GetAuthorityMetadata"))
					if gm == nil || !(fl.DependsOnCall(a, isCallee("", "", "GetAdmin")) != nil || strings.Contains(valDesc(a), "Admin")) {
						continue
					}
					if denomP == nil || canon(f.Resolve(gm.Call.Args[len(gm.Call.Args)-1])) != ssa.Value(denomP) {
						continue
					}
					x, _ := fl.Influence(b)
					for ap := range x {
						if contractP != nil && ap.Root == ssa.Value(contractP) {
							okAdmin = true
						}
					}
				}
			}
			o.Check("C16.R7", "PerformSetMetadata|metadata written only by the admin of denom", okAdmin, pos, "SetDenomMetaData must be dominated by GetAuthorityMetadata(denom).Admin == contractAddr")
			// a Base different from denom never reaches the write
			okBase := false
			for _, b := range unitBlocks(psm) {
				if len(b.Instrs) == 0 {
					continue
				}
				iff, isIf := b.Instrs[len(b.Instrs)-1].(*ssa.If)
				if !isIf {
					continue
				}
				bo, isBo := canon(iff.Cond).(*ssa.BinOp)
				if !isBo || (bo.Op != token.EQL && bo.Op != token.NEQ) {
					continue
				}
				match := false
				for _, pair := range [][2]ssa.Value{{bo.X, bo.Y}, {bo.Y, bo.X}} {
					nm, base := loadedField(pair[0])
					if nm != "Base" || base == nil || denomP == nil || canon(pair[1]) != ssa.Value(denomP) {
						continue
					}
					if metaP != nil {
						x, _ := fl.Influence(pair[0])
						for ap := range x {
							if ap.Root == ssa.Value(metaP) {
								match = true
							}
						}
					}
				}
				if !match || b.Parent() != psm {
					continue
				}
				neq := b.Succs[1]
				if bo.Op == token.NEQ {
					neq = b.Succs[0]
				}
				if ReachFromTop(psm, neq, siteSet([]Site{st}), nil) == nil {
					okBase = true
				}
			}
			o.Check("C16.R7", "PerformSetMetadata|a Base other than denom is refused", okBase, pos, "bank stores metadata under metadata.Base; unless Base != denom returns before SetDenomMetaData, the admin of one denomination can overwrite the metadata of any other")
		}
	}
	// ---- R8: genesis import restores the exported authority record ----
	o.Rule("C16.R8", "genesis import stores, for every imported denomination, the exported authority record: after createDenomAfterValidation (which makes the creator admin) no path reaches the next denomination or the end of the import without setAuthorityMetadata(denom, exported record)")
	if ig := w.MustFunc(o, tfk, "Keeper", "InitGenesis"); ig != nil {
		o.Analysed(w.FuncKey(ig))
		cr := FindCalls(ig, false, isCallee(tfk, "Keeper", "createDenomAfterValidation"))
		sa := FindCalls(ig, false, isCallee(tfk, "Keeper", "setAuthorityMetadata"))
		o.Count("C16.R8 denominations created by the import", len(cr), 1)
		for _, c := range cr {
			to := map[ssa.Instruction]bool{c.Instr: true}
			for _, b := range ig.Blocks {
				if r, isR := b.Instrs[len(b.Instrs)-1].(*ssa.Return); isR {
					to[r] = true
				}
			}
			bad := ReachAvoiding(ig, c.Instr, to, siteSet(sa))
			okArg := false
			for _, s := range sa {
				if fl.DependsOnCall(s.Args()[len(s.Args())-1], isCallee("", "", "GetAuthorityMetadata")) != nil {
					okArg = true
				}
			}
			o.Check("C16.R8", "InitGenesis|every imported denomination gets its exported authority record", bad == nil && okArg, w.Pos(c.Instr.Pos()), "createDenomAfterValidation makes the creator admin; skipping the setAuthorityMetadata(genDenom.GetAuthorityMetadata()) that follows (e.g. for an empty admin) hands a renounced denomination back to its creator")
		}
	}
	// ---- R3 ----
	for _, name := range []string{"mintTo", "burnFrom"} {
		f := w.MustFunc(o, tfk, "Keeper", name)
		if f == nil {
			continue
		}
		o.Analysed(w.FuncKey(f))
		var coinVals []ssa.Value
		for _, s := range CallsIn(f) {
			if !isBankKeeperRecv(s.Callee) {
				continue
			}
			pos := w.Pos(s.Instr.Pos())
			o.Check("C16.R3", name+"|"+s.Callee.Name+" only for factory denominations", GuardErrNil(s.Instr, isCallee("x/tokenfactory/types", "", "DeconstructDenom")) != nil, pos, "bank mutation must be dominated by DeconstructDenom(amount.Denom) == nil")
			args := s.Args()
			coins := args[len(args)-1]
			aps, _ := fl.Influence(coins)
			okAmt := len(aps) > 0
			for a := range aps {
				if p, isP := a.Root.(*ssa.Parameter); isP && p.Name() != "amount" {
					okAmt = false
				}
			}
			// ... and it is that very value, not the result of arithmetic over it
			lv := coinLeaves(coins)
			if len(lv) == 0 {
				okAmt = false
			}
			for _, l := range lv {
				if !isParamNamed(l, "amount") {
					okAmt = false
				}
			}
			o.Check("C16.R3", name+"|"+s.Callee.Name+" moves exactly the requested amount", okAmt, pos, "coins must be the amount parameter only; influence="+strings.Join(aps.Strings(), ","))
			coinVals = append(coinVals, coins)
			// the account argument is the function's address parameter, unmodified
			if s.Callee.Name == "SendCoinsFromModuleToAccount" || s.Callee.Name == "SendCoinsFromAccountToModule" {
				var acct ssa.Value
				for _, a := range args[1:] {
					if strings.Contains(a.Type().String(), "AccAddress") {
						acct = a
					}
				}
				okAcc := false
				if acct != nil {
					x, _ := fl.Influence(acct)
					okAcc = len(x) > 0
					for a := range x {
						if p, isP := a.Root.(*ssa.Parameter); isP && p != f.Params[len(f.Params)-1] {
							okAcc = false
						}
					}
					// the parameter must not be reassigned: every influence root is the parameter itself (SSA value), checked above;
					// a shadowing assignment from DeconstructDenom shows up as a call root
					for a := range x {
						if c, isC := a.Root.(*ssa.Call); isC {
							if cal, ok := CalleeOf(c.Common()); ok && cal.Name == "DeconstructDenom" {
								okAcc = false
							}
						}
					}
					if fl.DependsOnCall(acct, isCallee("x/tokenfactory/types", "", "DeconstructDenom")) != nil {
						okAcc = false
					}
				}
				o.Check("C16.R3", name+"|"+s.Callee.Name+" uses the address it was given", okAcc, pos, "the account must be the function's address parameter, not a value derived from the denomination")
			}
		}
	}
	// ---- R4 ----
	gen := w.Reach(entryFns(w.EntriesOf("genesis")), nil)
	for _, name := range []string{"mintTo", "burnFrom", "setAdmin", "setAuthorityMetadata"} {
		f := w.Func(tfk, "Keeper", name)
		if f == nil {
			o.Unresolved(tfk + "." + name)
			continue
		}
		for _, s := range w.CallersOf(func(c Callee) bool { return c.Static == f }) {
			tf := TopFunc(s.Fn)
			ok := recvName(tf) == "msgServer" || gen[tf] != nil || tf.Name() == "createDenomAfterValidation" || tf.Name() == "setAdmin"
			o.Check("C16.R4", name+" called from "+w.FuncKey(tf), ok, w.Pos(s.Instr.Pos()), "privileged keeper functions may be reached only through the admin-checked msg server, the create flow or genesis")
		}
	}
	for _, s := range w.CallersOf(func(c Callee) bool {
		return (c.Name == "MintCoins" || c.Name == "BurnCoins") && isBankKeeperRecv(c)
	}) {
		p := funcPkgPath(s.Fn)
		ok := strings.HasSuffix(p, "/x/tokenfactory/keeper") || strings.HasSuffix(p, "/x/skyway/keeper")
		o.Check("C16.R4", "supply change in "+w.FuncKey(TopFunc(s.Fn)), ok, w.Pos(s.Instr.Pos()), "only the token factory and the bridge may mint or burn")
	}
	// ---- R5 ----
	if vcd := w.MustFunc(o, tfk, "Keeper", "validateCreateDenom"); vcd != nil {
		o.Analysed(w.FuncKey(vcd))
		for _, r := range Returns(vcd) {
			if r.Kind == RetError {
				continue
			}
			okNew := GuardBool(r.Ret, func(c Callee) bool { return c.Name == "GetDenomMetaData" }, false) != nil
			okName := fl.DependsOnCall(r.Ret.Results[0], isCallee("x/tokenfactory/types", "", "GetTokenDenom")) != nil
			o.Check("C16.R5", "validateCreateDenom|refuses an existing denomination", okNew, w.Pos(r.Ret.Pos()), "success must be dominated by bank GetDenomMetaData(denom) not found")
			o.Check("C16.R5", "validateCreateDenom|name is factory/<creator>/<sub>", okName, w.Pos(r.Ret.Pos()), "the denomination must be GetTokenDenom(creator, subdenom)")
			if g, gf := GuardBoolFact(r.Ret, func(c Callee) bool { return c.Name == "GetDenomMetaData" }, false); g != nil {
				// (asked through a predicate helper, the name is the argument bound at the helper's call)
				same := fl.DependsOnCall(gf.Resolve(g.Call.Args[len(g.Call.Args)-1]), isCallee("x/tokenfactory/types", "", "GetTokenDenom")) != nil
				o.Check("C16.R5", "validateCreateDenom|existence checked for the name being created", same, w.Pos(g.Pos()), "the metadata lookup must use the GetTokenDenom result")
			}
		}
	}
	if cd := w.MustFunc(o, tfk, "Keeper", "CreateDenom"); cd != nil {
		cs := FindCalls(cd, false, isCallee(tfk, "Keeper", "createDenomAfterValidation"))
		ok := len(cs) == 1 && GuardErrNil(cs[0].Instr, isCallee(tfk, "Keeper", "validateCreateDenom")) != nil
		o.Check("C16.R5", "CreateDenom|creation only after validation", ok, w.Pos(cd.Pos()), "createDenomAfterValidation must be dominated by validateCreateDenom == nil")
	}
	if h := w.MustFunc(o, tfk, "msgServer", "CreateDenom"); h != nil {
		req := h.Params[len(h.Params)-1]
		for _, s := range FindCalls(h, false, isCallee(tfk, "Keeper", "CreateDenom")) {
			aps, _ := fl.Influence(s.Args()[2])
			ok := len(aps) > 0
			for a := range aps {
				if !(a.Root == ssa.Value(req) && a.Path == ".Metadata.Creator") {
					if _, isP := a.Root.(*ssa.Parameter); isP {
						ok = false
					}
				}
			}
			o.Check("C16.R5", "CreateDenom handler|namespace is the creator's", ok, w.Pos(s.Instr.Pos()), "the creator address passed to the keeper must be msg.Metadata.Creator")
		}
	}
}

func rulesC17(w *World, o *Out) {
	fl := NewFlow(w)
	const sk = "x/scheduler/keeper"
	o.Rule("C17.R1", "the jobs store is written by one function, reached only through AddNewJob under 'id does not exist'; the owner of a created job is the message creator")
	o.Rule("C17.R2", "ScheduleNow passes the stored payload, or the caller's payload only on the modifiable edge; a caller payload on a fixed job returns an error before the chain executes anything")
	o.Rule("C17.R3", "the evm ExecuteJob enqueues exactly one contract call on every success path, with the payload produced by injecting the requester's address zero-padded to 32 bytes, the address taken whole (no fixed-width truncation)")
	o.Rule("C17.R4", "the requester whose address is injected is the message creator (not a signer); the scheduler keeps no in-memory copy of jobs beside the store")
	memStateRule(w, o, "C17.R4", "which job definition and payload is executed", "x/scheduler")
	// a contract that triggers a job is the requester: the wasm bindings pass the calling contract's address, never
	// an address named inside the contract's message
	nB := 0
	for _, f := range w.ProdFuncs {
		if !strings.HasSuffix(funcPkgPath(f), "/x/scheduler/bindings") {
			continue
		}
		for _, c := range CallsIn(f) {
			if c.Fn != f || c.Callee.Name != "ExecuteJob" || len(c.Args()) < 5 {
				continue
			}
			nB++
			args := c.Args()
			ok := true
			for _, a := range args[len(args)-2:] {
				q, isP := canon(a).(*ssa.Parameter)
				if !isP || !strings.HasSuffix(q.Type().String(), "AccAddress") {
					ok = false
				}
			}
			o.Check("C17.R4", w.FuncKey(TopFunc(f))+"|a contract-triggered execution names the calling contract as requester", ok, w.Pos(c.Instr.Pos()), "sender and contract address handed to ExecuteJob must be the contractAddr the wasm module passed in; an address taken from the message lets a contract put any identity into the call data")
		}
	}
	o.Count("C17.R4 executions triggered by the wasm bindings", nB, 2)
	if ej := w.MustFunc(o, sk, "msgServer", "ExecuteJob"); ej != nil {
		o.Analysed(w.FuncKey(ej))
		req := ej.Params[len(ej.Params)-1]
		n := 0
		for _, s2 := range CallsIn(ej) {
			if s2.Callee.Name != "ExecuteJob" || !strings.Contains(s2.Callee.Pkg, "x/scheduler") {
				continue
			}
			n++
			args := s2.Args()
			if len(args) < 2 {
				continue
			}
			sender := args[len(args)-2]
			aps, _ := fl.Influence(sender)
			okC, bad := false, ""
			for a := range aps {
				if a.Root != ssa.Value(req) {
					continue
				}
				if strings.Contains(a.Path, ".Metadata.Creator") {
					okC = true
				} else if a.Path != "" && !strings.HasSuffix(a.Path, ".Metadata") {
					bad = a.String()
				}
			}
			if fl.DependsOnCall(sender, func(c Callee) bool { return c.Name == "GetSigners" }) != nil {
				bad = "GetSigners()"
			}
			o.Check("C17.R4", "ExecuteJob handler|the requester passed on is the message creator", okC && bad == "", w.Pos(s2.Instr.Pos()),
				"the address appended to the payload (and recorded as sender of the call) must derive from Metadata.Creator alone; with delegated signing the first signer is the fee-grantee, not the account that requested the execution; also derived from "+bad)
		}
		o.Count("C17.R4 keeper ExecuteJob calls in the handler", n, 1)
	}

	muts := w.StoreMuts(fl)
	nJ := 0
	save := w.Func(sk, "Keeper", "saveJob")
	for _, m := range muts {
		if !m.Has("call:x/scheduler/keeper.Keeper.jobsStore") {
			continue
		}
		nJ++
		f := TopFunc(m.Site.Fn)
		o.Check("C17.R1", w.FuncKey(f)+"|writes the jobs store", f == save && m.Op != "Delete", w.Pos(m.Site.Instr.Pos()), "jobs are immutable: only the creation path may write the jobs store, nothing may delete")
	}
	o.Count("C17.R1 jobs store write sites", nJ, 1)
	if save != nil {
		add := w.Func(sk, "Keeper", "AddNewJob")
		for _, s := range w.CallersOf(func(c Callee) bool { return c.Static == save }) {
			ok := TopFunc(s.Fn) == add && GuardBool(s.Instr, isCallee(sk, "Keeper", "JobIDExists"), false) != nil
			o.Check("C17.R1", "saveJob called from "+w.FuncKey(TopFunc(s.Fn)), ok, w.Pos(s.Instr.Pos()), "a job may be saved only by AddNewJob under JobIDExists == false")
		}
		if add != nil {
			for _, s := range FindCalls(add, false, isCallee(sk, "Keeper", "JobIDExists")) {
				// same id as the job saved
				ok := fl.DependsOnCall(s.Args()[len(s.Args())-1], isCallee("", "", "GetID")) != nil
				o.Check("C17.R1", "AddNewJob|existence checked for the id being created", ok, w.Pos(s.Instr.Pos()), "JobIDExists must be asked for job.GetID()")
			}
		}
	}
	if h := w.MustFunc(o, sk, "msgServer", "CreateJob"); h != nil {
		o.Analysed(w.FuncKey(h))
		req := h.Params[len(h.Params)-1]
		sts := storesToField(h, "Job", "Owner")
		o.Count("C17.R1 owner assignments in CreateJob", len(sts), 1)
		for _, st := range sts {
			aps, _ := fl.Influence(st.Val)
			ok := false
			for a := range aps {
				if a.Root == ssa.Value(req) && a.Path == ".Metadata.Creator" {
					ok = true
				}
			}
			for a := range aps {
				if p, isP := a.Root.(*ssa.Parameter); isP && p == req && a.Path != ".Metadata.Creator" {
					ok = false
				}
			}
			o.Check("C17.R1", "CreateJob|owner is the creator", ok, w.Pos(st.Pos()), "job.Owner must derive from msg.Metadata.Creator only")
		}
	}
	// the id that was checked is the id that is saved: nothing on the creation path assigns Job.ID
	for _, nm := range []string{"AddNewJob", "saveJob"} {
		if f := w.Func(sk, "Keeper", nm); f != nil {
			sts := storesToField(f, "Job", "ID")
			pos := w.Pos(f.Pos())
			if len(sts) > 0 {
				pos = w.Pos(sts[0].Pos())
			}
			o.Check("C17.R1", nm+"|the job id is not rewritten between the existence check and the write", len(sts) == 0, pos, "JobIDExists is asked for the id as submitted; normalising or otherwise assigning job.ID afterwards lets a request with a differently spelled id overwrite an existing job")
		}
	}
	// ---- R2 ----
	if sn := w.MustFunc(o, sk, "Keeper", "ScheduleNow"); sn != nil {
		o.Analysed(w.FuncKey(sn))
		sts := storesToField(sn, "JobConfiguration", "Payload")
		o.Count("C17.R2 payload assignments", len(sts), 1)
		inP := sn.Params[3]
		for _, st := range sts {
			phi, isPhi := canon(st.Val).(*ssa.Phi)
			ok := false
			if isPhi {
				ok = true
				for i, e := range phi.Edges {
					pred := phi.Block().Preds[i]
					if canon(e) == ssa.Value(inP) {
						// the edge that carries the caller payload must be under GetIsPayloadModifiable() == true
						g := false
						fs := DomFacts(pred)
						if len(pred.Instrs) > 0 {
							if iff, okI := pred.Instrs[len(pred.Instrs)-1].(*ssa.If); okI {
								fs = append(fs, factOf(iff.Cond, pred.Succs[0] == phi.Block()))
							}
						}
						for _, f := range fs {
							if f.Kind == FTrue && fl.DependsOnCall(f.V, isCallee("", "", "GetIsPayloadModifiable")) != nil {
								g = true
							}
						}
						if !g {
							ok = false
						}
					} else if fl.DependsOnCall(e, isCallee("", "", "GetPayload")) == nil {
						ok = false
					}
				}
			} else {
				// no override at all: must be the stored payload
				ok = fl.DependsOnCall(st.Val, isCallee("", "", "GetPayload")) != nil && canon(st.Val) != ssa.Value(inP)
			}
			o.Check("C17.R2", "ScheduleNow|caller payload only for modifiable jobs", ok, w.Pos(st.Pos()), "jcfg.Payload must be the stored payload, or the caller's payload on an edge dominated by GetIsPayloadModifiable() == true")
			// ... and the converse: the stored payload is used only when the job is not modifiable or no payload
			// was supplied (a supplied payload that is set aside for any other reason must not silently be replaced
			// by the stored one)
			if isPhi {
				okC := true
				for i, e := range phi.Edges {
					if canon(e) == ssa.Value(inP) {
						continue
					}
					pred := phi.Block().Preds[i]
					fs := DomFacts(pred)
					if len(pred.Instrs) > 0 {
						if iff, okI := pred.Instrs[len(pred.Instrs)-1].(*ssa.If); okI {
							fs = append(fs, factOf(iff.Cond, pred.Succs[0] == phi.Block()))
						}
					}
					g := false
					for _, f := range fs {
						if f.Kind == FFalse && fl.DependsOnCall(f.V, isCallee("", "", "GetIsPayloadModifiable")) != nil {
							g = true
						}
						if f.Kind == FNil && f.V != nil && canon(f.V) == ssa.Value(inP) {
							g = true
						}
						if f.Kind == FCmp && f.Op == token.EQL {
							// len(in) == 0
							for _, pair := range [][2]ssa.Value{{f.X, f.Y}, {f.Y, f.X}} {
								if k, isK := pair[1].(*ssa.Const); isK && k.Value != nil && k.Int64() == 0 {
									if lc, isC := canon(pair[0]).(*ssa.Call); isC {
										if b, isB := lc.Call.Value.(*ssa.Builtin); isB && b.Name() == "len" && canon(lc.Call.Args[0]) == ssa.Value(inP) {
											g = true
										}
									}
								}
							}
						}
					}
					if !g {
						okC = false
					}
				}
				o.Check("C17.R2", "ScheduleNow|stored payload only when the job is fixed or nothing was supplied", okC, w.Pos(st.Pos()), "every edge on which jcfg.Payload is the stored payload must be under GetIsPayloadModifiable() == false or in == nil; a supplied payload of a modifiable job is used or the request fails")
			}
		}
		ex := FindCalls(sn, false, func(c Callee) bool { return c.Name == "ExecuteJob" && c.Iface })
		o.Count("C17.R2 chain execution sites", len(ex), 1)
		for _, s := range ex {
			// refused: len(in) > 0 && !modifiable returns error before execution: the execute call is not reachable from that edge
			okR := false
			for _, b := range unitBlocks(sn) {
				if len(b.Instrs) == 0 {
					continue
				}
				iff, ok := b.Instrs[len(b.Instrs)-1].(*ssa.If)
				if !ok {
					continue
				}
				f := factOf(iff.Cond, true)
				if fl.DependsOnCall(iff.Cond, isCallee("", "", "GetIsPayloadModifiable")) == nil {
					continue
				}
				_ = f
				for i, succ := range b.Succs {
					// an edge refuses when the execution is unreachable from it: in ScheduleNow itself, or -- for a
					// check extracted into a helper -- when no success return of the helper is reachable from it and
					// the execution is dominated by the helper's nil error
					refuses := false
					if h := b.Parent(); h == sn {
						refuses = ReachFromTop(sn, succ, map[ssa.Instruction]bool{s.Instr: true}, nil) == nil
					} else {
						refuses = ReachFromTop(h, succ, SuccessReturns(h), nil) == nil &&
							GuardErrNil(s.Instr, func(c Callee) bool { return c.Static == h }) != nil
					}
					if refuses {
						// this edge refuses; it must be the "not modifiable" edge reached under len(in) > 0
						ff := factOf(iff.Cond, i == 0)
						if ff.Kind == FFalse {
							for _, d := range DomFacts(b) {
								if d.Kind == FCmp && (d.Op == token.GTR || d.Op == token.NEQ) {
									okR = true
								}
							}
						}
					}
				}
			}
			o.Check("C17.R2", "ScheduleNow|a caller payload on a fixed job is refused before execution", okR, w.Pos(s.Instr.Pos()), "len(in) > 0 && !modifiable must return an error from which ExecuteJob is unreachable")
		}
	}
	// ---- R3 ----
	if ej := w.MustFunc(o, "x/evm/keeper", "Keeper", "ExecuteJob"); ej != nil {
		o.Analysed(w.FuncKey(ej))
		enq := FindCalls(ej, false, isCallee("x/evm/keeper", "Keeper", "AddSmartContractExecutionToConsensus"))
		o.Check("C17.R3", "ExecuteJob|exactly one enqueue site", len(enq) == 1, w.Pos(ej.Pos()), "found "+itoa(len(enq)))
		if len(enq) == 1 {
			bad := ReachAvoiding(ej, nil, successExcept(ej, enq[0]), siteSet(enq))
			o.Check("C17.R3", "ExecuteJob|every success path enqueues the contract call", bad == nil, w.Pos(ej.Pos()), "a success return that does not pass AddSmartContractExecutionToConsensus reports success without enqueuing anything")
			// the enqueue's own result is returned
			direct := false
			for _, r := range Returns(ej) {
				for _, c := range callsBehind(r.Ret.Results[0]) {
					if c == enq[0].Value() {
						direct = true
					}
				}
			}
			o.Check("C17.R3", "ExecuteJob|enqueue failure propagates", direct, w.Pos(enq[0].Instr.Pos()), "the message id and error of the enqueue must be returned")
		}
		sts := storesToField(ej, "SubmitLogicCall", "Payload")
		o.Count("C17.R3 payload assignments in ExecuteJob", len(sts), 1)
		for _, st := range sts {
			c := fl.DependsOnCall(st.Val, isCallee("x/evm/keeper", "", "injectSenderIntoPayload"))
			ok := c != nil
			d := "SubmitLogicCall.Payload must be the job payload followed by the requester identity (injectSenderIntoPayload, or append(payload, zeroPadBytes(identity, 32)...))"
			// the same composition written out: append(base, zeroPadBytes(identity, 32)...)
			var idArg, baseArg ssa.Value
			if ok {
				idArg, baseArg = c.Call.Args[0], c.Call.Args[1]
			} else {
				_, pcalls := fl.Influence(st.Val)
				for ac := range pcalls {
					b, isB := ac.Call.Value.(*ssa.Builtin)
					if !isB || b.Name() != "append" || len(ac.Call.Args) != 2 {
						continue
					}
					inUnit := false
					for _, u := range unitFuncs(ej) {
						if ac.Parent() == u {
							inUnit = true
						}
					}
					pad := fl.DependsOnCall(ac.Call.Args[1], isCallee("x/evm/keeper", "", "zeroPadBytes"))
					if !inUnit || pad == nil {
						continue
					}
					if k, isK := pad.Call.Args[1].(*ssa.Const); !isK || k.Int64() != 32 {
						continue
					}
					if fl.DependsOnCall(ac.Call.Args[0], isCallee("x/evm/keeper", "", "zeroPadBytes")) != nil {
						continue // the identity goes after the payload, not before it
					}
					idArg, baseArg, ok = pad.Call.Args[0], ac.Call.Args[0], true
				}
			}
			if ok {
				aps, calls := fl.Influence(idArg)
				okS := false
				for a := range aps {
					if strings.HasSuffix(a.Path, ".SenderAddress") || strings.HasSuffix(a.Path, ".ContractAddress") {
						okS = true
					}
				}
				var trunc []string
				for cc := range calls {
					if cal, ok2 := CalleeOf(cc.Common()); ok2 && cal.Pkg == "github.com/ethereum/go-ethereum/common" {
						switch cal.Name {
						case "BytesToAddress", "BytesToHash", "HexToAddress", "HexToHash":
							trunc = append(trunc, cal.String())
						}
					}
				}
				pa, _ := fl.Influence(baseArg)
				okP := false
				for a := range pa {
					if strings.HasSuffix(a.Path, ".Payload") || strings.Contains(a.String(), "HexPayload") {
						okP = true
					}
				}
				if fl.DependsOnCall(baseArg, isCallee("x/evm/keeper", "Keeper", "unmarshalJob")) != nil {
					okP = true
				}
				// the hex payload is decoded by common.FromHex (tolerates the 0x prefix); Hex2Bytes silently yields
				// nothing for a prefixed string
				_, bcalls := fl.Influence(baseArg)
				for cc := range bcalls {
					if cal, ok2 := CalleeOf(cc.Common()); ok2 && (cal.Name == "Hex2Bytes" || (cal.Pkg == "encoding/hex" && cal.Name == "DecodeString")) {
						if pa2, _ := fl.Influence(cc.Call.Args[0]); len(pa2) > 0 {
							for a := range pa2 {
								if strings.Contains(a.String(), "HexPayload") {
									trunc = append(trunc, cal.String()+" (drops a 0x-prefixed payload)")
								}
							}
						}
					}
				}
				ok = okS && okP && len(trunc) == 0
				d = "the injected identity must be the requester's whole address (SenderAddress / ContractAddress) and the base the job payload; truncating conversions on the identity: " + strings.Join(trunc, ",")
			}
			o.Check("C17.R3", "ExecuteJob|payload = job payload + requester identity", ok, w.Pos(st.Pos()), d)
		}
	}
	// the composing helper, where the code has one (without it, the rule above demands the composition in ExecuteJob)
	if inj := w.Func("x/evm/keeper", "", "injectSenderIntoPayload"); inj != nil {
		okPad := false
		for _, s := range FindCalls(inj, false, isCallee("x/evm/keeper", "", "zeroPadBytes")) {
			if c, ok := s.Args()[1].(*ssa.Const); ok && c.Int64() == 32 {
				okPad = true
			}
		}
		okApp := false
		for _, r := range Returns(inj) {
			if r.Kind == RetError {
				continue
			}
			if c, ok := canon(r.Ret.Results[0]).(*ssa.Call); ok {
				if b, ok := c.Call.Value.(*ssa.Builtin); ok && b.Name() == "append" {
					if p, ok := canon(c.Call.Args[0]).(*ssa.Parameter); ok && p == inj.Params[1] {
						okApp = fl.DependsOnCall(c.Call.Args[1], isCallee("x/evm/keeper", "", "zeroPadBytes")) != nil
					}
				}
			}
		}
		o.Check("C17.R3", "injectSenderIntoPayload|payload followed by the identity padded to 32 bytes", okPad && okApp, w.Pos(inj.Pos()), "must return append(payload, zeroPadBytes(sender, 32)...)")
	}
	// which contract is called comes from the stored definition only: definition and payload are decoded into
	// separate values
	if uj := w.Func("x/evm/keeper", "Keeper", "unmarshalJob"); uj != nil {
		targets := map[ssa.Value]int{}
		for _, c := range CallsIn(uj) {
			if c.Callee.Pkg == "encoding/json" && c.Callee.Name == "Unmarshal" && len(c.Args()) == 2 {
				t := c.Args()[1]
				if mi, isMI := t.(*ssa.MakeInterface); isMI {
					t = mi.X
				}
				targets[baseOf(t)]++
			}
		}
		shared := false
		for _, n := range targets {
			if n > 1 {
				shared = true
			}
		}
		o.Check("C17.R3", "unmarshalJob|definition and payload are decoded into separate values", len(targets) >= 2 && !shared, w.Pos(uj.Pos()), "decoding the caller-suppliable payload into the value that holds the definition lets payload keys (address, abi) overwrite the job's contract")
	}
	if zp := w.MustFunc(o, "x/evm/keeper", "", "zeroPadBytes"); zp != nil {
		// left padding: copy(ret[size-len:], input)
		ok := false
		for _, s := range CallsIn(zp) {
			if b, isB := s.Common().Value.(*ssa.Builtin); isB && b.Name() == "copy" {
				if sl, isS := s.Args()[0].(*ssa.Slice); isS && sl.Low != nil {
					if bo, isBo := sl.Low.(*ssa.BinOp); isBo && bo.Op == token.SUB {
						ok = true
					}
				}
			}
		}
		o.Check("C17.R3", "zeroPadBytes|pads on the left", ok, w.Pos(zp.Pos()), "input must be copied to ret[size-len(input):]")
	}
}

// successExcept: success returns of f other than those returning the given call's result directly.
func successExcept(f *ssa.Function, s Site) map[ssa.Instruction]bool {
	out := map[ssa.Instruction]bool{}
	for _, r := range Returns(f) {
		if r.Kind == RetError {
			continue
		}
		direct := false
		for _, rv := range r.Ret.Results {
			for _, c := range callsBehind(rv) {
				if c == s.Value() {
					direct = true
				}
			}
		}
		if !direct {
			out[r.Ret] = true
		}
	}
	return out
}

func ordSuffix(i int) string {
	if i == 0 {
		return ""
	}
	return "#" + itoa(i+1)
}

func rulesC18(w *World, o *Out) {
	o.Rule("C18.R4", "licence bookkeeping is taken from committed store state only (no in-memory state beside the store in x/paloma)")
	memStateRule(w, o, "C18.R4", "licence existence, amounts and activation", "x/paloma/keeper")
	fl := NewFlow(w)
	const pk = "x/paloma/keeper"
	o.Rule("C18.R1", "the paloma module account is moved by exactly two sites: the lock at licence creation, whose coins are the very coin recorded as the licence amount, and the release at activation, whose coins (and the vesting amount) are the loaded licence's amount; vesting starts at the block time and ends VestingMonths later")
	o.Rule("C18.R2", "a licence is created only when none exists for the address and no account exists; activation deletes the licence on every success path and is keyed by the message creator")
	o.Rule("C18.R3", "the sale path creates a licence only past the feegranter / funders / balance checks and the sale-contract match for the claim's own chain, and its errors propagate to the attestation's cached context")

	cl := w.MustFunc(o, pk, "Keeper", "CreateLightNodeClientLicense")
	ca := w.MustFunc(o, pk, "Keeper", "CreateLightNodeClientAccount")
	muts := w.StoreMuts(fl)
	nBank := 0
	for _, m := range muts {
		if !strings.HasPrefix(m.Op, "bank:") || !strings.HasSuffix(funcPkgPath(m.Site.Fn), "/x/paloma/keeper") {
			continue
		}
		nBank++
		f := TopFunc(m.Site.Fn)
		op := strings.TrimPrefix(m.Op, "bank:")
		pos := w.Pos(m.Site.Instr.Pos())
		args := m.Site.Args()
		coins := args[len(args)-1]
		switch {
		case f == cl && op == "SendCoinsFromAccountToModule":
			// the locked coin is the coin stored in the licence
			var lic ssa.Value
			for _, st := range storesToField(f, "LightNodeClientLicense", "Amount") {
				lic = st.Val
			}
			ok := false
			if lic != nil {
				a1, _ := fl.Influence(coins)
				a2, _ := fl.Influence(lic)
				ok = len(a1) > 0 && len(a2) > 0
				for a := range a1 {
					if _, isP := a.Root.(*ssa.Parameter); isP && !a2[a] {
						ok = false
					}
				}
				for a := range a2 {
					if _, isP := a.Root.(*ssa.Parameter); isP && !a1[a] {
						ok = false
					}
				}
				// identical value, not merely same parameter: both must be the amount parameter without other call roots
				for a := range a2 {
					if c, isC := a.Root.(*ssa.Call); isC {
						if cal, okc := CalleeOf(c.Common()); okc && (cal.Name == "NewCoin" || cal.Name == "NewCoins") {
							ok = false
						}
					}
				}
			}
			o.Check("C18.R1", "CreateLightNodeClientLicense|the coin locked is the coin recorded", ok, pos, "license.Amount and the coins sent to the module must be the same amount value (same denomination and quantity)")
			// licence saved after the lock on every success path
			sv := FindCalls(f, false, isCallee(pk, "Keeper", "SetLightNodeClientLicense"))
			okS := len(sv) > 0 && ReachAvoiding(f, m.Site.Instr, successExcept(f, sv[0]), siteSet(sv)) == nil
			o.Check("C18.R1", "CreateLightNodeClientLicense|every success path after the lock records the licence", okS, pos, "locked coins without a licence would be unaccounted for")
		case f == ca && op == "SendCoinsFromModuleToAccount":
			aps, _ := fl.Influence(coins)
			ok := false
			for a := range aps {
				if strings.HasSuffix(a.Path, ".Amount") && fl.DependsOnCall(coins, isCallee(pk, "Keeper", "GetLightNodeClientLicense")) != nil {
					ok = true
				}
			}
			o.Check("C18.R1", "CreateLightNodeClientAccount|releases exactly the licensed amount", ok, pos, "released coins must be the loaded licence's Amount")
			// recipient is the licensed address (the function's addr parameter)
			acct := args[len(args)-2]
			x, _ := fl.Influence(acct)
			okR := len(x) > 0
			for a := range x {
				if p, isP := a.Root.(*ssa.Parameter); isP && p.Name() != "addr" && p.Name() != "ctx" && !isReceiver(p.Parent(), p) {
					okR = false
				}
			}
			o.Check("C18.R1", "CreateLightNodeClientAccount|released to the licensed address", okR, pos, "the recipient must be the addr parameter")
		default:
			o.Fail("C18.R1", w.FuncKey(f)+"|"+op+"|unregistered mover of the licence escrow", pos, "only licence creation (lock) and activation (release) may move the paloma module account")
		}
	}
	o.Count("C18.R1 bank sites in the paloma keeper", nBank, 2)
	if ca != nil {
		o.Analysed(w.FuncKey(ca))
		// vesting
		nv := FindCalls(ca, false, func(c Callee) bool { return c.Name == "NewBaseVestingAccount" })
		for _, s := range nv {
			args := s.Args()
			a1, _ := fl.Influence(args[1])
			okA := false
			for a := range a1 {
				if strings.HasSuffix(a.Path, ".Amount") {
					okA = true
				}
			}
			okE := fl.DependsOnCall(args[2], isCallee("", "", "BlockTime")) != nil && fl.DependsOnCall(args[2], func(c Callee) bool { return c.Name == "AddDate" }) != nil
			// ... later by the licence's months: AddDate(0, VestingMonths, 0)
			if ad := fl.DependsOnCall(args[2], func(c Callee) bool { return c.Name == "AddDate" && c.Recv == "Time" }); ad != nil && len(ad.Call.Args) == 4 {
				zero := func(v ssa.Value) bool {
					k, isK := v.(*ssa.Const)
					return isK && k.Value != nil && k.Int64() == 0
				}
				mo, _ := fl.Influence(ad.Call.Args[2])
				months := false
				for a := range mo {
					if strings.HasSuffix(a.Path, ".VestingMonths") {
						months = true
					}
				}
				o.Check("C18.R1", "CreateLightNodeClientAccount|the vesting period is counted in months", zero(ad.Call.Args[1]) && zero(ad.Call.Args[3]) && months, w.Pos(ad.Pos()), "the end of vesting must be BlockTime().AddDate(0, license.VestingMonths, 0); the months in the years or days position change the schedule by a factor of 12 or 30")
			}
			e2, _ := fl.Influence(args[2])
			okM := false
			for a := range e2 {
				if strings.HasSuffix(a.Path, ".VestingMonths") {
					okM = true
				}
			}
			o.Check("C18.R1", "CreateLightNodeClientAccount|vests the licensed amount until block time + VestingMonths", okA && okE && okM, w.Pos(s.Instr.Pos()), "vesting amount must be license.Amount and the end time BlockTime().AddDate(0, VestingMonths, 0)")
		}
		cv := FindCalls(ca, false, func(c Callee) bool { return c.Name == "NewContinuousVestingAccountRaw" })
		for _, s := range cv {
			ok := fl.DependsOnCall(s.Args()[1], isCallee("", "", "BlockTime")) != nil
			o.Check("C18.R1", "CreateLightNodeClientAccount|vesting starts at activation", ok, w.Pos(s.Instr.Pos()), "start time must be the block time")
		}
		o.Count("C18.R1 vesting account constructions", len(nv)+len(cv), 2)
		// R2: delete licence on success
		var dels []Site
		for _, m := range w.mutsIn(fl, ca) {
			if m.Op == "Delete" && m.Has("call:x/paloma/keeper.Keeper.lightNodeClientLicenseStore") {
				dels = append(dels, m.Site)
			}
		}
		rel := FindCalls(ca, false, func(c Callee) bool { return c.Name == "SendCoinsFromModuleToAccount" })
		ok := len(dels) > 0 && len(rel) > 0
		if ok {
			sv := FindCalls(ca, false, isCallee(pk, "Keeper", "SetLightNodeClient"))
			ex := map[ssa.Instruction]bool{}
			if len(sv) > 0 {
				ex = successExcept(ca, sv[0])
				// returns of the final call's result: require the delete before it
				for _, s := range sv {
					if !PrecededBy(ca, s.Instr, siteSet(dels)) {
						ok = false
					}
				}
			}
			if ReachAvoiding(ca, rel[0].Instr, ex, siteSet(dels)) != nil {
				ok = false
			}
		}
		o.Check("C18.R2", "CreateLightNodeClientAccount|licence deleted whenever funds were released", ok, w.Pos(ca.Pos()), "every success path after the release must delete the licence, otherwise it can be activated again")
		for _, d := range dels {
			x, _ := fl.Influence(d.Args()[len(d.Args())-1])
			okK := len(x) > 0
			for a := range x {
				if p, isP := a.Root.(*ssa.Parameter); isP && p.Name() != "addr" && p.Name() != "ctx" && !isReceiver(p.Parent(), p) {
					okK = false
				}
			}
			o.Check("C18.R2", "CreateLightNodeClientAccount|deletes the activated address's licence", okK, w.Pos(d.Instr.Pos()), "the deleted key must be the addr parameter")
			// ... and the licence that is paid out was loaded under that very key: no re-spelling of the address
			// between lookup and delete (a licence found under ToUpper(addr) is paid out but never deleted)
			tr := ""
			for _, bs := range CallsIn(ca) {
				if !isBankKeeperRecv(bs.Callee) || bs.Callee.Name != "SendCoinsFromModuleToAccount" {
					continue
				}
				args := bs.Args()
				if c := fl.DependsOnCall(args[len(args)-1], isLossyStringFunc); c != nil {
					if cal, okc := CalleeOf(c.Common()); okc {
						tr = cal.String()
					}
				}
			}
			o.Check("C18.R2", "CreateLightNodeClientAccount|the licence paid out is looked up under the key that is deleted", tr == "", w.Pos(d.Instr.Pos()),
				"the released amount comes from a licence found through "+tr+" applied to the address, while the delete uses the address as given: the licence survives its own activation")
		}
	}
	if cl != nil {
		o.Analysed(w.FuncKey(cl))
		for _, s := range FindCalls(cl, false, func(c Callee) bool { return c.Name == "SendCoinsFromAccountToModule" }) {
			pos := w.Pos(s.Instr.Pos())
			// licence not found
			okNF := false
			for _, f := range FactsAt(s.Instr) {
				if f.Kind == FTrue {
					if c, ok := canon(f.V).(*ssa.Call); ok {
						if cal, ok := CalleeOf(c.Common()); ok && cal.Name == "Is" && cal.Pkg == "errors" {
							if fl.DependsOnCall(c.Call.Args[0], isCallee(pk, "Keeper", "GetLightNodeClientLicense")) != nil {
								okNF = true
							}
						}
					}
				}
			}
			o.Check("C18.R2", "CreateLightNodeClientLicense|only when no licence exists for the address", okNF, pos, "the lock must be dominated by GetLightNodeClientLicense failing with ErrNotFound")
			o.Check("C18.R2", "CreateLightNodeClientLicense|only when no account exists", guardedByMethod(s.Instr, "HasAccount", false), pos, "the lock must be dominated by HasAccount == false")
		}
	}
	if h := w.MustFunc(o, pk, "msgServer", "RegisterLightNodeClient"); h != nil {
		req := h.Params[len(h.Params)-1]
		for _, s := range FindCalls(h, false, isCallee(pk, "Keeper", "CreateLightNodeClientAccount")) {
			x, _ := fl.Influence(s.Args()[len(s.Args())-1])
			ok := len(x) > 0
			for a := range x {
				if !(a.Root == ssa.Value(req) && a.Path == ".Metadata.Creator") {
					if _, isP := a.Root.(*ssa.Parameter); isP {
						ok = false
					}
				}
			}
			o.Check("C18.R2", "RegisterLightNodeClient|activation keyed by the creator", ok, w.Pos(s.Instr.Pos()), "the activated address must be msg.Metadata.Creator")
		}
	}
	// ---- R3 ----
	if cs := w.MustFunc(o, pk, "Keeper", "CreateSaleLightNodeClientLicense"); cs != nil && cl != nil {
		o.Analysed(w.FuncKey(cs))
		for _, s := range FindCalls(cs, false, func(c Callee) bool { return c.Static == cl }) {
			pos := w.Pos(s.Instr.Pos())
			o.Check("C18.R3", "sale|licence only with a fee granter configured", GuardErrNil(s.Instr, isCallee(pk, "Keeper", "LightNodeClientFeegranter")) != nil, pos, "must be dominated by LightNodeClientFeegranter == nil error")
			o.Check("C18.R3", "sale|licence only with funders configured", GuardErrNil(s.Instr, isCallee(pk, "Keeper", "LightNodeClientFunders")) != nil, pos, "must be dominated by LightNodeClientFunders == nil error")
			okF := false
			for _, f := range FactsAt(s.Instr) {
				if f.Kind == FNonNil || (f.Kind == FCmp && f.Op == token.NEQ) {
					okF = true
				}
			}
			// ... and every non-nil value the funder variable can take was assigned under HasBalance(.., that account, coin)
			if okF && len(s.Args()) >= 2 {
				var fv ssa.Value
				for _, a := range s.Args() {
					if c, isCall := canon(a).(*ssa.Call); isCall { // funder.String()
						if cal, okc := CalleeOf(c.Common()); okc && cal.Name == "String" && cal.Recv == "AccAddress" && len(c.Call.Args) > 0 {
							fv = canon(c.Call.Args[0])
						}
					}
				}
				seen := map[*ssa.Phi]bool{}
				var walk func(ph *ssa.Phi)
				walk = func(ph *ssa.Phi) {
					if seen[ph] {
						return
					}
					seen[ph] = true
					for i, e := range ph.Edges {
						ev := canon(e)
						if isNilConst(ev) {
							continue
						}
						if p2, isPhi := ev.(*ssa.Phi); isPhi {
							walk(p2)
							continue
						}
						if elementOfBalanceFilter(ev) {
							continue // an element of slice.Filter(accounts, HasBalance(.., account, coin))
						}
						pred := ph.Block().Preds[i]
						facts := DomFacts(pred)
						if len(pred.Instrs) > 0 {
							if iff, isIf := pred.Instrs[len(pred.Instrs)-1].(*ssa.If); isIf && pred.Succs[0] != pred.Succs[1] {
								facts = append(facts, factOf(iff.Cond, pred.Succs[0] == ph.Block()))
							}
						}
						held := false
						for _, fa := range facts {
							if fa.Kind != FTrue {
								continue
							}
							if hc, isCall := canon(fa.V).(*ssa.Call); isCall {
								if cal, okc := CalleeOf(hc.Common()); okc && cal.Name == "HasBalance" {
									args := hc.Common().Args
									if len(args) >= 2 && (canon(args[len(args)-2]) == ev || sameLoad(args[len(args)-2], ev)) {
										held = true
									}
								}
							}
						}
						if !held {
							okF = false
						}
					}
				}
				if ph, isPhi := fv.(*ssa.Phi); isPhi {
					walk(ph)
				}
			}
			o.Check("C18.R3", "sale|licence only with a funder holding the amount", okF, pos, "must be dominated by funder != nil, and the funder variable is only ever set to an account for which HasBalance(account, coin) held")
			ft, why := errorFate(cs, s)
			o.Check("C18.R3", "sale|licence creation failure propagates", ft == fatePropagates, pos, why)
		}
	}
	if hs := w.MustFunc(o, skw, "AttestationHandler", "handleLightNodeSale"); hs != nil {
		o.Analysed(w.FuncKey(hs))
		for _, s := range FindCalls(hs, false, func(c Callee) bool { return c.Name == "CreateSaleLightNodeClientLicense" }) {
			pos := w.Pos(s.Instr.Pos())
			// contract loaded for the claim's own chain and equal to the claim's contract address
			okC := false
			var lc *ssa.Call
			for _, f := range FactsAt(s.Instr) {
				if f.Kind == FCmp && f.Op == token.EQL {
					for _, pair := range [][2]ssa.Value{{f.X, f.Y}, {f.Y, f.X}} {
						n0, _ := loadedField(pair[0])
						n1, _ := loadedField(pair[1])
						if n0 == "ContractAddress" && n1 == "SmartContractAddress" {
							if c := fl.DependsOnCall(pair[0], isCallee(skw, "Keeper", "LightNodeSaleContract")); c != nil {
								okC = true
								lc = c
							}
						}
					}
				}
			}
			o.Check("C18.R3", "handleLightNodeSale|licence only for the authorised sale contract", okC, pos, "must be dominated by contract.ContractAddress == claim.SmartContractAddress with the contract loaded by LightNodeSaleContract")
			if lc != nil {
				x, _ := fl.Influence(lc.Call.Args[len(lc.Call.Args)-1])
				okCh := false
				for a := range x {
					if strings.HasSuffix(a.Path, ".ChainReferenceId") {
						okCh = true
					}
				}
				o.Check("C18.R3", "handleLightNodeSale|sale contract looked up for the claim's own chain", okCh, w.Pos(lc.Pos()), "LightNodeSaleContract must be called with claim.ChainReferenceId")
			}
			// error propagates (returned directly)
			direct := false
			for _, r := range Returns(hs) {
				for _, c := range callsBehind(r.Ret.Results[0]) {
					if c == s.Value() {
						direct = true
					}
				}
			}
			o.Check("C18.R3", "handleLightNodeSale|failure reaches the attestation's cached context", direct, pos, "the result of CreateSaleLightNodeClientLicense must be returned")
			if pa := w.MustFunc(o, skw, "Keeper", "processAttestation"); pa != nil {
				ai := atomicWrapper(pa)
				onCache := false
				nH := 0
				if ai != nil {
					for _, hs2 := range CallsIn(pa) {
						if hs2.Callee.Name != "Handle" {
							continue
						}
						nH++
						for _, a := range hs2.Args() {
							if derivesFromValue(a, ai.ctxVal) {
								onCache = true
							}
						}
					}
				}
				o.Check("C18.R3", "processAttestation|the sale handler runs on a cached context committed only on success", ai != nil && ai.okOnly && onCache && nH == 1, w.Pos(pa.Pos()),
					"a failed sale (funder without spendable balance, fee grant failure) must leave no account, licence or escrow behind: Handle must receive the context returned by CacheContext, and commit must run only on success")
			}
		}
	}
	// the sale's fee grant goes from the configured fee granter to the client (the ante decorator accepts a grantee
	// as signer for the granter's messages, so the direction decides who may act for whom)
	if cs := w.Func(pk, "Keeper", "CreateSaleLightNodeClientLicense"); cs != nil {
		ga := FindCalls(cs, false, func(c Callee) bool { return c.Name == "GrantAllowance" })
		o.Count("C18.R3 fee grants in the sale path", len(ga), 1)
		for _, g := range ga {
			args := g.Args()
			if len(args) < 4 {
				continue
			}
			granter, grantee := args[len(args)-3], args[len(args)-2]
			fromCfg := func(v ssa.Value) bool {
				return fl.DependsOnCall(v, isCallee(pk, "Keeper", "LightNodeClientFeegranter")) != nil
			}
			fromClient := func(v ssa.Value) bool {
				x, _ := fl.Influence(v)
				for ap := range x {
					if q, isP := ap.Root.(*ssa.Parameter); isP && q.Parent() == cs && q.Name() == "clientAddr" {
						return true
					}
				}
				return false
			}
			ok := fromCfg(granter) && !fromClient(granter) && fromClient(grantee) && !fromCfg(grantee)
			o.Check("C18.R3", "sale|the fee allowance is granted by the fee granter to the client", ok, w.Pos(g.Instr.Pos()), "GrantAllowance(granter, grantee): granter must be the configured LightNodeClientFeegranter account and grantee the client; swapped, the fee granter account becomes an authorised signer for every message in the client's name")
		}
	}
	// replacing the sale contracts revokes every contract not listed again: the purge visits all stored entries
	if sa := w.MustFunc(o, skw, "Keeper", "SetAllLighNodeSaleContracts"); sa != nil {
		o.Analysed(w.FuncKey(sa))
		its := FindCalls(sa, false, func(c Callee) bool { return strings.HasPrefix(c.Name, "IterAllFnc") })
		dels := 0
		for _, f := range unitFuncs(sa) {
			for _, c := range CallsIn(f) {
				if c.Callee.Name == "Delete" && c.Callee.Iface {
					dels++
				}
			}
		}
		o.Count("C18.R3 purge iterations in SetAllLighNodeSaleContracts", len(its), 1)
		o.Count("C18.R3 deletions in SetAllLighNodeSaleContracts", dels, 1)
		for _, it := range its {
			okAll := false
			args := it.Args()
			if mc, isMC := args[len(args)-1].(*ssa.MakeClosure); isMC {
				if cb, isF := mc.Fn.(*ssa.Function); isF {
					okAll = true
					for _, b := range cb.Blocks {
						if r, isR := b.Instrs[len(b.Instrs)-1].(*ssa.Return); isR && len(r.Results) == 1 {
							if bv, isC := boolConst(r.Results[0]); !isC || !bv {
								okAll = false
							}
						}
					}
				}
			}
			o.Check("C18.R3", "SetAllLighNodeSaleContracts|the purge visits every stored contract", okAll, w.Pos(it.Instr.Pos()), "keeperutil.IterAllFnc stops at the first callback result that is false; a purge callback that returns false leaves every contract but the first in place, so a sale from a revoked contract still creates a licence")
		}
	}
	// the licence record is written only behind the lock (or by genesis import)
	{
		gen := w.Reach(entryFns(w.EntriesOf("genesis")), nil)
		rt := w.Reach(entryFns(w.EntriesOf("msg", "abci", "ante", "gov", "wasm", "hook")), nil)
		nW := 0
		for _, s := range w.CallersOf(isCallee(pk, "Keeper", "SetLightNodeClientLicense")) {
			nW++
			tf := TopFunc(s.Fn)
			ok := gen[tf] != nil && rt[tf] == nil
			if !ok {
				var locks []Site
				for _, c := range CallsIn(s.Fn) {
					if c.Callee.Name == "SendCoinsFromAccountToModule" {
						locks = append(locks, c)
					}
				}
				ok = len(locks) > 0 && PrecededBy(s.Fn, s.Instr, siteSet(locks))
			}
			o.Check("C18.R1", "SetLightNodeClientLicense called from "+w.FuncKey(tf), ok, w.Pos(s.Instr.Pos()), "a licence record may be written only after its amount was moved into the module account in the same function (or by genesis import); any other writer makes the pending licences exceed the escrow")
		}
		o.Count("C18.R1 licence writers", nW, 2)
	}
	// writers of the sale configuration keys only from governance / genesis
	cr := w.ClassReach()
	for _, m := range muts {
		isCfg := m.Has("call:x/paloma/keeper.Keeper.lightNodeClientFeegranterStore") || m.Has("call:x/paloma/keeper.Keeper.lightNodeClientFundersStore") || m.Has("global:LightNodeSaleContractsPrefix")
		if !isCfg {
			continue
		}
		f := TopFunc(m.Site.Fn)
		var bad []string
		for _, c := range cr.ClassesReaching(f) {
			if c == "msg" && onlyAuthorityHandlers(w, cr, f) {
				continue
			}
			if c == "gov" || c == "genesis" || c == "query" || c == "invariant" {
				continue
			}
			bad = append(bad, c)
		}
		o.Check("C18.R3", w.FuncKey(f)+"|sale configuration written only by governance or genesis", len(bad) == 0, w.Pos(m.Site.Instr.Pos()), "reachable from "+strings.Join(bad, ","))
	}
}

// elementOfBalanceFilter: v is an element of the result of util/slice.Filter(xs, pred) where every return of pred
// is HasBalance(.., <pred's parameter>, ..): each element is an account for which the balance check held.
func elementOfBalanceFilter(v ssa.Value) bool {
	u, ok := canon(v).(*ssa.UnOp)
	if !ok {
		return false
	}
	ia, ok := u.X.(*ssa.IndexAddr)
	if !ok {
		return false
	}
	fc, ok := canon(ia.X).(*ssa.Call)
	if !ok || len(fc.Call.Args) != 2 {
		return false
	}
	cal, okc := CalleeOf(fc.Common())
	if !okc || !strings.HasSuffix(cal.Pkg, "util/slice") || !strings.HasPrefix(cal.Name, "Filter") {
		return false
	}
	var fn *ssa.Function
	switch x := fc.Call.Args[1].(type) {
	case *ssa.MakeClosure:
		fn, _ = x.Fn.(*ssa.Function)
	case *ssa.Function:
		fn = x
	}
	if fn == nil || len(fn.Params) != 1 {
		return false
	}
	n := 0
	for _, b := range fn.Blocks {
		r, isR := b.Instrs[len(b.Instrs)-1].(*ssa.Return)
		if !isR || len(r.Results) != 1 {
			continue
		}
		n++
		hb, isC := canon(r.Results[0]).(*ssa.Call)
		if !isC {
			return false
		}
		hcal, okh := CalleeOf(hb.Common())
		if !okh || hcal.Name != "HasBalance" {
			return false
		}
		args := hb.Common().Args
		if len(args) < 2 || canon(args[len(args)-2]) != ssa.Value(fn.Params[0]) {
			return false
		}
	}
	return n > 0
}
