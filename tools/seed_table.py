#!/usr/bin/env python3
"""Rewrites the table of DESIGN.md section 4 (between the SEED-TABLE markers) from seeded/*/meta.json."""
import json, glob, os, re
ROOT='/verif'
rows=[]
for d in sorted(glob.glob(ROOT+'/seeded/C*')):
    n=os.path.basename(d)
    m=json.load(open(d+'/meta.json')) if os.path.exists(d+'/meta.json') else {}
    change=m.get('change') or ''
    if not change and os.path.exists(d+'/notes.md'):
        t=open(d+'/notes.md').readline().strip().lstrip('# ')
        change=re.sub(r'^C\d\d\s*/?\s*[Cc]hange\s+[AB]\s*[-—–:]+\s*','',t)
    det=m.get('detection') or {}
    fired=det.get('fired') or []
    rules=sorted({f.split('|')[0] for f in fired})
    what=[]
    for f in fired[:2]:
        parts=f.split('|'); what.append(parts[-1] if len(parts)>1 else f)
    conf=(m.get('confirmation') or {})
    okc = conf.get('demo_on_clean_head')=='pass' and str(conf.get('demo_with_change','')).startswith('fail') and conf.get('full_suite_with_change')=='pass'
    rows.append('| %s | %s | %s | %s |' % (n, change.replace('|','/')[:110], (', '.join(rules)+': '+'; '.join(what))[:150] if fired else '**not detected**', 'yes' if okc else 'no'))
table='| seed | what it changes | caught by (rule: obligation) | confirmed on HEAD |\n|---|---|---|---|\n'+'\n'.join(rows)
p=ROOT+'/DESIGN.md'; s=open(p).read()
a=s.index('<!-- SEED-TABLE -->'); b=s.index('<!-- /SEED-TABLE -->')
s=s[:a]+'<!-- SEED-TABLE -->\n'+table+'\n'+s[b:]
open(p,'w').write(s); print(len(rows),'rows')
