#!/usr/bin/env python3
"""Fills the 'detection' field of seeded/<id>/meta.json from logs of tools/seed_regress.sh
(usage: seed_meta_from_regress.py <log>...).  seed_regress.sh applies each patch to a scratch
worktree of /repo HEAD, runs `palomacheck -property <P> -tier quick -nocache -dir <worktree>` and
prints '<seed> detected: violated <first failing obligation>' or '<seed> MISSED'."""
import json, os, re, sys, subprocess
ROOT = '/verif'
head = subprocess.run(['git', '-C', '/repo', 'rev-parse', '--short', 'HEAD'], capture_output=True, text=True).stdout.strip()
n = miss = 0
for log in sys.argv[1:]:
    for line in open(log):
        m = re.match(r'^(C\d\d-[A-Z]) (detected|MISSED|PATCH-DOES-NOT-APPLY)(?::\s*violated (.*))?', line.rstrip())
        if not m:
            continue
        name, verdict, first = m.group(1), m.group(2), (m.group(3) or '')
        mp = f'{ROOT}/seeded/{name}/meta.json'
        if not os.path.isdir(f'{ROOT}/seeded/{name}'):
            continue
        meta = json.load(open(mp)) if os.path.exists(mp) else {}
        key = first.split(' at ')[0].strip()
        prop = name.split('-')[0]
        det = {
            'property': prop,
            'exit': 1 if verdict == 'detected' else 0,
            'violation_line': verdict == 'detected',
            'fired': [key] if key else [],
            'check_broken': [],
            'repo_head': head,
            'cmd': f'git worktree of /repo HEAD + seeded/{name}/patch.diff; palomacheck -property {prop} -tier quick -nocache -dir <worktree>   (tools/seed_regress.sh {name})',
        }
        if verdict == 'detected' and not key:
            det['fired'] = ['(reported through a CHECK-BROKEN line: an anchor or instance floor of the rule no longer matches)']
        if verdict == 'PATCH-DOES-NOT-APPLY':
            det = {'error': 'patch does not apply'}
        meta['detection'] = det
        if det.get('fired'):
            p = det['fired'][0].split('|')
            meta['caught_by'] = p[0] + ' ' + p[-1]
        else:
            meta.pop('caught_by', None)
            miss += 1
        json.dump(meta, open(mp, 'w'), indent=1, ensure_ascii=False)
        n += 1
print(n, 'metas updated;', miss, 'not detected')
