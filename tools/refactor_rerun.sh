#!/bin/bash
# usage: PC=.. T=.. tools/refactor_rerun.sh <todo-file>  (lines: Cxx/Ry prop prop ...)
export GOFLAGS=-mod=mod GOPROXY=off GOSUMDB=off GOTOOLCHAIN=local; unset GOWORK
PC=${PC:-/tmp/pcdbg4}; T=${T:-/tmp/dbg4}
while read r props; do
  [ -z "$r" ] && continue
  git -C $T checkout -q -- . && git -C $T clean -fdq
  if ! git -C $T apply /verif/refactors/${r/\//-}/patch.diff 2>/dev/null; then echo "== $r PATCH-DOES-NOT-APPLY"; continue; fi
  out=""
  for p in $props; do
    o=$($PC -property $p -tier quick -nocache -dir $T 2>&1 | grep -E "violated|CHECK-BROKEN|could not run" | cut -c1-260)
    [ -n "$o" ] && out="$out$o"$'\n'
  done
  if [ -z "$out" ]; then echo "== $r clean"; else echo "== $r ALARM"; echo -n "$out"; fi
done < $1
git -C $T checkout -q -- . && git -C $T clean -fdq
