#!/usr/bin/env python3
"""Run overlay mutants (checker/mutants.go) against /repo and report detected / missed.
usage: tools/mutants.py [-j N] [name-prefix ...]"""
import re, subprocess, sys, json, os, concurrent.futures as cf
ROOT='/verif'
ENV=dict(os.environ, GOFLAGS='-mod=mod', GOPROXY='off', GOSUMDB='off', GOTOOLCHAIN='local'); ENV.pop('GOWORK',None)
src=open(ROOT+'/checker/mutants.go').read()
ms=re.findall(r'addMutant2?\(Mutant\{"([^"]+)", "([^"]+)"', src)
exp={}
args=sys.argv[1:]; j=4
if args[:1]==['-j']: j=int(args[1]); args=args[2:]
if args: ms=[m for m in ms if any(m[0].startswith(a) for a in args)]
def run(m):
    n,p=m
    r=subprocess.run([os.environ.get('PC',ROOT+'/bin/palomacheck'),'-mutant',n,'-property',p,'-dir',os.environ.get('PCDIR','/repo')],capture_output=True,text=True,env=ENV)
    line=r.stdout.strip().splitlines()[-1] if r.stdout.strip() else r.stderr[-300:]
    if os.environ.get('PCDUMP'): line+='\n'+r.stderr
    return n,p,line
tot=det=0; missed=[]
with cf.ThreadPoolExecutor(j) as ex:
    for n,p,line in ex.map(run,ms):
        verdict='?'
        try:
            d=json.loads(line.splitlines()[0])
            if 'detected' in d:
                tot+=1
                if d['detected']: det+=1; verdict='DETECTED'
                else: missed.append(n); verdict='MISSED'
            elif 'not_applicable' in d or 'load_error' in d: verdict='N/A'
        except Exception: pass
        print(verdict,n,p,line[:6000],flush=True)
print('SUMMARY run=%d detected=%d missed=%s'%(tot,det,missed))
