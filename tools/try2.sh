#!/bin/bash
# usage: tools/try2.sh <patch> <prop>...   — apply a patch to the scratch worktree /tmp/dbg, run the (debug) checker on it, revert
export GOFLAGS=-mod=mod GOPROXY=off GOSUMDB=off GOTOOLCHAIN=local; unset GOWORK
PC=${PC:-/tmp/pcdbg}; T=${T:-/tmp/dbg}
patch=$1; shift
git -C $T checkout -q -- . && git -C $T clean -fdq
git -C $T apply "$patch" || { echo "PATCH DOES NOT APPLY"; exit 2; }
for p in "$@"; do
  $PC -property $p -tier quick -nocache -dir $T 2>&1 | grep -v WARNING | grep -E "^$p |violated|VIOLATION|CHECK-BROKEN|KNOWN" | cut -c1-330
done
git -C $T checkout -q -- . && git -C $T clean -fdq
