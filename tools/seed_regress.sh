#!/bin/bash
# usage: PC=<checker> T=<scratch tree> tools/seed_regress.sh [seed...] — every seeded change must still be reported for its property
export GOFLAGS=-mod=mod GOPROXY=off GOSUMDB=off GOTOOLCHAIN=local; unset GOWORK
PC=${PC:-/tmp/pcdbg3}; T=${T:-/tmp/dbg3}
seeds="$@"; [ -z "$seeds" ] && seeds=$(ls /verif/seeded)
for n in $seeds; do
  p=${n%%-*}
  git -C $T checkout -q -- . && git -C $T clean -fdq
  if ! git -C $T apply /verif/seeded/$n/patch.diff 2>/dev/null; then echo "$n PATCH-DOES-NOT-APPLY"; continue; fi
  out=$($PC -property $p -tier quick -nocache -dir $T 2>&1)
  if echo "$out" | grep -q "^VIOLATION property=$p"; then echo "$n detected: $(echo "$out" | grep -m1 violated | cut -c1-140)"; else echo "$n MISSED"; fi
done
git -C $T checkout -q -- . && git -C $T clean -fdq
