#!/usr/bin/env python3
# Regenerates /verif/MANIFEST.json from the table below (one entry per claimed property).
import json, os, subprocess
ROOT = os.path.dirname(os.path.dirname(os.path.abspath(__file__)))
NOTE = ("Trusted base: go/types, x/tools v0.29.0 (go/packages, go/ssa, callgraph vta+cha), the checker's summary tables for SDK / go-ethereum APIs. "
        "Assumes: no reflection/unsafe path to module state; baseapp reverts failed transactions; bank keeper calls atomic. "
        "A static rule decides the structural clause named in level_claimed.text, for every path / caller it quantifies over; it does not execute Paloma.")
CLAIMED = {
 "C02": dict(
  text="Decides, for every path of TryAttestation / Attest / attestationTally and every writer of the two oracle cursors in the module: the claim's effect, the Observed flag and the cursor advance happen only under !Observed, summed-voter-power > 66/100 of total (formula normalised symbolically; strict; threshold variable written only by its initialiser), and nonce == lastObserved+1, with the cursor advanced (and checked) before the effect; a vote is appended only under per-validator contiguity, after a membership test, and the validator's cursor is stored on every success path; cursor writers are monotone-guarded or reachable only from governance/genesis/listeners; the tally re-reads the cursor each iteration over the sorted nonce keys. NOT decided: arithmetic over concrete power distributions and power changes between vote and tally; 'exactly once whenever applicable'.",
  technique="SSA dominator guards + symbolic threshold normal form + must-pass-through + store-writer sets over VTA call graph",
  ref="C02"),
 "C03": dict(
  text="Decides over all 41 Msg handlers (discovered from the generated service interfaces), the ante decorator and the wasm bindings: every request type exposes Metadata and the authorised-signature decorator is in the installed ante chain; the decorator queries grants for each message's own creator, rebuilds its lookup structures per message and advances only past an acceptance (no metadata / signed by creator / signer among that creator's grantees); every request field that reaches an address parser anywhere in the handler's call tree (context-sensitive forward propagation of request paths) is tied to Metadata.Creator by an equality guard (handler, helper or ValidateBasic), covered by the governance-authority guard, authorised by the validator's external signature over the stored batch with verified identity == stored identity (ConfirmBatch), or listed as a beneficiary with a reason; governance handlers refuse unless a field equals the keeper authority; state-mutating handlers have a principal; bindings set the acting identity from the contract address only. NOT decided: x/feegrant semantics, SDK signature verification / signer annotations, authorisation that does not go through an address-typed request field (e.g. ownership looked up by numeric id).",
  technique="entry-point discovery + context-sensitive forward access-path propagation to address parsers + dominator/refusing-edge guard matching + loop-structure checks",
  ref="C03"),
 "C04": dict(
  text="Decides, for every path of the quorum predicate, VerifyEvidence, VerifyGasEstimates, AddEvidence, attestMessageWrapper and the two estimate setters: the predicate normalises symbolically to sum >= 2/3·total (non-strict, exact ratio) over TotalShares and ShareCount of found snapshot validators; a winner is stored only under the quorum of an accumulator re-created per evidence group, groups keyed by a hash of BytesToHash; per-validator evidence is replaced not appended and has one writer; attester and queue removal run only after VerifyEvidence==nil; the median is taken only under the quorum over a slice every element of which is assigned a submitted value; an elected estimate is written only when none exists; no wrapping +/* over two submitted estimates. NOT decided: boundary arithmetic for concrete share distributions, that the result is the median (sortedness / index arithmetic of Median).",
  technique="symbolic threshold normal form + SSA dominator guards + loop-structure (natural loop) checks + field writer sets",
  ref="C04"),
 "C08": dict(
  text="Decides over all 1100+ module functions reachable (VTA call graph, module-restricted) from every Msg/ABCI/ante/gov/wasm/hook entry point: no environment, wall-clock, randomness or runtime-state read, go statement or select influences execution (values feeding only logging are accepted); every production map range is classified (order-insensitive / sorted-before-use with a comparator that breaks ties on the map key / justified exemption) and early exits, last-writer-wins, float accumulation and state-mutating calls in map order are rejected; no store on a runtime or query path writes a package variable or a wiring-time (long-lived) object through a pointer. NOT decided: nondeterminism inside SDK / CometBFT / wasm, float behaviour across architectures, store iteration order.",
  technique="call-graph reachability of forbidden sources + use-only-in-logging dataflow + map-range effect classification on SSA natural loops + long-lived-object store check",
  ref="C08"),
 "C09": dict(
  text="Decides for the 18 AppModule Begin/EndBlock methods and every module function reachable from them without crossing a recovering frame (defer-recover, whoops.Try): each method returns only the nil error (one exemption with a checked side obligation); every explicit panic, panicking SDK conversion or division (Int.Int64/Uint64, MustFloat64, Quo*/Mod by a possibly-zero divisor, Must*/whoops.Assert), single-result type assertion, integer division by a non-constant, parallel-slice index and decremented slice index is dominated by the matching guard, auto-accepted (codec round trip, constant arguments) or individually triaged with a reason; unknown sites fail; the skyway recover frames are installed first. NOT decided: nil dereferences, general index-out-of-range, panics inside SDK callees, states unreachable through transactions.",
  technique="call-graph reachability with recover-frame cut + may-panic site enumeration + dominator guard matching + frozen triage table",
  ref="C09"),
 "C10": dict(
  text="Decides: admission to a snapshot is dominated by IsBonded, !IsJailed and ValidatorSupportsAllChains (= no active chain missing); ShareCount is GetBondedTokens itself and TotalShares starts at zero and accumulates the same call in the same loop; the snapshot store is written only under a fresh id from the counter (Id set from it), by appending to Chains of a loaded snapshot, or by test support without production callers, never deleted; the current snapshot is read at the counter's last id; a validator is projected to a chain only under chain-type/reference-id match with a power produced by truncation (no rounding call) from its share; every UpdateValset sender (and the only constructor of that action) is dominated by the quorum gate of the very valset sent; the gate is a plain sum >= floor(2*2^32/3) and maxPower == 2^32 (constant evaluation). NOT decided: the float64 normalisation arithmetic (exact floor, sum <= 2^32) and staking-module timing of jail/unbond.",
  technique="SSA dominator guards + store writer sets + constant evaluation + forbidden-call (rounding) slice check",
  ref="C10"),
 "C12": dict(
  text="Decides: no Join/Split with a non-empty separator over raw address bytes in the validator-set module (one recorded known finding); the sweep jails only under !alive, !grace, !jailed with alive == height < alive-until, and control returns to the loop header after a Jail call (a failure cannot end the sweep); every success return of KeepValidatorAlive passes the store write, which is behind the version gate and sets alive-until = height + positive constant; the gate refuses semver.Compare(v, min) < 0; both writers of the minimum version refuse to lower it and nobody else writes it; EndBlock runs the grace update on every success path and the sweep under height % n == 0, n <= 10; the sentence table is strictly increasing and never reassigned; slashing.Jail is dominated by the last-validator and 25 % guards. NOT decided: bounded-time liveness over histories, sentence arithmetic, staking-module behaviour.",
  technique="SSA dominator guards + must-pass-through + loop-structure checks + constant table evaluation + store writer sets",
  ref="C12"),
 "C13": dict(
  text="Decides: every production function that writes a batch key (directly or through StoreBatch) archives GetCheckpoint of that batch on every success path, and the archive has no Delete; bad-signature punishment (Jail, Slash) is dominated by 'checkpoint not archived' for the same checkpoint value the signer is recovered from, and hits GetValidatorByEthAddress(EthAddressFromSignature(...)); prune-time jailing is dominated by the 10 % floor whose formula normalises exactly (truncating divisions rejected) to votes < total/10, by 'no evidence from this validator', and targets current-snapshot validators only; missing a relay jails nobody. NOT decided: signature-recovery cryptography, evidence histories.",
  technique="store writer sets + must-pass-through + SSA dominator guards + symbolic threshold normal form with truncation tracking",
  ref="C13"),
 "C14": dict(
  text="Decides: every evm Message literal takes Assignee / AssigneeRemoteAddress from results #0/#1 of one PickValidatorForMessage call under its nil error (or, for the valset sender, at every call site); the keeper pick returns the snapshot entry's address for the requested chain; a batch's assignee and remote address come from the same pick and the validator's registered address under found; scoring entries exist only with metrics and fee records; the job filter accepts only through the chain-matched account and, under an MEV requirement, only if that same account has the trait (per-edge facts for the disjunction); an evm message is offered only under all five filters with the stateful oldest-per-sender filter evaluated before the estimate and assignee filters; each fee is Ceil(multiplier x base) before truncation. NOT decided: scoring arithmetic, tie behaviour, the per-sender filter's behaviour over arbitrary queue contents.",
  technique="value-flow identity (same call, tuple index) + SSA dominator / per-edge guards + short-circuit order check + call-slice shape check",
  ref="C14"),
 "C15": dict(
  text="Decides: the tax returned is amount.Mul(num).Quo(den) in that order with num/den the numerator/denominator of the stored Rate, zero for exempt sender / zero rate / unset tax; SetBridgeTax saves only under Sign() >= 0; the usage counter has one runtime writer, every write is dominated by newUsage.Total.GT(limit) == false for the very object persisted, the new total is the amount or stored total + amount; the send path checks and counts before the lock under its nil error (rejected sends are discarded with the transaction, C01.R1). NOT decided: rounding for all amounts, window roll-over arithmetic.",
  technique="call-chain shape (math method chains) + SSA dominator guards + store writer sets",
  ref="C15"),
 "C16": dict(
  text="Decides: every privileged site in the token-factory msg server is dominated by creator == GetAdmin() of the authority metadata loaded for the denomination the operation uses; mint/burn pass the creator as the only account; MintCoins/BurnCoins and their paired transfers are dominated by DeconstructDenom == nil, move exactly the amount parameter and use the address parameter as given; privileged keeper functions are called only from the msg server / create flow / genesis and only the factory and the bridge mint or burn; creation requires bank metadata for GetTokenDenom(creator, sub) to be absent and uses the creator's namespace. NOT decided: supply arithmetic over histories.",
  technique="SSA dominator guards + access-path influence + who-may-call",
  ref="C16"),
 "C17": dict(
  text="Decides: the jobs store is written only by the save function reached from AddNewJob under JobIDExists(job id) == false and never deleted; the owner is the creator; ScheduleNow's payload is the stored payload or, on an edge dominated by GetIsPayloadModifiable()==true, the caller's; a caller payload on a fixed job returns before the chain executes; the evm ExecuteJob has one enqueue site on every success path whose result is returned, with payload = injectSenderIntoPayload(requester's whole address, job payload), padded left to 32 bytes, no fixed-width truncation of the identity. NOT decided: 'exactly one message' across valset side effects, job definition parsing.",
  technique="store writer sets + phi-edge guards + must-pass-through + access-path influence with forbidden-call check",
  ref="C17"),
 "C18": dict(
  text="Decides: the paloma module account is moved by exactly the lock (coins identical to the recorded licence amount, followed by saving the licence on every success path) and the release (loaded licence amount, to the activated address); vesting uses the licence amount from block time to block time + VestingMonths; creation is dominated by licence-not-found and HasAccount == false; activation deletes the licence on every success path after the release and is keyed by the creator; the sale path is dominated by fee-granter / funders / funder-found checks and by the sale contract loaded for the claim's own chain equalling the claim's contract, with errors propagated to the attestation's cached context; sale configuration is written only by governance or genesis. NOT decided: escrow equality over histories, vesting arithmetic inside the SDK.",
  technique="bank/store writer sets + access-path value identity + SSA dominator guards + must-pass-through + error-fate",
  ref="C18"),
 "C19": dict(
  text="THIN. Decides only structural necessary conditions: the priority-class table (four proto-package prefixes agreeing with the generated service names, strictly decreasing constants, single-message transactions only, ctx priority otherwise); Insert/Remove/tie re-ordering keep the four indices in step on every success path, Remove addresses the priority index with the full stored key (priority and weight), the iterator commits a sender cursor only on the yielding path; the app installs this mempool for base app and proposal handler. NOT decided (the behavioural core of the property): exactly-once, per-sender nonce order and priority interleaving of Select().Next() over arbitrary insert/remove/select histories, and CountTx equality - these are data-structure properties over histories that no static rule here establishes.",
  technique="constant-table evaluation + co-mutation (must-pass-through) + key-completeness + ordering check on SSA of generic instantiations",
  ref="C19"),
 "C01": dict(
  text="Decides over every skyway function that (transitively, VTA call graph) mutates pool / batch / id-counter / escrow state: a function that can fail after a mutation is an atomic wrapper (cache context committed only on success, every mutating callee on the cached context) or all caller chains propagate the error to a transaction boundary / atomic wrapper, never log-and-continue; every bank call moving the escrow has a registered shape with paired amounts (lock = amount + the recorded tax value; refund = stored amount + stored tax to the checked owner after removal; burn = batch sum, followed by batch deletion; mint = claim amount, only under the attestation handler whose only caller chain is processAttestation <- TryAttestation; governance one-off authority-guarded); pool/batch moves are exclusive and ordered; a failed local send of a minted deposit still reaches the community pool (path-sensitive over flag variables). NOT decided: the numeric identity escrow == sum(amount+tax) over arbitrary histories (follows informally from the pairing rules), id uniqueness arithmetic, atomicity inside the SDK bank keeper.",
  technique="store/bank writer sets + transitive mutator closure over VTA call graph + error-fate analysis + atomic-wrapper typestate + access-path amount pairing + path-sensitive must-pass-through",
  ref="C01"),
 "C05": dict(
  text="Decides by access-path data-flow over the sibling pair keccak256 / VerifyAgainstTX of every action type: each message-relative path (action fields, fees and fee payer, message id, elected estimate, deadline, relayer) that influences the call data compared with the remote transaction also influences the Keccak256 input validators sign, plus the deployment id where the contract scheme has it; variable-length byte fields are not cut to a fixed width before signing; the batch checkpoint hash is influenced by token, receivers, amounts, nonce, timeout, relayer, gas estimate and turnstone id and every other batch field is classified; a new queued message's id comes only from IncrementNextID with one constant counter name (persisting last+1) and replacement requires the message to exist. NOT decided: injectivity of ABI packing and keccak (trusted), value-level equality of two encoders' arithmetic.",
  technique="interprocedural access-path influence (backward data-flow on SSA) + sibling cross-check + writer/guard checks",
  ref="C05"),
 "C06": dict(
  text="Decides: every production caller of AddSignData (and every direct SignData assignment) is dominated by VerifySignature==true over GetBytesToSign of the message just loaded, with the duplicate-key / duplicate-validator scan dominating the store; a batch confirmation is stored only after the external-signature check and GetBatchConfirm==nil, reader and writer on one key; the recorded public key is the GetSigningKey result of the acting validator; every production writer of Msg / GasEstimate of an existing queued message clears SignData on all paths or runs only after a checked SetElectedGasEstimate in the replacing caller; functions that rewrite a signed field without clearing are unreachable from runtime entry points; rewriting a stored batch deletes its confirmations on every success path and before the cache context is committed. NOT decided: cryptographic validity, key re-registration histories, that the signing bytes actually change.",
  technique="who-may-call + SSA dominator guards + typestate (clear-on-change) over field writer sets + call-graph reachability",
  ref="C06"),
 "C07": dict(
  text="Decides for all five VerifyAgainstTX implementations, attestTransactionIntegrity, the five attesters, routerAttester and attestMessageWrapper: success returns only under bytes.Equal(tx.Data(), X) with X influenced by the frozen per-action field set (action fields, id/estimate, deadline, fees, fee payer, relayer, valset, signature prefix); the transaction is handed on only if unprocessed and verified; every success effect is dominated by the integrity check with the action's own verifier; dispatch on a TxExecutedProof happens only past the receipt-status gate and the transaction is marked processed by a deferred call registered first; the processed set has one key derivation, an unconditional membership test and no deletions; every proof field production code reads is covered by the evidence hash; the cache is flushed only for nil / not-verified / failed. NOT decided: go-ethereum decoding, that every non-matching tx fails beyond the byte-equality gate.",
  technique="SSA dominator guards + access-path influence + must-pass-through + store writer sets + read-set vs hashed-set cross-check",
  ref="C07"),
 "C11": dict(
  text="Decides for every implementor of the bridge-claim interface: each struct field that hand-written production code reads (outside hash / validation / voter identity) influences ClaimHash, or is voter identity / metadata, or the chain id bound through the attestation store prefix; no production code assigns a claim field after receipt; attestations are stored and loaded under GetStore(chain)+key(nonce, hash) with the claim's own values. NOT decided: collision resistance of the hash and ambiguity of the '/'-joined encoding.",
  technique="read-set (type-resolved field loads / getter calls) vs hashed-set (access-path influence of the hash input) cross-check",
  ref="C11"),
}
# clauses added after the second and third rounds of seeded changes / the mutant self test (DESIGN.md sections 2a, 2b)
ALSO = {
 "C02": "a truncated quotient that is multiplied again is not an exact threshold; the periodic catch-up only ever raises a validator's cursor",
 "C04": "the evidence search also in its slices.IndexFunc form (append only when not found); a message is removed from the queue on the cached context that carries its effects (shared with C07.R5)",
 "C10": "nothing but the chain match decides whether a snapshot validator is listed in a chain's valset",
 "C01": "a pointer returned together with a found flag is used only under found (x/skyway/keeper); an ERC20 contract keeps the denom it is bound to (shared with C03.R8); an inline commit is followed by no error return; the bridge escrow stays on the bank's blocked-address list",
 "C03": "every external component wired in app.New with the application's message router is classified, and one that executes sender-chosen nested messages is opened by the decorator (authz MsgExec; ICA host and wasm are recorded known findings); bindings/entries that may belong to another principal (ERC20->denom, relay reports) are written only when absent; a create request cannot overwrite another account's job or re-create an existing denomination (shared with C17.R1 / C16.R5); a light-node sale grants the fee allowance from the fee granter to the client (shared with C18.R3)",
 "C05": "the persisted counter value is exactly the id handed out; GetCheckpoint is recomputed from content and given ChainInfo.SmartContractUniqueID at every call site; feesOrDefault substitutes a missing record only; GetBytesToSign hands the hasher the stored queue entry itself; hasher parameters are identified by position",
 "C06": "each refusing comparison of the duplicate scan is evaluated for every existing entry; the election setter clears the signatures itself; ConfirmBatch verifies against the key of msg.Orchestrator, the identity the confirmation is stored under",
 "C07": "only the three admitted conditions hold on every edge into the cache flush; message fields enter the expected call data whole (no copy into a fixed-size window without a length check); compared signature lists are prefixes of the collected signatures; the message is removed on the cached context; no cache context is written back by a defer inside a loop",
 "C08": "no calendar arithmetic on process-local-zone times before UTC(); shared sync.Map/atomic values count as in-memory state; context deadlines are wall-clock sources; sync.Once on a shared object is process-lifetime state; order-restoring comparators compare values exactly (no tolerance)",
 "C09": "methods on possibly-unset math.Int fields of the libcons structs; every recover() is called directly by a deferred function; triage entries with a checkable reason re-verify it; the relayer fee multiplicator is refused at submission unless set, non-negative and at most MaxUint64 (defect fixed in /repo); a method on an interface filled by UnpackAny is invoked only after a nil test (defect fixed in /repo); a failing message does not end the estimate pass (shared with C14.R5)",
 "C11": "the hash input passes through no normalising function; only formatting / injective encodings between claim fields and hash (allow-list); GetAttestation decodes exactly store.Get(key)",
 "C12": "the unjailed-set snapshot is rewritten on every successful run; the jail record is read and written under one key value; every accepting return of CanAcceptKeepAlive is compared with the current minimum version; protection totals are counted inside the jailing call; grace periods are updated before the liveness sweep",
 "C13": "the evidence checkpoint is recomputed from content with the chain's current deployment id; every non-nil Result of VerifyEvidence carries the tallied totals; the archived checkpoint is that of the batch written; evidence entries are replaced, never duplicated (shared with C04.R3); a checkpoint put into BytesToSign is archived; a successful MsgAddEvidence stored the evidence",
 "C14": "every queued UpdateValset counts as pending; community/security fee from the relayer fee as stored; estimate processing runs on one cache context per message, committed only on that message's success; community and security rate come from their own records; a failing message does not stop the rest of its queue",
 "C15": "rate stored exactly as proposed; an ongoing window accumulates; the usage counter is never deleted on a runtime path; a cancellation returns the recorded tax (shared with C01.R3); a window starts at the current block height; the tax is burned with the batch (shared with C01.R3)",
 "C16": "coins moved are the amount parameter itself; GetAuthorityMetadata returns the stored record or the empty value; no in-memory state in x/tokenfactory; the set_metadata wasm binding writes only for the denom whose admin it checked; genesis import restores every exported authority record; key builders keep names as spelled; the ante decorator ties each message's creator to its signers (shared with C03.R2)",
 "C17": "the requester passed on is Metadata.Creator; no in-memory copy of jobs; Job.ID is not rewritten between existence check and write; the stored payload is used only for fixed jobs or when nothing was supplied; the payload is decoded by FromHex; the wasm bindings name the calling contract as requester",
 "C18": "the licence paid out is looked up under the key that is deleted; the funder variable is only set under HasBalance; the sale handler runs on the attestation's cached context; no in-memory state in x/paloma/keeper; a licence record is written only behind the lock; replacing the sale contracts purges every stored contract; vesting ends VestingMonths months after activation; the fee allowance goes from the fee granter to the client",
 "C19": "the iterator's priority bound is the next index entry's priority whoever owns it; the mempool capacity is never fed from configuration; the priority comparator is exact on int64; the fee checker returns a constant priority below the reserved classes; every component of the index comparator compares the first key with the second",
}
for k, v in ALSO.items():
    if k in CLAIMED and "NOT decided" in CLAIMED[k]["text"]:
        a, b = CLAIMED[k]["text"].split("NOT decided", 1)
        CLAIMED[k]["text"] = a.rstrip() + " Also decides: " + v + ". NOT decided" + b
    elif k in CLAIMED:
        CLAIMED[k]["text"] += " Also decides: " + v + "."
props = [json.loads(l) for l in open(os.path.join(ROOT, "properties.jsonl"))]
PENDING = "structural rules designed in DESIGN.md but not yet built in this checkout"
NA = {}
fixes = subprocess.run(["git", "-C", "/repo", "log", "--format=%h %s", "--grep=^fix:"], capture_output=True, text=True).stdout.strip().splitlines()
m = {
 "version": 1,
 "setup_cmd": "cd /verif && ./setup.sh",
 "hooks": {"guard": "verif", "enable": "none: /repo's source is analysed, never built with hooks; no hook commits exist",
           "baseline_off_cmd": "cd /repo && GOFLAGS=-mod=mod go test -json -vet=off -count=1 -timeout 25m ./...",
           "source_commits": [f.split()[0] for f in fixes], "add_only": True},
 "engines": [{"name": "palomacheck", "path": "/verif/checker", "serves_properties": sorted(CLAIMED),
              "kind_free_text": "repository-specific static analyser: go/packages type-checked load of /repo, go/ssa with dominators, access-path data-flow, whole-program VTA call graph with module-restricted traversal"}],
 "checks": [], "notes": "All checks are static analyses of /repo's current working tree (tree-hash keyed result cache under /verif/.cache; thorough ignores the cache and additionally runs overlay-mutant self tests). fix: commits in /repo repair genuine defects found by the checks; see known_findings.json and DESIGN.md.",
 "not_applicable": [],
}
for p in props:
    pid = p["id"]
    if pid in CLAIMED:
        c = CLAIMED[pid]
        m["checks"].append({
            "property_id": pid,
            "quick_cmd": "./bin/palomacheck -property %s -tier quick" % pid,
            "thorough_cmd": "./bin/palomacheck -property %s -tier thorough" % pid,
            "evidence_file": "evidence/%s.json" % pid,
            "replay_cmd_template": "./bin/palomacheck -explain {path}",
            "engine": "palomacheck",
            "level_claimed": {"category": "other", "text": c["text"], "design_ref": "DESIGN.md §2 " + c["ref"]},
            "level_note": NOTE,
            "technique": c["technique"],
        })
    else:
        m["not_applicable"].append({"property_id": pid, "reason": NA.get(pid, PENDING)})
json.dump(m, open(os.path.join(ROOT, "MANIFEST.json"), "w"), indent=1)
print("claimed:", sorted(CLAIMED), "n/a:", [x["property_id"] for x in m["not_applicable"]])
