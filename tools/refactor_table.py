#!/usr/bin/env python3
"""Builds refactors/results.json and the table of DESIGN.md section 5a from refactor_sweep logs.
usage: tools/refactor_table.py <log>..."""
import re, sys, json, os
ROOT='/verif'
res={}
for log in sys.argv[1:]:
    cur=None
    for l in open(log):
        m=re.match(r'== (C\d\d) (C\d\d-[RH]\d|[RH]\d) (\S+)',l)
        if m:
            rid=m.group(2) if '-' in m.group(2) else m.group(1)+'-'+m.group(2)
            cur=rid; res[cur]={'verdict':m.group(3),'reported':[]}
            continue
        if cur and ('violated' in l or 'CHECK-BROKEN' in l):
            k=re.search(r'violated (\S+?\|[^ ]*(?: [^|]*?)?) at ',l)
            key=l.strip()[:160]
            mm=re.search(r'violated (.*?) at [\w./-]+:\d+',l)
            if mm: key=mm.group(1)
            else:
                mm=re.search(r'instance count (.*?)=\d+',l)
                if mm: key='floor: '+mm.group(1)
            res[cur]['reported'].append(key)
for rid in res:
    n=os.path.join(ROOT,'refactors',rid,'notes.md')
    kind=''
    if os.path.exists(n):
        t=open(n).read()
        m=re.search(r'(?im)^\**\s*kind[^:\n]*:\**\s*(.+)$',t)
        kind=(m.group(1) if m else t.strip().splitlines()[0].lstrip('# ')).strip()[:110]
    res[rid]['kind']=kind
json.dump(res,open(ROOT+'/refactors/results.json','w'),indent=1,sort_keys=True)
rows=[]
for rid in sorted(res):
    r=res[rid]
    rep='; '.join(sorted(set(x.split('|')[0]+': '+x.split('|')[-1] if '|' in x else x for x in r['reported'])))[:170]
    rows.append('| %s | %s | %s | %s |'%(rid, r['kind'].replace('|','/'), 'quiet' if r['verdict']=='clean' else '**reported**', rep))
clean=sum(1 for r in res.values() if r['verdict']=='clean')
table='%d of %d behaviour-preserving refactorings leave every check quiet.\n\n| refactoring | kind of edit | checks | what is reported (structure no longer recognised) |\n|---|---|---|---|\n'%(clean,len(res))+'\n'.join(rows)
p=ROOT+'/DESIGN.md'; s=open(p).read()
a=s.index('<!-- REFACTOR-TABLE -->'); b=s.index('<!-- /REFACTOR-TABLE -->')
s=s[:a]+'<!-- REFACTOR-TABLE -->\n'+table+'\n'+s[b:]
open(p,'w').write(s); print(clean,'/',len(res))
