#!/bin/sh
# usage: tools/try_seed.sh <patch.diff> <property>...   — apply a seeded change to /repo, run the checks, undo.
patch="$1"; shift
cd /repo || exit 2
if ! git diff --quiet; then echo "repo dirty"; exit 2; fi
if ! git apply --check "$patch" 2>/dev/null; then
  if ! git apply --3way "$patch" 2>/dev/null; then echo "PATCH DOES NOT APPLY"; git checkout -- . ; git reset -q; exit 3; fi
else
  git apply "$patch"
fi
for p in "$@"; do
  /verif/bin/palomacheck -property "$p" -tier quick 2>&1 | grep -v "^  ok" | head -40
done
git checkout -- . ; git reset -q; git clean -fdq
