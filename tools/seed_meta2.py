#!/usr/bin/env python3
"""Fills the descriptive fields of seeded/<id>/meta.json for seeds whose description lives in the
seeding agent's notes.md (rounds 2+): seed, breaks_property, change, clause_broken,
needs_in_order_to_manifest, files, origin, caught_by.  confirmation/detection (written by
seed_sweep.py) are kept as they are."""
import json, glob, os, re, sys
ROOT = '/verif'


def sections(text):
    out, cur, buf = {}, '_title', []
    for line in text.splitlines():
        if line.startswith('#'):
            out[cur] = '\n'.join(buf).strip()
            cur, buf = line.lstrip('# ').strip(), []
        else:
            buf.append(line)
    out[cur] = '\n'.join(buf).strip()
    return out


def squash(t, n=1400):
    t = re.sub(r'\s+', ' ', t).strip()
    return t if len(t) <= n else t[:n].rsplit(' ', 1)[0] + ' …'


for d in sorted(glob.glob(ROOT + '/seeded/C*')):
    name = os.path.basename(d)
    mp = d + '/meta.json'
    m = json.load(open(mp)) if os.path.exists(mp) else {}
    if name[-1] in 'AB' or (m.get('change') and m.get('needs_in_order_to_manifest') and '--force' not in sys.argv):
        continue
    notes = open(d + '/notes.md').read() if os.path.exists(d + '/notes.md') else ''
    title = notes.splitlines()[0].lstrip('# ').strip() if notes else ''
    change = re.sub(r'^C\d\d\s*/?\s*[Cc]hange\s+[A-J]\s*[-—–:]+\s*', '', title)
    sec = sections(notes)
    clause = next((v for k, v in sec.items() if 'lause' in k), '')
    needs = next((v for k, v in sec.items() if 'manifest' in k.lower()), '')
    new = {
        'seed': name,
        'breaks_property': name.split('-')[0],
        'change': change,
        'clause_broken': squash(clause),
        'needs_in_order_to_manifest': squash(needs),
        'files': sorted(f for f in os.listdir(d) if f != 'meta.json'),
        'origin': 'independent sub-agent given only the property text and a scratch worktree (%s round: told which ideas had been used before and asked for different mechanisms); rebased by hand where patch.original.diff exists' % ({'C':'second','D':'second','E':'third','F':'third','G':'fourth','H':'fourth','I':'fifth','J':'fifth','K':'sixth','L':'sixth'}.get(name[-1],'second')),
    }
    for k in ('confirmation', 'detection'):
        if k in m:
            new[k] = m[k]
    fired = (new.get('detection') or {}).get('fired') or []
    if fired:
        p = fired[0].split('|')
        new['caught_by'] = p[0] + ' ' + p[-1]
    json.dump(new, open(mp, 'w'), indent=1, ensure_ascii=False)
    print('wrote', name, '|', change[:80])
