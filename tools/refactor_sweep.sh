#!/bin/bash
# usage: tools/refactor_sweep.sh <id>...   — apply each behaviour-preserving refactor of /tmp/seedout3/<id>/R*/ to a scratch tree and run ALL checks
export GOFLAGS=-mod=mod GOPROXY=off GOSUMDB=off GOTOOLCHAIN=local; unset GOWORK
PC=${PC:-/tmp/pcdbg2}; T=${T:-/tmp/dbg2}
for id in "$@"; do for r in /verif/refactors/$id-R*/; do
  [ -f $r/patch.diff ] || continue
  git -C $T checkout -q -- . && git -C $T clean -fdq
  if ! git -C $T apply $r/patch.diff 2>/dev/null; then echo "== $id $(basename $r) PATCH-DOES-NOT-APPLY"; continue; fi
  out=$($PC -property all -tier quick -nocache -dir $T 2>&1 | grep -E "violated|CHECK-BROKEN|could not run" | cut -c1-260)
  if [ -z "$out" ]; then echo "== $id $(basename $r) clean"; else echo "== $id $(basename $r) ALARM"; echo "$out"; fi
done; done
git -C $T checkout -q -- . && git -C $T clean -fdq
