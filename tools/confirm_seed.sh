#!/bin/bash
# usage: tools/confirm_seed.sh <seed dir containing patch.diff, demo files, demo_path.txt> <name>
# Confirms in a scratch worktree of /repo (HEAD): demo passes without the change, fails with it;
# the tree builds and the full existing suite passes with the change. Writes <seed dir>/confirm.log.
set -u
export GOFLAGS=-mod=mod GOPROXY=off GOSUMDB=off GOTOOLCHAIN=local; unset GOWORK
sd="$1"; name="$2"; wt=/tmp/confirm/$name
mkdir -p /tmp/confirm; rm -rf "$wt"
git -C /repo worktree add -q --detach "$wt" HEAD || exit 2
log="$sd/confirm.log"; : > "$log"
cd "$wt"
# place demo files
pkgs=""
while read -r line; do
  [ -z "$line" ] && continue
  # lines may be "file -> path" or just a path
  path=$(echo "$line" | sed -E 's/.*(->|:)[[:space:]]*//' | tr -d '`' | awk '{print $NF}')
  base=$(basename "$path")
  src=$(find "$sd" -maxdepth 1 -name "$base" | head -1)
  if [ -n "$src" ] && [ -n "$path" ]; then mkdir -p "$(dirname "$path")"; cp "$src" "$path"; pkgs="$pkgs ./$(dirname "$path")"; fi
done < <(grep -E '_test\.go' "$sd/demo_path.txt")
pkgs=$(echo $pkgs | tr ' ' '\n' | sort -u | tr '\n' ' ')
echo "demo packages: $pkgs" >> "$log"
echo "== demo on clean tree" >> "$log"
go test -vet=off -count=1 $pkgs >> "$log" 2>&1; echo "exit=$?" >> "$log"; clean_rc=$(tail -1 "$log")
echo "== apply patch" >> "$log"
if ! git apply "$sd/patch.diff" 2>>"$log"; then git apply --3way "$sd/patch.diff" >>"$log" 2>&1 || echo "APPLY FAILED" >> "$log"; fi
echo "== build" >> "$log"
go build ./... >> "$log" 2>&1; echo "exit=$?" >> "$log"
echo "== demo with change" >> "$log"
go test -vet=off -count=1 $pkgs 2>&1 | tail -40 >> "$log"; echo "exit=${PIPESTATUS[0]}" >> "$log"
echo "== full suite with change (demo files removed)" >> "$log"
git clean -fdq
go test -vet=off -count=1 -timeout 25m ./... 2>&1 | grep -v "no test files" | grep -v "^ok" | tail -30 >> "$log"; echo "exit=${PIPESTATUS[0]}" >> "$log"
cd /; git -C /repo worktree remove --force "$wt"
grep -E "^==|^exit=" "$log" | paste - - | sed "s|^|$name: |"
