#!/usr/bin/env python3
"""Confirm every seeded change against /repo HEAD and record which checks catch it.

usage: tools/seed_sweep.py confirm [names...]   # scratch worktrees under /tmp/confirm (parallel)
       tools/seed_sweep.py detect  [names...]   # applies each patch to /repo, runs the property's quick check, reverts
Results are merged into seeded/<name>/meta.json."""
import json, os, re, subprocess, sys, glob, concurrent.futures as cf
ROOT='/verif'; ENV=dict(os.environ, GOFLAGS='-mod=mod', GOPROXY='off', GOSUMDB='off', GOTOOLCHAIN='local'); ENV.pop('GOWORK',None)
def sh(cmd, cwd=None, timeout=3000):
    p=subprocess.run(cmd, shell=True, cwd=cwd, env=ENV, capture_output=True, text=True, timeout=timeout)
    return p.returncode, (p.stdout+p.stderr)
def meta_path(n): return f'{ROOT}/seeded/{n}/meta.json'
def load(n):
    try: return json.load(open(meta_path(n)))
    except Exception: return {}
def save(n,m): json.dump(m, open(meta_path(n),'w'), indent=1)
def demos(n):
    d=f'{ROOT}/seeded/{n}'; out=[]
    for line in open(d+'/demo_path.txt'):
        m=re.findall(r'[\w./-]+_test\.go', line)
        if m:
            path=m[-1]
            src=os.path.join(d, os.path.basename(path))
            if os.path.exists(src): out.append((src,path))
    return out
def confirm(n):
    wt=f'/tmp/confirm/{n}'; sh(f'rm -rf {wt}; git -C /repo worktree prune; git -C /repo worktree add -q --detach {wt} HEAD')
    res={}
    try:
        pk=set()
        for src,path in demos(n):
            os.makedirs(os.path.dirname(f'{wt}/{path}'), exist_ok=True); sh(f'cp {src} {wt}/{path}'); pk.add('./'+os.path.dirname(path))
        pkgs=' '.join(sorted(pk))
        runf=''
        rf=f'{ROOT}/seeded/{n}/run_filter.txt'
        if os.path.exists(rf): runf='-run "'+open(rf).read().strip()+'"'
        rc,out=sh(f'go test -vet=off -count=1 {runf} {pkgs}', wt); res['demo_on_clean_head']='pass' if rc==0 else 'FAIL'
        rc,out=sh(f'git apply {ROOT}/seeded/{n}/patch.diff', wt); res['patch_applies']= rc==0
        rc,out=sh('go build ./...', wt); res['build_with_change']='ok' if rc==0 else 'FAIL'
        rc,out=sh(f'go test -vet=off -count=1 {runf} {pkgs}', wt); res['demo_with_change']='fail (as required)' if rc!=0 else 'PASSES (seed invalid)'
        fl=[l for l in out.splitlines() if ('--- FAIL' in l or 'Error:' in l or 'panic:' in l)][:3]
        res['demo_failure_excerpt']=fl
        for src,path in demos(n): sh(f'rm -f {wt}/{path}')
        rc,out=sh('go test -vet=off -count=1 -timeout 25m ./...', wt); res['full_suite_with_change']='pass' if rc==0 else 'FAIL'
        res['commands']=[f'go test -vet=off -count=1 {runf} {pkgs}  (clean HEAD, then with patch)', 'go build ./...', 'go test -vet=off -count=1 -timeout 25m ./...  (with patch, demo removed)']
        res['repo_head']=sh('git -C /repo rev-parse --short HEAD')[1].strip()
    finally:
        sh(f'git -C /repo worktree remove --force {wt}')
    m=load(n); m['confirmation']=res; save(n,m); return n,res
def detect(n):
    prop=n.split('-')[0]
    rc,out=sh('git -C /repo diff --quiet')
    if rc!=0: raise SystemExit('repo dirty')
    rc,out=sh(f'git -C /repo apply {ROOT}/seeded/{n}/patch.diff')
    m=load(n)
    try:
        if rc!=0: m['detection']={'error':'patch does not apply'}
        else:
            rc,out=sh(f'{ROOT}/bin/palomacheck -property {prop} -tier quick', ROOT)
            keys=[l.strip()[len('violated '):].split(' at ')[0] for l in out.splitlines() if l.strip().startswith('violated ')]
            broken=[l for l in out.splitlines() if l.startswith('CHECK-BROKEN')]
            m['detection']={'property':prop,'exit':rc,'violation_line':any(l.startswith('VIOLATION') for l in out.splitlines()),'fired':keys,'check_broken':broken,'cmd':f'git -C /repo apply seeded/{n}/patch.diff && ./bin/palomacheck -property {prop} -tier quick'}
    finally:
        sh('git -C /repo checkout -- . && git -C /repo clean -fdq')
    save(n,m); return n,m.get('detection')
if __name__=='__main__':
    mode=sys.argv[1]; names=sys.argv[2:] or sorted(os.path.basename(d) for d in glob.glob(ROOT+'/seeded/C*'))
    if mode=='confirm':
        os.makedirs('/tmp/confirm',exist_ok=True)
        with cf.ThreadPoolExecutor(4) as ex:
            for n,r in ex.map(confirm,names): print(n, {k:v for k,v in r.items() if k not in('commands','demo_failure_excerpt')}, flush=True)
    else:
        for n in names: print(*detect(n), flush=True)
