#!/bin/bash
# usage: tools/seed_ingest.sh <outdir> <letterA> <letterB> [props...]
# Copies the deliverables of a seeding round (<outdir>/<P>/{A,B}/) to seeded/<P>-<letter>/
# (patch.diff, demo files, demo_path.txt, notes.md). Skips incomplete deliveries.
out="$1"; la="$2"; lb="$3"; shift 3
props="$@"; [ -z "$props" ] && props=$(ls "$out" | grep -E '^C[0-9]+$')
for p in $props; do
  for x in A B; do
    src="$out/$p/$x"; [ "$x" = A ] && l=$la || l=$lb
    [ -f "$src/patch.diff" ] && [ -s "$src/patch.diff" ] && [ -f "$src/demo_path.txt" ] || { echo "$p/$x incomplete"; continue; }
    dst=/verif/seeded/$p-$l; mkdir -p "$dst"
    cp "$src"/* "$dst"/ 2>/dev/null
    echo "$p-$l ingested ($(grep -c '^diff --git' "$dst/patch.diff") files changed)"
  done
done
