#!/bin/sh
# Builds the analyser from files on disk only (module cache, no network).
set -e
cd "$(dirname "$0")/checker"
export GOFLAGS=-mod=mod GOPROXY=off GOSUMDB=off GOTOOLCHAIN=local
unset GOWORK
mkdir -p ../bin ../evidence
go build -o ../bin/palomacheck .
