package paloma_test

// Demonstration for the C03 finding "messages nested in an authz MsgExec are dispatched to the
// module handlers without the creator check". Place in x/paloma/ and run
//   go test -vet=off -count=1 -run Test_NestedExecCreatorIsVerified ./x/paloma/
// It fails on the tree before the fix (the decorator lets the transaction through) and passes after.

import (
	"testing"

	"cosmossdk.io/log"
	"cosmossdk.io/x/feegrant"
	tmproto "github.com/cometbft/cometbft/proto/tendermint/types"
	sdk "github.com/cosmos/cosmos-sdk/types"
	"github.com/cosmos/cosmos-sdk/x/authz"
	"github.com/palomachain/paloma/v2/x/paloma"
	"github.com/palomachain/paloma/v2/x/paloma/types"
	vtypes "github.com/palomachain/paloma/v2/x/valset/types"
	"github.com/stretchr/testify/require"
)

func Test_NestedExecCreatorIsVerified(t *testing.T) {
	victim := sdk.AccAddress("victim-account------")
	attacker := sdk.AccAddress("attacker-account----")

	inner := &types.MsgAddStatusUpdate{
		Status: "anything",
		Metadata: vtypes.MsgMetadata{
			Creator: victim.String(),             // acts in the victim's name ...
			Signers: []string{attacker.String()}, // ... but is "signed" by the attacker, who is also the MsgExec grantee
		},
	}
	exec := authz.NewMsgExec(attacker, []sdk.Msg{inner})

	k := &mockFeegrantKeeper{t: t}
	// the victim never granted anything to the attacker
	k.addCall(&feegrant.QueryAllowancesByGranterRequest{Granter: victim.String()},
		&feegrant.QueryAllowancesByGranterResponse{}, nil)

	testee := paloma.NewVerifyAuthorisedSignatureDecorator(k)
	ctx := sdk.NewContext(nil, tmproto.Header{}, false, log.NewNopLogger())
	_, err := testee.AnteHandle(ctx, &tx{msgs: []sdk.Msg{&exec}, address: attacker}, false,
		func(ctx sdk.Context, tx sdk.Tx, simulate bool) (sdk.Context, error) { return ctx, nil })
	require.Error(t, err, "a message executed through authz MsgExec in the name of a creator who neither signed nor granted must be rejected")
}
