package libcons_test

// Demonstration for /verif/findings/C09-evidence-without-proof (belongs in util/libcons):
// panics on the parent of the fix, passes with it.

import (
	"context"
	"testing"

	sdkmath "cosmossdk.io/math"
	"github.com/cosmos/cosmos-sdk/codec"
	codectypes "github.com/cosmos/cosmos-sdk/codec/types"
	sdk "github.com/cosmos/cosmos-sdk/types"
	"github.com/palomachain/paloma/v2/util/libcons"
	consensustypes "github.com/palomachain/paloma/v2/x/consensus/types"
	evmtypes "github.com/palomachain/paloma/v2/x/evm/types"
	valsettypes "github.com/palomachain/paloma/v2/x/valset/types"
	"github.com/stretchr/testify/require"
)

func stored(t *testing.T, val sdk.ValAddress, proof *codectypes.Any) libcons.Evidence {
	t.Helper()
	// round trip through the wire format, the way evidence is read back from the consensus queue
	bz, err := (&consensustypes.Evidence{ValAddress: val, Proof: proof}).Marshal()
	require.NoError(t, err)
	var ev consensustypes.Evidence
	require.NoError(t, ev.Unmarshal(bz))
	return &ev
}

// Three validators attest a reference block; a fourth one sends a MsgAddEvidence without a proof (nothing
// validates the field). The end blocker's evidence check must not panic, and the agreeing 75 % must still win.
func TestVerifyEvidenceToleratesEvidenceWithoutProof(t *testing.T) {
	reg := codectypes.NewInterfaceRegistry()
	evmtypes.RegisterInterfaces(reg)
	cdc := codec.NewProtoCodec(reg)

	vals := []sdk.ValAddress{sdk.ValAddress("validator-1"), sdk.ValAddress("validator-2"), sdk.ValAddress("validator-3"), sdk.ValAddress("validator-4")}
	snapshot := &valsettypes.Snapshot{Id: 1, TotalShares: sdkmath.NewInt(100)}
	for _, v := range vals {
		snapshot.Validators = append(snapshot.Validators, valsettypes.Validator{Address: v, ShareCount: sdkmath.NewInt(25)})
	}
	cc := libcons.New(func(context.Context) (*valsettypes.Snapshot, error) { return snapshot, nil }, cdc)

	good, err := codectypes.NewAnyWithValue(&evmtypes.ReferenceBlockAttestationRes{BlockHeight: 7, BlockHash: "0xabc"})
	require.NoError(t, err)

	evidence := []libcons.Evidence{
		stored(t, vals[3], nil), // hostile / buggy submission
		stored(t, vals[0], good),
		stored(t, vals[1], good),
		stored(t, vals[2], good),
	}
	require.NotPanics(t, func() {
		res, err := cc.VerifyEvidence(context.Background(), evidence)
		require.NoError(t, err)
		require.NotNil(t, res.Winner)
	})
}
