package keeper

import (
	"math/big"
	"testing"

	sdkmath "cosmossdk.io/math"
	codectypes "github.com/cosmos/cosmos-sdk/codec/types"
	sdk "github.com/cosmos/cosmos-sdk/types"
	consensustypes "github.com/palomachain/paloma/v2/x/consensus/types"
	"github.com/palomachain/paloma/v2/x/evm/types"
	metrixtypes "github.com/palomachain/paloma/v2/x/metrix/types"
	treasurytypes "github.com/palomachain/paloma/v2/x/treasury/types"
	valsettypes "github.com/palomachain/paloma/v2/x/valset/types"
	"github.com/stretchr/testify/mock"
	"github.com/stretchr/testify/require"
)

// lowestStorableMultiplicator is the most negative decimal a relayer can put
// into its fee setting. It is pushed through the treasury wire type to make
// sure the value survives the encoding used for the transaction and the store.
func lowestStorableMultiplicator(t *testing.T) sdkmath.LegacyDec {
	t.Helper()
	// -(2^256 * 10^18 - 1) is the lower limit of a legacy decimal's raw value
	raw := new(big.Int).Lsh(big.NewInt(1), 256)
	raw.Mul(raw, new(big.Int).Exp(big.NewInt(10), big.NewInt(sdkmath.LegacyPrecision), nil))
	raw.Sub(raw, big.NewInt(1))
	raw.Neg(raw)
	in := treasurytypes.RelayerFeeSetting{
		ValAddress: sdk.ValAddress("validator-2").String(),
		Fees: []treasurytypes.RelayerFeeSetting_FeeSetting{{
			Multiplicator:    sdkmath.LegacyNewDecFromBigIntWithPrec(raw, sdkmath.LegacyPrecision),
			ChainReferenceId: "test-chain",
		}},
	}
	bz, err := in.Marshal()
	require.NoError(t, err)
	var out treasurytypes.RelayerFeeSetting
	require.NoError(t, out.Unmarshal(bz))
	require.True(t, out.Fees[0].Multiplicator.IsNegative())
	return out.Fees[0].Multiplicator
}

type negativeFeeFixture struct {
	chainInfo   *types.ChainInfo
	snapshot    *valsettypes.Snapshot
	metrics     *metrixtypes.QueryValidatorsResponse
	relayerFees map[string]sdkmath.LegacyDec
}

func newNegativeFeeFixture(t *testing.T) negativeFeeFixture {
	chainInfo := &types.ChainInfo{
		ChainID:               100,
		ChainReferenceID:      "test-chain",
		ReferenceBlockHeight:  1000,
		ReferenceBlockHash:    "0x00",
		MinOnChainBalance:     "100",
		SmartContractUniqueID: []byte("abc"),
		SmartContractAddr:     "0x01",
		RelayWeights: &types.RelayWeights{
			Fee:           "1.0",
			Uptime:        "1.0",
			SuccessRate:   "1.0",
			ExecutionTime: "1.0",
			FeatureSet:    "1.0",
		},
	}

	vals := []sdk.ValAddress{sdk.ValAddress("validator-1"), sdk.ValAddress("validator-2")}
	powers := []int64{15, 5}

	snapshot := &valsettypes.Snapshot{Id: 5, TotalShares: sdkmath.NewInt(20)}
	metrics := &metrixtypes.QueryValidatorsResponse{}
	for i, v := range vals {
		snapshot.Validators = append(snapshot.Validators, valsettypes.Validator{
			Address:    v,
			ShareCount: sdkmath.NewInt(powers[i]),
			ExternalChainInfos: []*valsettypes.ExternalChainInfo{{
				ChainType:        "evm",
				ChainReferenceID: chainInfo.GetChainReferenceID(),
				Address:          "addr1",
				Pubkey:           []byte("1"),
			}},
		})
		metrics.ValMetrics = append(metrics.ValMetrics, metrixtypes.ValidatorMetrics{
			ValAddress:    v.String(),
			Uptime:        sdkmath.LegacyOneDec(),
			SuccessRate:   sdkmath.LegacyOneDec(),
			ExecutionTime: sdkmath.NewInt(0),
			Fee:           sdkmath.NewInt(0),
			FeatureSet:    sdkmath.LegacyOneDec(),
		})
	}

	return negativeFeeFixture{
		chainInfo: chainInfo,
		snapshot:  snapshot,
		metrics:   metrics,
		relayerFees: map[string]sdkmath.LegacyDec{
			// an ordinary relayer
			vals[0].String(): sdkmath.LegacyMustNewDecFromStr("0.05"),
			// a relayer that set the lowest multiplicator the type can hold
			vals[1].String(): lowestStorableMultiplicator(t),
		},
	}
}

// evm's EndBlock calls AddJustInTimeValsetUpdates on every block. With a fee
// paying message waiting and the published valset out of date it has to pick a
// relayer for the valset update. That must work whatever fee settings relayers
// have stored.
func TestAddJustInTimeValsetUpdates_NegativeRelayerFee(t *testing.T) {
	f := newNegativeFeeFixture(t)
	k, ms, ctx := NewEvmKeeper(t)
	require.NoError(t, k.updateChainInfo(ctx, f.chainInfo))

	qMsg, err := codectypes.NewAnyWithValue(&types.Message{
		TurnstoneID:      "abc",
		ChainReferenceID: "test-chain",
		Assignee:         "addr4",
		Action: &types.Message_SubmitLogicCall{
			SubmitLogicCall: &types.SubmitLogicCall{
				SenderAddress: sdk.ValAddress("sender"),
			},
		},
	})
	require.NoError(t, err)

	ms.ConsensusKeeper.On("GetMessagesFromQueue", mock.Anything, mock.Anything, mock.Anything).
		Return([]consensustypes.QueuedSignedMessageI{
			&consensustypes.QueuedSignedMessage{Id: 1, Msg: qMsg},
		}, nil).
		Once()
	ms.ValsetKeeper.On("GetCurrentSnapshot", mock.Anything).Return(f.snapshot, nil)
	ms.ValsetKeeper.On("GetLatestSnapshotOnChain", mock.Anything, mock.Anything).
		Return(&valsettypes.Snapshot{Id: 1}, nil)
	ms.MetrixKeeper.On("Validators", mock.Anything, mock.Anything).Return(f.metrics, nil)
	ms.TreasuryKeeper.On("GetRelayerFeesByChainReferenceID", mock.Anything, f.chainInfo.ChainReferenceID).
		Return(f.relayerFees, nil)
	ms.MsgSender.On("SendValsetMsgForChain", mock.Anything, mock.Anything,
		mock.Anything, mock.Anything, mock.Anything).
		Return(nil)

	require.NotPanics(t, func() {
		k.AddJustInTimeValsetUpdates(ctx)
	}, "evm end blocker must not panic on a relayer's fee setting")

	// the valset update was handed to a relayer
	ms.MsgSender.AssertNumberOfCalls(t, "SendValsetMsgForChain", 1)
}

// valset's EndBlock builds a snapshot every 50 blocks and notifies evm, which
// publishes the new valset to every chain and picks a relayer for that.
func TestPublishSnapshotToAllChains_NegativeRelayerFee(t *testing.T) {
	f := newNegativeFeeFixture(t)
	k, ms, ctx := NewEvmKeeper(t)
	require.NoError(t, k.updateChainInfo(ctx, f.chainInfo))

	ms.ValsetKeeper.On("GetCurrentSnapshot", mock.Anything).Return(f.snapshot, nil)
	ms.ValsetKeeper.On("GetLatestSnapshotOnChain", mock.Anything, mock.Anything).
		Return(nil, nil)
	ms.MetrixKeeper.On("Validators", mock.Anything, mock.Anything).Return(f.metrics, nil)
	ms.TreasuryKeeper.On("GetRelayerFeesByChainReferenceID", mock.Anything, f.chainInfo.ChainReferenceID).
		Return(f.relayerFees, nil)
	ms.MsgSender.On("SendValsetMsgForChain", mock.Anything, mock.Anything,
		mock.Anything, mock.Anything, mock.Anything).
		Return(nil)

	require.NotPanics(t, func() {
		require.NoError(t, k.PublishSnapshotToAllChains(ctx, f.snapshot, false))
	}, "publishing a fresh snapshot must not panic on a relayer's fee setting")

	ms.MsgSender.AssertNumberOfCalls(t, "SendValsetMsgForChain", 1)
}
