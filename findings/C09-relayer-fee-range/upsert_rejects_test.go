package keeper

// Demonstration for /verif/findings/C09-relayer-fee-range (belongs in x/treasury/keeper):
// passes with the fix a2063bdf, fails on its parent (the hostile settings are stored).

import (
	"math/big"
	"testing"

	"cosmossdk.io/log"
	sdkmath "cosmossdk.io/math"
	tmproto "github.com/cometbft/cometbft/proto/tendermint/types"
	sdk "github.com/cosmos/cosmos-sdk/types"
	keeperutil "github.com/palomachain/paloma/v2/util/keeper"
	keeperutilmocks "github.com/palomachain/paloma/v2/util/keeper/mocks"
	"github.com/palomachain/paloma/v2/x/treasury/types"
	"github.com/stretchr/testify/mock"
	"github.com/stretchr/testify/require"
)

func TestUpsertRelayerFeeRefusesUnpayableMultiplicators(t *testing.T) {
	val := sdk.ValAddress("validator-1").String()
	ctx := sdk.NewContext(nil, tmproto.Header{}, false, log.NewNopLogger())

	lowest := new(big.Int).Lsh(big.NewInt(1), 256)
	lowest.Mul(lowest, new(big.Int).Exp(big.NewInt(10), big.NewInt(sdkmath.LegacyPrecision), nil))
	lowest.Sub(lowest, big.NewInt(1))
	lowest.Neg(lowest)

	for name, m := range map[string]sdkmath.LegacyDec{
		"negative":         sdkmath.LegacyMustNewDecFromStr("-0.5"),
		"lowest storable":  sdkmath.LegacyNewDecFromBigIntWithPrec(lowest, sdkmath.LegacyPrecision),
		"beyond MaxUint64": sdkmath.LegacyMustNewDecFromStr("60000000000000000000000000000000000000000000000000000000000000000000000000000"),
		"unset":            {},
	} {
		store := keeperutilmocks.NewKVStoreWrapper[*types.RelayerFeeSetting](t)
		stored := false
		store.On("Get", mock.Anything, mock.Anything).Return(nil, keeperutil.ErrNotFound).Maybe()
		store.On("Set", mock.Anything, mock.Anything, mock.Anything).Run(func(mock.Arguments) { stored = true }).Return(nil).Maybe()
		srv := msgServer{Keeper: Keeper{relayerFees: store}}
		_, err := srv.UpsertRelayerFee(ctx, &types.MsgUpsertRelayerFee{FeeSetting: &types.RelayerFeeSetting{
			ValAddress: val,
			Fees:       []types.RelayerFeeSetting_FeeSetting{{Multiplicator: m, ChainReferenceId: "test-chain"}},
		}})
		require.Error(t, err, name)
		require.False(t, stored, "%s multiplicator was stored", name)
	}
}
